#!/venv/bin/python
"""usage: tools/rolehelp.py Cxx  -> for every function the rules of Cxx evaluate, the locals whose names occur in the rule
module's source, with their binding statements (to write role specifications in sa/rolespecs.py).  Maintenance tool."""
import ast, importlib, os, re, sys
HERE = os.path.dirname(os.path.dirname(os.path.abspath(__file__)))
sys.path.insert(0, HERE)
os.environ["VERIF_NO_EVIDENCE"] = "1"
from sa import core
from sa.report import Check
from sa.roles import renamable, _own_nodes, _flatten
from sa.rolespecs import ROLES
pid = sys.argv[1]
seen = []
orig = core.Module.ev
def ev(self, qual, roles=None, **kw):
    if (self.rel, qual) not in seen:
        seen.append((self.rel, qual, tuple(sorted(kw.get("opaque") or ()))))
    return orig(self, qual, roles=roles, **kw)
core.Module.ev = ev
mod = importlib.import_module(f"sa.rules.{pid.lower()}")
chk = Check(pid, "quick", "/repo", None)
try:
    mod.run(chk)
except Exception as e:
    print("run aborted:", e)
src = open(mod.__file__).read()
for extra in ("generic.py",):
    pass
tokens = set(re.findall(r"[A-Za-z_][A-Za-z_0-9]*", " ".join(re.findall(r"\"([^\"\n]*)\"|'([^'\n]*)'", src).__iter__().__next__() if False else [a or b for a, b in re.findall(r"\"([^\"\n]*)\"|'([^'\n]*)'", src)])))
done = set()
for rel, qual, opq in seen:
    if (rel, qual) in done or rel.endswith(".pyx"):
        continue
    done.add((rel, qual))
    m = chk.repo.module(rel)
    fn = m.funcs.get(qual)
    if fn is None:
        continue
    loc = renamable(m.text, fn) or set()
    used = sorted((loc & tokens) | (loc & set(opq)))
    have = ROLES.get((rel, qual), {})
    todo = [n for n in used if n not in have]
    if not todo:
        continue
    print(f"\n== ({rel!r}, {qual!r})  opaque={list(opq)}")
    for n in todo:
        binds = []
        for node in _own_nodes(fn):
            if isinstance(node, ast.Assign):
                for t in node.targets:
                    el = _flatten(t)
                    for k, x in enumerate(el):
                        if isinstance(x, ast.Name) and x.id == n:
                            binds.append((node.lineno, ("assign" if len(el) == 1 else f"unpack[{k}]") + " " + ast.unparse(node.value)[:110]))
            elif isinstance(node, ast.For):
                el = _flatten(node.target)
                for k, x in enumerate(el):
                    if isinstance(x, ast.Name) and x.id == n:
                        binds.append((node.lineno, f"for[{k if len(el) > 1 else None}] in {ast.unparse(node.iter)[:100]}"))
            elif isinstance(node, ast.AugAssign) and isinstance(node.target, ast.Name) and node.target.id == n:
                binds.append((node.lineno, "aug " + ast.unparse(node)[:80]))
            elif isinstance(node, ast.With):
                for it in node.items:
                    if isinstance(it.optional_vars, ast.Name) and it.optional_vars.id == n:
                        binds.append((node.lineno, "with " + ast.unparse(it.context_expr)[:80]))
        print(f"   {n!r}: " + " | ".join(f"{b}" for _, b in sorted(binds)[:3]))
