#!/venv/bin/python
"""Evaluate candidate seeded breakages (maintenance tool, never part of a verdict).

usage: tools/seedeval.py verify <dir-with-patch.diff/demo.py/meta.json> <worktree>   # clean->demo 0, patched->demo 1, tests same
       tools/seedeval.py detect <seed-dir> [--all]                                   # run the property's check on a patched scratch copy
       tools/seedeval.py all                                                         # detect for every /verif/seeded/*/
"""
import json
import os
import shutil
import subprocess
import sys
import tempfile

HERE = os.path.dirname(os.path.dirname(os.path.abspath(__file__)))
SCRATCH = "/dev/shm" if os.path.isdir("/dev/shm") else "/tmp"
PY = "/venv/bin/python"


def sh(cmd, cwd=None, env=None, timeout=900):
    r = subprocess.run(cmd, shell=isinstance(cmd, str), cwd=cwd, env=env, capture_output=True, text=True, timeout=timeout)
    return r.returncode, r.stdout + r.stderr


def verify(seed, wt):
    env = {**os.environ, "PYTHONPATH": os.path.join(wt, "src")}
    rc, out = sh("git status --porcelain src", cwd=wt)
    if out.strip():
        return {"ok": False, "why": "worktree not clean: " + out[:200]}
    demo = os.path.join(seed, "demo.py")
    patch = os.path.join(seed, "patch.diff")
    rc0, out0 = sh([PY, demo], cwd=wt, env=env)
    rca, outa = sh(["git", "apply", patch], cwd=wt)
    if rca != 0:
        return {"ok": False, "why": "patch does not apply: " + outa[:300]}
    try:
        rc1, out1 = sh([PY, demo], cwd=wt, env=env)
        rct, outt = sh([PY, "-m", "pytest", "-q", "-p", "no:cacheprovider", "-x", "--deselect",
                        "src/chmpy/tests/promolecule/test_density.py::PromoleculeDensityTestCase::test_repr", "src/chmpy/tests"], cwd=wt, env=env)
    finally:
        sh("git checkout -- src", cwd=wt)
    tail = outt.strip().splitlines()[-1] if outt.strip() else ""
    return {"ok": rc0 == 0 and rc1 == 1 and rct == 0, "demo_clean": rc0, "demo_patched": rc1, "tests": tail,
            "demo_output": out1[-400:]}


def detect(seed, pids=None):
    seed = os.path.abspath(seed)
    meta = json.load(open(os.path.join(seed, "meta.json")))
    pid = meta["property"]
    d = tempfile.mkdtemp(prefix="verif-seed-", dir=SCRATCH)
    try:
        shutil.copytree("/repo/src", os.path.join(d, "src"), ignore=shutil.ignore_patterns("*.so", "*.c", "__pycache__"))
        rc, out = sh(["patch", "-p1", "-s", "-d", d, "-i", os.path.join(seed, "patch.diff")])
        if rc != 0:
            return {"applied": False, "why": out[:300]}
        res = {}
        for p in (pids or [pid]):
            rc, out = sh([PY, os.path.join(HERE, "check"), p, "--repo", d], cwd=HERE, env={**os.environ, "VERIF_NO_EVIDENCE": "1"})
            lines = [l for l in out.splitlines() if "VIOLATION" not in l and l.startswith("src/")]
            res[p] = {"exit": rc, "first": (lines[0][:900] if lines else out.strip().splitlines()[-1][:900] if out.strip() else "")}
        return {"applied": True, "property": pid, "results": res}
    finally:
        shutil.rmtree(d, ignore_errors=True)


def main():
    cmd = sys.argv[1]
    if cmd == "verify":
        print(json.dumps(verify(sys.argv[2], sys.argv[3]), indent=1))
    elif cmd == "detect":
        allp = [f"C{i:02d}" for i in range(1, 21)] if "--all" in sys.argv else None
        print(json.dumps(detect(sys.argv[2], allp), indent=1))
    elif cmd == "all":
        root = os.path.join(HERE, "seeded")
        rows = []
        for name in sorted(os.listdir(root)):
            sd = os.path.join(root, name)
            if not os.path.exists(os.path.join(sd, "patch.diff")):
                continue
            r = detect(sd)
            pid = r.get("property")
            ex = r["results"][pid]["exit"] if r.get("applied") else "patch-failed"
            rows.append((name, ex, r["results"][pid]["first"] if r.get("applied") else r.get("why")))
            print(f"{name}: exit={ex}  {rows[-1][2][:160]}")
        caught = sum(1 for r in rows if r[1] == 1)
        print(f"caught {caught} / {len(rows)}")


if __name__ == "__main__":
    main()
