#!/venv/bin/python
"""Minimal variants of the seeded breakages (audit/minimal/<id>[.tag].diff, written by the seed-target auditors): the same bug without
the incidental restructuring must still be reported (exit 1), and the restructuring without the bug (`*harmless*`) must be silent.

usage: tools/minimaleval.py [name-prefix ...]
Maintenance tool, never part of a verdict."""
import concurrent.futures as cf
import os
import shutil
import subprocess
import sys
import tempfile

HERE = os.path.dirname(os.path.dirname(os.path.abspath(__file__)))
ROOT = os.path.join(HERE, "audit", "minimal")


def run_one(name):
    pid = name.split("-")[0]
    d = tempfile.mkdtemp(prefix="verif-min-", dir="/dev/shm")
    try:
        shutil.copytree("/repo/src", os.path.join(d, "src"), ignore=shutil.ignore_patterns("*.so", "*.c", "__pycache__", "tests"))
        pr = subprocess.run(["patch", "-p1", "-s", "-d", d, "-i", os.path.join(ROOT, name)], capture_output=True, text=True)
        if pr.returncode != 0:
            return name, "does-not-apply", (pr.stdout + pr.stderr)[:200]
        r = subprocess.run(["/venv/bin/python", os.path.join(HERE, "check"), pid, "--repo", d], capture_output=True, text=True, cwd=HERE,
                           env={**os.environ, "VERIF_NO_EVIDENCE": "1"})
        lines = [l for l in (r.stdout + r.stderr).splitlines() if l.startswith(("src/", "ANALYSIS-ERROR"))]
        return name, r.returncode, (lines[0][:260] if lines else "")
    finally:
        shutil.rmtree(d, ignore_errors=True)


def main():
    names = sorted(n for n in os.listdir(ROOT) if n.endswith(".diff") and (not sys.argv[1:] or n.startswith(tuple(sys.argv[1:]))))
    with cf.ThreadPoolExecutor(12) as ex:
        res = list(ex.map(run_one, names))
    bad = 0
    for name, rc, line in res:
        harmless = "harmless" in name
        want = 0 if harmless else 1
        ok = rc == want
        bad += not ok
        print(f"{'ok  ' if ok else 'BAD '} {name:48s} exit={rc} (want {want})  {line}")
    print(f"{len(res) - bad} / {len(res)} as wanted")


main()
