#!/venv/bin/python
"""Regenerate /verif/MANIFEST.json from the table below (maintenance helper, not a check)."""
import json
import os

HERE = os.path.dirname(os.path.dirname(os.path.abspath(__file__)))

# property id -> (technique, level text, level note)
CLAIMED = {
    "C17": (
        "AST table model + key/normaliser fixpoints + guard-dominance (interval facts) + order abstraction",
        "clause-level static decision on core/element.py: the 103 table rows against an embedded reference, dictionary "
        "keys as fixed points of the extracted string normalisers for all letter cases, range-guard dominance of every "
        "minus-one table subscript (with a constructor invariant for atomic_number), dispatch totality, label regex "
        "structure, the ordering over all weak orderings of (n1, n2, 6), formula counting. Nearly the whole property "
        "is structural, so this is close to a full decision.",
        "decides T17.1, R17.2-R17.7 on the current source; radii/mass values are 'as tabulated' (positivity only); "
        "str methods are evaluated by the checker on table keys, chmpy code is never executed",
    ),
    "C16": (
        "writer/reader layout agreement: f-string format-spec column maps vs reader field tables vs embedded V2000 reference; symbolic slice offsets; loop-bound dominance",
        "clause-level static decision on the XYZ/SDF writers and readers: axis/column agreement of x,y,z, the column map "
        "of the three SDF line writers against the reader's tables and the V2000 reference, section order and line "
        "offsets, absence of blank sections, boundedness of index-advance loops, XYZ token order and blank-tolerant "
        "split, dispatch maps. The property is mostly a layout statement, which is decided; numeric rounding is not.",
        "decides R16.1-R16.5 on the current source; assumes values fit their fixed-width fields; coordinates 'to the "
        "precision of the format' and bond perception are not decided",
    ),
    "C07": (
        "symbolic array-update summaries of kernels (running counters closed by exact summation), polynomial index identities, sibling-kernel equivalence, analysis/synthesis duality",
        "clause-level static decision on sht.py, _sht.pyx, assoc_legendre.py: index layouts, one packed traversal order for "
        "the producer and all consumers, compiled kernels = pure-Python references update by update, transfer-tuple duality "
        "of analysis and synthesis, orthonormal recurrence coefficients, coefficient expansion, FFT/quadrature plumbing. "
        "This covers the algebraic structure that makes the transform exact; numerics are not decided.",
        "decides R07.1-R07.7 on the current .py and .pyx sources (the compiled .so may lag the .pyx: Cython is absent); the "
        "nphi rounding loop, Gauss-Legendre nodes/weights and floating-point exactness are not decided",
    ),
    "C08": (
        "polynomial normal form of slice bounds and coefficient indices; exact factorial table check; bound propagation to table length",
        "clause-level static decision: degree blocks [l^2,(l+1)^2) tile the coefficient vector in make_N_invariants and the "
        "power spectrum, real-layout pattern/weights, P-invariant index plumbing (clebsch arguments vs coefficient indices, "
        "loop order, triangle test, parity split), block-boundary cap, exact factorial table and its reachable index range.",
        "decides R08.1-R08.3 on the current source; rotation invariance as a numerical fact and the Racah formula are not decided",
    ),
    "C01": (
        "symbolic slice polynomials and index chains: block layout of the orbit buffers, column alignment under one mask, wrap-before-merge data flow, merge-guard strictness, producer/consumer key agreement",
        "clause-level static decision on SpaceGroup.apply_all_symops and Crystal.unit_cell_atoms: the orbit is enumerated (every "
        "operation once, identity first), wrapped into [0,1), merged and labelled with aligned bookkeeping, and every consumer key "
        "exists. Not 'the output equals the orbit': which images coincide is a run-time KD-tree fact.",
        "decides R01.1-R01.5; inherits C02 (the operation list is the group) and C11 (decode/apply); KD-tree distances, the merge "
        "tolerance and float wrap at x = -K are not decided",
    ),
    "C02": (
        "exhaustive exact table model (integers mod 12) of all 530 settings + semantics of LATT/SYMM extracted from the code and turned into table obligations",
        "exhaustive over the bundled table: identity, closure under composition and inversion, flag agreement, lookup-key ordering, "
        "centring soundness for every row; the LATT sign predicate, the coset coverage of the reduction and constructor selection "
        "are decided on the code. Nearly the whole property is decided (finite domain).",
        "decides T02.1-T02.5, R02.1, R02.3-R02.5; assumes decode_symm_int implements the model's packing (decided by C11 R11.1)",
    ),
    "C03": (
        "extent/centre splitting of ceil/floor arguments in rational normal form + lattice-length-kind and coordinate-space tags; slice polynomials of slab blocks",
        "clause-level static decision on the seven radius-to-cell-range sites and slab(): the half-extent is radius x reciprocal "
        "length, rounding and accumulation include every cell the ball can reach, operands live in the right coordinate space, slab "
        "columns are aligned, the centre's own atoms are excluded with one keep index. Completeness of the cell range is decided; "
        "the KD-tree query itself is not.",
        "decides R03.1-R03.5; KD-tree ball queries, tolerance edge cases and tightness of ceil are not decided",
    ),
    "C04": (
        "writer/reader agreement of the periodic edge convention, index-chain alignment (G5), wrap idioms, guard dominance for length-safe comparison",
        "clause-level static decision on unit_cell_connectivity / unit_cell_molecules / symmetry_unique_molecules: edge keys and "
        "shift signs agree between writer and breadth-first reader, all per-atom arrays of a molecule share one index chain, "
        "recentring orientation, partition by component labels, length-safe comparison, one symmetric bonding predicate.",
        "decides R04.1-R04.6; the greedy choice of unique molecules, Z' x |G| and geometry are not decided",
    ),
    "C11": (
        "literal-loop unrolling of the integer codec into a linear form compared with an independent exact model; digit-radix reduction rule from the closed interval of x % 1; matrix word algebra for the three apply forms; regex AST structure",
        "clause-level static decision on symmetry_operation.py and Crystal.cartesian_symmetry_operations: codec weights/offsets, "
        "digit reduction, construction-time wrapping, one equality key, memo seeding, the three application forms as one affine "
        "map, string codec structure.",
        "decides R11.1-R11.7; the grammar of accepted spellings and the enumeration of all 34,012,224 codes are executions and are not decided",
    ),
    "C14": (
        "effect analysis: per-method may-write sets on self-state through aliases, property accessors, typed attributes and callees; memo inventory; all-paths-after invalidation; read sets",
        "clause-level static decision on class Crystal: every method that may change cell, space group or asymmetric unit drops "
        "every memo afterwards and the exported CIF refreshes all state-derived items; every other method is pure on the state and "
        "on memoised payloads; memoised values depend only on the state. Nearly the whole property is structural.",
        "decides R14.1-R14.5; aliasing through objects the caller keeps and argument-dependent memo staleness (excluded by the property) are not decided",
    ),
    "C15": (
        "line-classifier prefix agreement (dispatcher vs loop terminator), guard dominance of the full-match test, regex ASTs via re._parser (never executed), writer template structure",
        "clause-level static decision on fmt/cif.py: structural prefixes, full-match number recognition, one quoting predicate "
        "whose delimiter the tokenizer and parse_value know, loop emission pairing, number formats within the reader's language.",
        "decides R15.1-R15.5; arbitrary strings (tabs, nested quotes, runs of blanks) and semicolon text blocks are not decided",
    ),
}

PENDING_REASON = "check under construction (DESIGN.md section 5); not yet claimed"


def main():
    ids = [json.loads(l)["id"] for l in open(os.path.join(HERE, "properties.jsonl"))]
    checks = []
    for pid in ids:
        if pid not in CLAIMED:
            continue
        tech, text, note = CLAIMED[pid]
        checks.append({
            "property_id": pid,
            "quick_cmd": f"/venv/bin/python /verif/check {pid} --tier quick",
            "thorough_cmd": f"/venv/bin/python /verif/check {pid} --tier thorough",
            "evidence_file": f"/verif/evidence/{pid}.json",
            "replay_cmd_template": f"/venv/bin/python /verif/check {pid} --replay {{path}}",
            "engine": "sa",
            "technique": "static analysis: " + tech,
            "level_claimed": {"category": "other", "text": text, "design_ref": f"DESIGN.md section 5 {pid}"},
            "level_note": note,
        })
    m = {
        "version": 1,
        "setup_cmd": "/venv/bin/python -m compileall -q /verif/sa",
        "hooks": {"guard": "PETERSPACKMAN_CHMPY_VERIF",
                  "enable": "none: static analysis reads the sources; no instrumentation is needed, the guard is unused",
                  "baseline_off_cmd": "cd /repo && /venv/bin/python -m pytest -ra -q -p no:cacheprovider --timeout=900 --continue-on-collection-errors",
                  "source_commits": [], "add_only": True},
        "engines": [{"name": "sa", "path": "/verif/sa", "serves_properties": ids,
                     "kind_free_text": "repository-specific static analysis: symbolic evaluation of function bodies into "
                                       "normal-form terms (sa/symex.py, sa/poly.py), guard dominance, exact table models"}],
        "checks": checks,
        "notes": "All checks decide clauses of the properties from the source under /repo without importing or running "
                 "chmpy. Exit 2 + ANALYSIS-ERROR means the analysis could not be carried out (vanished anchor, "
                 "unrecognised idiom at an enumerated site).",
        "not_applicable": [{"property_id": i, "reason": PENDING_REASON} for i in ids if i not in CLAIMED],
    }
    with open(os.path.join(HERE, "MANIFEST.json"), "w") as f:
        json.dump(m, f, indent=1)
    print(f"claimed {len(checks)} / {len(ids)}")


if __name__ == "__main__":
    main()
