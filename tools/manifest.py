#!/venv/bin/python
"""Regenerate /verif/MANIFEST.json from the table below (maintenance helper, not a check)."""
import json
import os

HERE = os.path.dirname(os.path.dirname(os.path.abspath(__file__)))

# property id -> (technique, level text, level note)
CLAIMED = {
    "C17": (
        "AST table model + key/normaliser fixpoints + guard-dominance (interval facts) + order abstraction",
        "clause-level static decision on core/element.py: the 103 table rows against an embedded reference, dictionary "
        "keys as fixed points of the extracted string normalisers for all letter cases, range-guard dominance of every "
        "minus-one table subscript (with a constructor invariant for atomic_number), dispatch totality, label regex "
        "structure, the ordering over all weak orderings of (n1, n2, 6), formula counting. Nearly the whole property "
        "is structural, so this is close to a full decision.",
        "decides T17.1, R17.2-R17.7 on the current source; radii/mass values are 'as tabulated' (positivity only); "
        "str methods are evaluated by the checker on table keys, chmpy code is never executed",
    ),
    "C16": (
        "writer/reader layout agreement: f-string format-spec column maps vs reader field tables vs embedded V2000 reference; symbolic slice offsets; loop-bound dominance",
        "clause-level static decision on the XYZ/SDF writers and readers: axis/column agreement of x,y,z, the column map "
        "of the three SDF line writers against the reader's tables and the V2000 reference, section order and line "
        "offsets, absence of blank sections, boundedness of index-advance loops, XYZ token order and blank-tolerant "
        "split, dispatch maps. The property is mostly a layout statement, which is decided; numeric rounding is not.",
        "decides R16.1-R16.5 on the current source; assumes values fit their fixed-width fields; coordinates 'to the "
        "precision of the format' and bond perception are not decided",
    ),
    "C07": (
        "symbolic array-update summaries of kernels (running counters closed by exact summation), polynomial index identities, sibling-kernel equivalence, analysis/synthesis duality",
        "clause-level static decision on sht.py, _sht.pyx, assoc_legendre.py: index layouts, one packed traversal order for "
        "the producer and all consumers, compiled kernels = pure-Python references update by update, transfer-tuple duality "
        "of analysis and synthesis, orthonormal recurrence coefficients, coefficient expansion, FFT/quadrature plumbing. "
        "This covers the algebraic structure that makes the transform exact; numerics are not decided.",
        "decides R07.1-R07.7 on the current .py and .pyx sources (the compiled .so may lag the .pyx: Cython is absent); the "
        "nphi rounding loop, Gauss-Legendre nodes/weights and floating-point exactness are not decided",
    ),
    "C08": (
        "polynomial normal form of slice bounds and coefficient indices; exact factorial table check; bound propagation to table length",
        "clause-level static decision: degree blocks [l^2,(l+1)^2) tile the coefficient vector in make_N_invariants and the "
        "power spectrum, real-layout pattern/weights, P-invariant index plumbing (clebsch arguments vs coefficient indices, "
        "loop order, triangle test, parity split), block-boundary cap, exact factorial table and its reachable index range.",
        "decides R08.1-R08.3 on the current source; rotation invariance as a numerical fact and the Racah formula are not decided",
    ),
}

PENDING_REASON = "check under construction (DESIGN.md section 5); not yet claimed"


def main():
    ids = [json.loads(l)["id"] for l in open(os.path.join(HERE, "properties.jsonl"))]
    checks = []
    for pid in ids:
        if pid not in CLAIMED:
            continue
        tech, text, note = CLAIMED[pid]
        checks.append({
            "property_id": pid,
            "quick_cmd": f"/venv/bin/python /verif/check {pid} --tier quick",
            "thorough_cmd": f"/venv/bin/python /verif/check {pid} --tier thorough",
            "evidence_file": f"/verif/evidence/{pid}.json",
            "replay_cmd_template": f"/venv/bin/python /verif/check {pid} --replay {{path}}",
            "engine": "sa",
            "technique": "static analysis: " + tech,
            "level_claimed": {"category": "other", "text": text, "design_ref": f"DESIGN.md section 5 {pid}"},
            "level_note": note,
        })
    m = {
        "version": 1,
        "setup_cmd": "/venv/bin/python -m compileall -q /verif/sa",
        "hooks": {"guard": "PETERSPACKMAN_CHMPY_VERIF",
                  "enable": "none: static analysis reads the sources; no instrumentation is needed, the guard is unused",
                  "baseline_off_cmd": "cd /repo && /venv/bin/python -m pytest -ra -q -p no:cacheprovider --timeout=900 --continue-on-collection-errors",
                  "source_commits": [], "add_only": True},
        "engines": [{"name": "sa", "path": "/verif/sa", "serves_properties": ids,
                     "kind_free_text": "repository-specific static analysis: symbolic evaluation of function bodies into "
                                       "normal-form terms (sa/symex.py, sa/poly.py), guard dominance, exact table models"}],
        "checks": checks,
        "notes": "All checks decide clauses of the properties from the source under /repo without importing or running "
                 "chmpy. Exit 2 + ANALYSIS-ERROR means the analysis could not be carried out (vanished anchor, "
                 "unrecognised idiom at an enumerated site).",
        "not_applicable": [{"property_id": i, "reason": PENDING_REASON} for i in ids if i not in CLAIMED],
    }
    with open(os.path.join(HERE, "MANIFEST.json"), "w") as f:
        json.dump(m, f, indent=1)
    print(f"claimed {len(checks)} / {len(ids)}")


if __name__ == "__main__":
    main()
