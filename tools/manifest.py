#!/venv/bin/python
"""Regenerate /verif/MANIFEST.json from the table below (maintenance helper, not a check)."""
import json
import os

HERE = os.path.dirname(os.path.dirname(os.path.abspath(__file__)))

# property id -> (technique, level text, level note)
CLAIMED = {
    "C17": (
        "AST table model + key/normaliser fixpoints + guard-dominance (interval facts) + order abstraction",
        "clause-level static decision on core/element.py: the 103 table rows against an embedded reference, dictionary "
        "keys as fixed points of the extracted string normalisers for all letter cases, range-guard dominance of every "
        "minus-one table subscript (with a constructor invariant for atomic_number), dispatch totality, label regex "
        "structure, the ordering over all weak orderings of (n1, n2, 6), formula counting. Nearly the whole property "
        "is structural, so this is close to a full decision.",
        "decides T17.1, R17.2-R17.7 on the current source; radii/mass values are 'as tabulated' (positivity only); "
        "str methods are evaluated by the checker on table keys, chmpy code is never executed",
    ),
    "C16": (
        "writer/reader layout agreement: f-string format-spec column maps vs reader field tables vs embedded V2000 reference; symbolic slice offsets; loop-bound dominance",
        "clause-level static decision on the XYZ/SDF writers and readers: axis/column agreement of x,y,z, the column map "
        "of the three SDF line writers against the reader's tables and the V2000 reference, section order and line "
        "offsets, absence of blank sections, boundedness of index-advance loops, XYZ token order and blank-tolerant "
        "split, dispatch maps. The property is mostly a layout statement, which is decided; numeric rounding is not.",
        "decides R16.1-R16.5 on the current source; assumes values fit their fixed-width fields; coordinates 'to the "
        "precision of the format' and bond perception are not decided",
    ),
    "C07": (
        "symbolic array-update summaries of kernels (running counters closed by exact summation), polynomial index identities, sibling-kernel equivalence, analysis/synthesis duality",
        "clause-level static decision on sht.py, _sht.pyx, assoc_legendre.py: index layouts, one packed traversal order for "
        "the producer and all consumers, compiled kernels = pure-Python references update by update, transfer-tuple duality "
        "of analysis and synthesis, orthonormal recurrence coefficients, coefficient expansion, FFT/quadrature plumbing. "
        "This covers the algebraic structure that makes the transform exact; numerics are not decided.",
        "decides R07.1-R07.7 on the current .py and .pyx sources (the compiled .so may lag the .pyx: Cython is absent); the "
        "nphi rounding loop, Gauss-Legendre nodes/weights and floating-point exactness are not decided",
    ),
    "C08": (
        "polynomial normal form of slice bounds and coefficient indices; exact factorial table check; bound propagation to table length",
        "clause-level static decision: degree blocks [l^2,(l+1)^2) tile the coefficient vector in make_N_invariants and the "
        "power spectrum, real-layout pattern/weights, P-invariant index plumbing (clebsch arguments vs coefficient indices, "
        "loop order, triangle test, parity split), the Clebsch-Gordan routine compared term by term with the Racah formula of its reference "
        "(C integer division kept), the bilinear form of the P invariants, block-boundary cap, exact factorial table and its reachable index range.",
        "decides R08.1-R08.3 on the current source; rotation invariance as a numerical fact is not decided, the Racah formula itself is taken from the reference",
    ),
    "C01": (
        "symbolic slice polynomials and index chains: block layout of the orbit buffers, column alignment under one mask, wrap-before-merge data flow, merge-guard strictness, producer/consumer key agreement",
        "clause-level static decision on SpaceGroup.apply_all_symops and Crystal.unit_cell_atoms: the orbit is enumerated (every "
        "operation once, identity first), wrapped into [0,1), merged and labelled with aligned bookkeeping, and every consumer key "
        "exists. Not 'the output equals the orbit': which images coincide is a run-time KD-tree fact.",
        "decides R01.1-R01.5; inherits C02 (the operation list is the group) and C11 (decode/apply); KD-tree distances, the merge "
        "unit of the merge tolerance (open finding) are not decided",
    ),
    "C02": (
        "exhaustive exact table model (integers mod 12) of all 530 settings + semantics of LATT/SYMM extracted from the code and turned into table obligations",
        "exhaustive over the bundled table: identity, closure under composition and inversion, flag agreement, lookup-key ordering, "
        "centring soundness for every row; the LATT sign predicate, the coset coverage of the reduction and constructor selection "
        "are decided on the code. Nearly the whole property is decided (finite domain).",
        "decides T02.1-T02.5, R02.1, R02.3-R02.5; assumes decode_symm_int implements the model's packing (decided by C11 R11.1)",
    ),
    "C03": (
        "extent/centre splitting of ceil/floor arguments in rational normal form + lattice-length-kind and coordinate-space tags; slice polynomials of slab blocks",
        "clause-level static decision on the seven radius-to-cell-range sites and slab(): the half-extent is radius x reciprocal "
        "length, rounding and accumulation include every cell the ball can reach, operands live in the right coordinate space, slab "
        "columns are aligned, the centre's own atoms are excluded with one keep index. Completeness of the cell range is decided; "
        "the KD-tree query itself is not.",
        "decides R03.1-R03.5; KD-tree ball queries, tolerance edge cases and tightness of ceil are not decided",
    ),
    "C04": (
        "writer/reader agreement of the periodic edge convention, index-chain alignment (G5), wrap idioms, guard dominance for length-safe comparison",
        "clause-level static decision on unit_cell_connectivity / unit_cell_molecules / symmetry_unique_molecules: edge keys and "
        "shift signs agree between writer and breadth-first reader, all per-atom arrays of a molecule share one index chain, "
        "recentring orientation, partition by component labels, length-safe comparison, one symmetric bonding predicate.",
        "decides R04.1-R04.6; the greedy choice of unique molecules, Z' x |G| and geometry are not decided",
    ),
    "C11": (
        "literal-loop unrolling of the integer codec into a linear form compared with an independent exact model; digit-radix reduction rule from the closed interval of x % 1; matrix word algebra for the three apply forms; regex AST structure",
        "clause-level static decision on symmetry_operation.py and Crystal.cartesian_symmetry_operations: codec weights/offsets, "
        "digit reduction, construction-time wrapping, one equality key, memo seeding, the three application forms as one affine "
        "map, string codec structure.",
        "decides R11.1-R11.7; the grammar of accepted spellings and the enumeration of all 34,012,224 codes are executions and are not decided",
    ),
    "C14": (
        "effect analysis: per-method may-write sets on self-state through aliases, property accessors, typed attributes and callees; memo inventory; all-paths-after invalidation; read sets",
        "clause-level static decision on class Crystal: every method that may change cell, space group or asymmetric unit drops "
        "every memo afterwards and the exported CIF refreshes all state-derived items; every other method is pure on the state and "
        "on memoised payloads; memoised values depend only on the state. Nearly the whole property is structural.",
        "decides R14.1-R14.5; aliasing through objects the caller keeps and argument-dependent memo staleness (excluded by the property) are not decided",
    ),
    "C15": (
        "line-classifier prefix agreement (dispatcher vs loop terminator), guard dominance of the full-match test, regex ASTs via re._parser (never executed), writer template structure",
        "clause-level static decision on fmt/cif.py: structural prefixes, full-match number recognition, one quoting predicate "
        "whose delimiter the tokenizer and parse_value know, loop emission pairing, number formats within the reader's language.",
        "decides R15.1-R15.5; arbitrary strings (tabs, nested quotes, runs of blanks) and semicolon text blocks are not decided",
    ),
    "C05": (
        "rational normal forms of the weight and the interpolation kernels with guard signatures, sibling-kernel comparison, squared-distance form extraction, guard dominance for the table row; thorough: table scan",
        "clause-level static decision on density.py and _density.pyx: table binding under a range guard, weight = a/(a+b+bg) in both "
        "paths, interpolation as a convex combination of neighbouring entries (batch = single up to one named difference), positions "
        "entering only through |p - a|^2 / bohr^2 with one constant, additive accumulation. Structure yes, numerics no.",
        "decides R05.1-R05.5 (+T05 table scan in the thorough tier); float32 rounding and agreement with tabulated densities are not "
        "decided; accepted named difference: interp_f_one ufill = 0.0",
    ),
    "C06": (
        "import resolution without importing (stubs/sources of installed distributions), registry agreement for 51 tables, exhaustive exact check of all tilings over 256 cube indices with geometry extracted from the code, transformation-step classification",
        "clause-level static decision: the surface wrappers can import what they use; LutProvider wiring; every add_triangles call agrees "
        "with its table; every tiling selectable for each cube index uses straddling edges only, is edge-manifold inside the cube and "
        "leaves one consistently oriented matching on every face; axis permutations / winding / origin shift; bounding box; wrapper "
        "plumbing. Local closedness and plumbing are decided, global closedness is not.",
        "decides R06.1-R06.3, T06.4, R06.5-R06.7; agreement of neighbouring cells on ambiguous faces (run-time test_face), shared-vertex "
        "layers, convergence of volume / isovalue and enclosure of atoms are not decided",
    ),
    "C09": (
        "guard dominance of the error check, sibling call-argument agreement, translation-behaviour tags (equivariant / invariant), value-kind tags, sibling event-trace equality of the two root finders",
        "clause-level static decision: a missing surface is an error before the transform, the property channel uses the radii's "
        "origin, origins move with the atoms and bounds do not, element lookups that size the bounds get atomic numbers, the two "
        "Brent root finders are the same algorithm. Translation / permutation structure is decided, rotation is not.",
        "decides R09.1-R09.4; inherits C05 R05.4; rotation independence (C08 + discretisation) and convergence of Brent's iteration are not decided",
    ),
    "C10": (
        "writer/reader agreement of dictionaries, token positions and section order (G8/G9), axis and unit tags (G1/G6), format-spec precision",
        "clause-level static decision on the CIF / SHELX / POSCAR writers and readers and the dispatch maps: keys, axis-to-column "
        "binding, units, token positions, SFAC pairing and order, POSCAR line indices and permutation, extension normalisation, "
        "decimals. Layout is decided, numeric precision beyond the format width is not.",
        "decides R10.1-R10.5; LATT/SYMM soundness is C02, CIF text is C15, operation strings are C11; the SHELX writer carries no occupancies",
    ),
    "C12": (
        "exact polynomial identities modulo sin^2+cos^2=1 and sqrt(x)^2=x over the matrix literals of set_lengths_and_angles; axis-name/index agreement; angle-unit tags at all construction sites",
        "clause-level static decision on unit_cell.py: direct.inverse = I, det = V, row norms/dots, starred lengths and angles against "
        "the inverse's columns are *proved* as identities; accessor names vs indices; units at 10 call sites; transform words. Closed "
        "forms are decided for all parameter values, conditioning is not.",
        "decides R12.1-R12.5; arccos clipping, the snapping tolerance of `parameters` and floating-point conditioning are not decided",
    ),
    "C13": (
        "exact rational matrix algebra on the basis-change literals, exact conjugation of the R-lattice groups of the table, statement-ordering check, coordinate-space / unit tags of the supercell builders",
        "clause-level static decision: the two trigonal matrices are exact mutual inverses agreeing across modules, the H->R matrix maps "
        "the hexagonal rows of the seven R-lattice groups exactly onto their rhombohedral rows, the switch reads Cartesian positions "
        "under the old cell and writes fractional ones under the new, supercells use the new cell and every translated molecule.",
        "decides R13.1, T13.2, R13.3-R13.5; coincidence of atoms between descriptions (geometry) is not decided; staleness after the switch is C14",
    ),
    "C18": (
        "determinant-sign typestate through the function, matrix word algebra",
        "clause-level static decision on util/num.py: on every path to R = v.w the sign of det(v)det(w) is positive (tested product, "
        "single negation of the last column/row), cov = A^T B, application A.R, RMSD helper and dimer plumbing. The proper-rotation "
        "clause is decided, optimality is not.",
        "decides R18.1-R18.3; optimality (SVD numerics) and planar/collinear degeneracy are not decided",
    ),
    "C19": (
        "homogeneity-degree propagation through attribute stores, dual-point plumbing, orientation-parity structure",
        "clause-level static decision on crystal/wulff.py: vertices are homogeneous of degree 1 in the energies, each vertex uses a "
        "normal and energy of its own simplex, facet membership, in-plane basis / atan2 ordering / fan triangulation. Scaling and "
        "plumbing are decided, the geometry of the hull is not.",
        "decides R19.1-R19.3; which simplices the hull has, degeneracies and volume are not decided; the absolute pruning threshold is the recorded exception to homogeneity",
    ),
    "C20": (
        "sibling-kernel update summaries, affine index agreement, C-type range facts from the pyx side table, effect scan, exhaustive table conditions over GF(2)",
        "clause-level static decision on sampling/: batch and single kernels perform identical recurrences and read the same X entries, "
        "coordinates are uint32/2^32 or % 1, no global/random state, every used row of the Joe-Kuo table has odd m_k < 2^k (quick: "
        "rows 2..1000, thorough: all 21200), front-end windows. Agreement, range and determinism are decided, the net property partly.",
        "decides R20.1-R20.6, T20.4; the (0,m,2)-net property, C[i] <= L and float rounding of ceil(log N/log 2) are not decided",
    ),
}

PENDING_REASON = "check under construction (DESIGN.md section 5); not yet claimed"


def main():
    ids = [json.loads(l)["id"] for l in open(os.path.join(HERE, "properties.jsonl"))]
    checks = []
    for pid in ids:
        if pid not in CLAIMED:
            continue
        tech, text, note = CLAIMED[pid]
        checks.append({
            "property_id": pid,
            "quick_cmd": f"/venv/bin/python /verif/check {pid} --tier quick",
            "thorough_cmd": f"/venv/bin/python /verif/check {pid} --tier thorough",
            "evidence_file": f"/verif/evidence/{pid}.json",
            "replay_cmd_template": f"/venv/bin/python /verif/check {pid} --replay {{path}}",
            "engine": "sa",
            "technique": "static analysis: " + tech,
            "level_claimed": {"category": "other", "text": text, "design_ref": f"DESIGN.md section 5 {pid} and section 9.2"},
            "level_note": note + " | Rules added during the build (DESIGN.md 9.2), the generic cache rule R" + pid[1:] +
                          ".9 and inherited rules of other properties are part of this check; open known findings of this property are "
                          "listed in known_findings.json and printed as KNOWN-FINDING lines (exit 0).",
        })
    m = {
        "version": 1,
        "setup_cmd": "/venv/bin/python -m compileall -q /verif/sa",
        "hooks": {"guard": "PETERSPACKMAN_CHMPY_VERIF",
                  "enable": "none: static analysis reads the sources; no instrumentation is needed, the guard is unused",
                  "baseline_off_cmd": "cd /repo && /venv/bin/python -m pytest -ra -q -p no:cacheprovider --timeout=900 --continue-on-collection-errors",
                  "source_commits": [], "add_only": True},
        "engines": [{"name": "sa", "path": "/verif/sa", "serves_properties": ids,
                     "kind_free_text": "repository-specific static analysis: symbolic evaluation of function bodies into "
                                       "normal-form terms (sa/symex.py, sa/poly.py), guard dominance, exact table models"}],
        "checks": checks,
        "notes": "All checks decide clauses of the properties from the source under /repo without importing or running "
                 "chmpy. Exit 2 + ANALYSIS-ERROR means the analysis could not be carried out (vanished anchor, "
                 "unrecognised idiom at an enumerated site). Genuine defects found on the pinned tree were repaired in /repo by 'fix:' commits "
                 "(D1-D40, known_findings.json 'fixed' records) or are listed there as open findings with the construct that fails.",
        "not_applicable": [{"property_id": i, "reason": PENDING_REASON} for i in ids if i not in CLAIMED],
    }
    with open(os.path.join(HERE, "MANIFEST.json"), "w") as f:
        json.dump(m, f, indent=1)
    print(f"claimed {len(checks)} / {len(ids)}")


if __name__ == "__main__":
    main()
