#!/bin/bash
# usage: tools/seedbatch.sh C12 C15 ...   -> verify + detect every seed of those worktrees
for id in "$@"; do
  for k in 1 2 3; do
    sd=/tmp/wt_$id/seed/$k
    [ -f $sd/patch.diff ] || continue
    v=$(/venv/bin/python /verif/tools/seedeval.py verify $sd /tmp/wt_$id | /venv/bin/python -c "import json,sys; d=json.load(sys.stdin); print('VERIFIED' if d['ok'] else 'UNVERIFIED '+json.dumps(d)[:200])")
    d=$(/venv/bin/python /verif/tools/seedeval.py detect $sd | /venv/bin/python -c "import json,sys; d=json.load(sys.stdin); r=d['results'][d['property']] if d.get('applied') else d; print(r.get('exit','?'), (r.get('first') or r.get('why',''))[:230])")
    echo "$id/$k $v | check: $d"
  done
done
