#!/venv/bin/python
"""Exit mutants: a shortcut return placed in front of the body of every function that carries an obligation and returns a value.

usage: tools/mutexits.py Cxx [Cyy ...] [--jobs N]
    For each obligation-site function (evidence coverage.obligation_sites, own rules only) with at least one `return <value>`, the
    mutant inserts `if len(<p>) == 1: return <p>` (p = first parameter after self/cls, or self) before the first statement.  The check
    should report it: by an obligation that quantifies over every exit, or by the generic rule R<nn>.19 (sa/rules/exits.py).  Silent
    mutants are functions whose returned value no rule reads (mutators, procedures) -- or a rule that looks at the last exit only.
    Writes audit/mutants/<Cxx>.exits.json.  Maintenance tool, never part of a verdict.
"""
import argparse
import ast
import concurrent.futures as cf
import json
import os
import shutil
import subprocess
import sys
import tempfile

HERE = os.path.dirname(os.path.dirname(os.path.abspath(__file__)))
SRC = "/repo/src/chmpy"


def functions_of(pid):
    ev = json.load(open(os.path.join(HERE, "evidence", f"{pid}.json")))
    generic = {f"R{pid[1:]}.{k}" for k in (9, 12, 13, 18, 19, 20)}
    out = {}
    for s, rules in ev["coverage"].get("obligation_sites", {}).items():
        if not (set(rules) - generic):
            continue
        rel, _, qual = s.partition(":")
        rel = rel[len("src/chmpy/"):] if rel.startswith("src/chmpy/") else rel
        if rel.endswith(".py") and qual and not qual.startswith("<"):
            out.setdefault(rel, set()).add(qual)
    return out


def find_fn(tree, qual):
    body, node = tree.body, None
    for p in qual.split("."):
        node = next((x for x in body if isinstance(x, (ast.FunctionDef, ast.ClassDef, ast.AsyncFunctionDef)) and x.name == p), None)
        if node is None:
            return None
        body = node.body
    return node


def own_returns(fn):
    out = []
    stack = list(fn.body)
    while stack:
        n = stack.pop()
        if isinstance(n, (ast.FunctionDef, ast.AsyncFunctionDef, ast.ClassDef, ast.Lambda)):
            continue
        if isinstance(n, ast.Return) and n.value is not None and not (isinstance(n.value, ast.Constant) and n.value.value is None):
            out.append(n)
        stack.extend(ast.iter_child_nodes(n))
    return out


def mutant(text, fn):
    body = [s for s in fn.body]
    if body and isinstance(body[0], ast.Expr) and isinstance(body[0].value, ast.Constant) and isinstance(body[0].value.value, str):
        body = body[1:]
    if not body:
        return None
    first = body[0]
    names = [a.arg for a in fn.args.posonlyargs + fn.args.args]
    p = next((n for n in names if n not in ("self", "cls")), names[0] if names else None)
    if p is None:
        return None
    ind = " " * first.col_offset
    lines = text.split("\n")
    at = min([first.lineno] + [d.lineno for d in getattr(first, "decorator_list", [])]) - 1
    return "\n".join(lines[:at] + [f"{ind}if len({p}) == 1:", f"{ind}    return {p}"] + lines[at:]), p


def run_mutant(job):
    pid, rel, qual, p, new_text = job
    d = tempfile.mkdtemp(prefix="verif-mutexit-", dir="/dev/shm")
    try:
        shutil.copytree("/repo/src", os.path.join(d, "src"), ignore=shutil.ignore_patterns("*.so", "*.c", "__pycache__", "tests"))
        open(os.path.join(d, "src", "chmpy", rel), "w").write(new_text)
        r = subprocess.run(["/venv/bin/python", os.path.join(HERE, "check"), pid, "--repo", d], capture_output=True, text=True, cwd=HERE,
                           env={**os.environ, "VERIF_NO_EVIDENCE": "1"})
        lines = [l for l in (r.stdout + r.stderr).splitlines() if l.startswith(("src/", "ANALYSIS-ERROR"))]
        own = [l for l in lines if f".19 [" not in l]
        return {"op": "exit", "file": rel, "function": qual, "param": p, "check_exit": r.returncode, "by_own_rule": bool(own) and r.returncode == 1,
                "first_line": (own or lines or [""])[0][:240]}
    finally:
        shutil.rmtree(d, ignore_errors=True)


def main():
    ap = argparse.ArgumentParser()
    ap.add_argument("pids", nargs="+")
    ap.add_argument("--jobs", type=int, default=14)
    a = ap.parse_args()
    for pid in a.pids:
        jobs = []
        for rel, quals in sorted(functions_of(pid).items()):
            path = os.path.join(SRC, rel)
            if not os.path.exists(path):
                continue
            text = open(path).read()
            tree = ast.parse(text)
            for qual in sorted(quals):
                fn = find_fn(tree, qual)
                if not isinstance(fn, (ast.FunctionDef, ast.AsyncFunctionDef)) or not own_returns(fn):
                    continue
                m = mutant(text, fn)
                if m is None:
                    continue
                try:
                    ast.parse(m[0])
                except SyntaxError:
                    continue
                jobs.append((pid, rel, qual, m[1], m[0]))
        with cf.ThreadPoolExecutor(a.jobs) as ex:
            results = list(ex.map(run_mutant, jobs))
        json.dump(results, open(os.path.join(HERE, "audit", "mutants", f"{pid}.exits.json"), "w"), indent=1)
        rep = [r for r in results if r["check_exit"] == 1]
        print(f"{pid}: {len(results)} exit mutants; reported {len(rep)} (own rule {sum(1 for r in rep if r['by_own_rule'])}, only R.19 "
              f"{sum(1 for r in rep if not r['by_own_rule'])}), analysis errors {sum(1 for r in results if r['check_exit'] == 2)}, "
              f"silent {sum(1 for r in results if r['check_exit'] == 0)}")
        for r in results:
            if r["check_exit"] != 1:
                print(f"   {'ERR ' if r['check_exit'] == 2 else 'SILENT'} {r['file']}:{r['function']}  {r['first_line'][:150]}")


main()
