#!/venv/bin/python
"""Whole-repository behaviour-preserving rewrites; every check must stay silent on each of them.

usage: tools/refuzz.py [transform ...] [--pids C01,C02] [--keep]
Maintenance tool (false-alarm test of the checkers), never part of a verdict.  Each transform is applied to a scratch
copy of /repo/src under /dev/shm, `./check Cxx --repo <copy>` is run for every property, and the copy is removed.

transforms:
  unparse   ast.unparse round trip of every .py (comments dropped, layout/quotes normalised)
  shift     three comment lines prepended to every .py and .pyx (all line numbers move)
  docs      a docstring added to every function that has none
  reorder   runs of consecutive plain methods in a class body reversed
  invert    `if c: A else: B`  ->  `if not c: B else: A`
  flip      `a < b` -> `b > a` (single-operator order comparisons)
  rename    every local variable of every function renamed (parameters, globals, imports, names rebound in nested
            scopes are left alone)
  toformat  f"{x:10.4f}" -> "{:10.4f}".format(x)        (not part of `all`: the two directions undo each other)
  tofstring "{:3}".format(a) -> f"{a:3}"
  annotate  x = v -> x: object = v for simple names inside functions
  temps     T = F(a, g(x)) -> _tmpN = g(x); T = F(a, _tmpN)  (a nested call hoisted into a temporary, evaluation order kept)
  all       everything above at once
"""
import ast
import concurrent.futures as cf
import os
import shutil
import subprocess
import symtable
import sys

HERE = os.path.dirname(os.path.dirname(os.path.abspath(__file__)))
REPO = "/repo"
PIDS = ["C%02d" % i for i in range(1, 21)]


class Docs(ast.NodeTransformer):
    def visit_FunctionDef(self, node):
        self.generic_visit(node)
        if ast.get_docstring(node) is None:
            node.body.insert(0, ast.Expr(ast.Constant("Added by a documentation pass.")))
        return node


class Reorder(ast.NodeTransformer):
    def visit_ClassDef(self, node):
        self.generic_visit(node)
        out, run = [], []

        def flush():
            out.extend(reversed(run))
            run.clear()

        for st in node.body:
            plain = isinstance(st, ast.FunctionDef) and all(
                isinstance(d, ast.Name) and d.id in ("staticmethod", "classmethod", "property") for d in st.decorator_list
            )
            if plain and st.name not in {r.name for r in run}:
                run.append(st)
            else:
                flush()
                out.append(st)
        flush()
        node.body = out
        return node


class Invert(ast.NodeTransformer):
    def visit_If(self, node):
        self.generic_visit(node)
        if node.orelse:
            t = node.test
            if isinstance(t, ast.UnaryOp) and isinstance(t.op, ast.Not):
                nt = t.operand
            else:
                nt = ast.UnaryOp(ast.Not(), t)
            node.test, node.body, node.orelse = nt, node.orelse, node.body
        return node


class Flip(ast.NodeTransformer):
    M = {ast.Lt: ast.Gt, ast.Gt: ast.Lt, ast.LtE: ast.GtE, ast.GtE: ast.LtE}

    def visit_Compare(self, node):
        self.generic_visit(node)
        if len(node.ops) == 1 and type(node.ops[0]) in self.M:
            pure = all(not isinstance(n, (ast.Call, ast.NamedExpr, ast.Await, ast.Yield)) for side in (node.left, node.comparators[0]) for n in ast.walk(side))
            if pure:
                return ast.Compare(node.comparators[0], [self.M[type(node.ops[0])]()], [node.left])
        return node


class ToFormat(ast.NodeTransformer):
    """f"{x:10.4f}{y!r}"  ->  "{:10.4f}{!r}".format(x, y)   (constant format specs only)."""
    def visit_FormattedValue(self, node):
        node.value = self.visit(node.value)     # the format spec (itself a JoinedStr) stays as it is
        return node

    def visit_JoinedStr(self, node):
        self.generic_visit(node)
        tmpl, args = "", []
        for v in node.values:
            if isinstance(v, ast.Constant) and isinstance(v.value, str):
                tmpl += v.value.replace("{", "{{").replace("}", "}}")
            elif isinstance(v, ast.FormattedValue):
                spec = ""
                if v.format_spec is not None:
                    if not (isinstance(v.format_spec, ast.JoinedStr) and all(isinstance(x, ast.Constant) for x in v.format_spec.values)):
                        return node
                    spec = "".join(x.value for x in v.format_spec.values)
                conv = {-1: "", 115: "!s", 114: "!r", 97: "!a"}[v.conversion]
                tmpl += "{" + conv + (":" + spec if spec else "") + "}"
                args.append(v.value)
            else:
                return node
        return ast.copy_location(ast.Call(ast.Attribute(ast.Constant(tmpl), "format", ast.Load()), args, []), node)


class ToFString(ast.NodeTransformer):
    """"{:3} {: 20.12f}".format(a, b)  ->  f"{a:3} {b: 20.12f}"   (auto-numbered or indexed positional fields, no keywords)."""
    def visit_Call(self, node):
        self.generic_visit(node)
        if not (isinstance(node.func, ast.Attribute) and node.func.attr == "format" and isinstance(node.func.value, ast.Constant)
                and isinstance(node.func.value.value, str) and not node.keywords and not any(isinstance(a, ast.Starred) for a in node.args)):
            return node
        import string
        vals, auto = [], 0
        try:
            for lit, field, spec, conv in string.Formatter().parse(node.func.value.value):
                if lit:
                    vals.append(ast.Constant(lit))
                if field is None:
                    continue
                if field == "":
                    idx, auto = auto, auto + 1
                elif field.isdigit():
                    idx = int(field)
                else:
                    return node
                if idx >= len(node.args) or (spec and "{" in spec):
                    return node
                fs = ast.JoinedStr([ast.Constant(spec)]) if spec else None
                vals.append(ast.FormattedValue(node.args[idx], {None: -1, "s": 115, "r": 114, "a": 97}[conv], fs))
        except Exception:
            return node
        return ast.copy_location(ast.JoinedStr(vals), node)


class Annotate(ast.NodeTransformer):
    """x = v  ->  x: object = v   (simple names inside functions only)."""
    def __init__(self):
        self.depth = 0

    def visit_FunctionDef(self, node):
        if any(isinstance(n, (ast.Global, ast.Nonlocal)) for n in ast.walk(node)):
            return node
        self.depth += 1
        self.generic_visit(node)
        self.depth -= 1
        return node

    def visit_ClassDef(self, node):
        d, self.depth = self.depth, 0
        self.generic_visit(node)
        self.depth = d
        return node

    def visit_Assign(self, node):
        if self.depth and len(node.targets) == 1 and isinstance(node.targets[0], ast.Name):
            return ast.copy_location(ast.AnnAssign(node.targets[0], ast.Name("object", ast.Load()), node.value, 1), node)
        return node


class Temps(ast.NodeTransformer):
    """T = F(a, g(x), b)  ->  _tmpN = g(x); T = F(a, _tmpN, b)   when everything evaluated before g(x) is a plain name/constant."""
    def __init__(self):
        self.n = 0

    def _simple(self, e):
        return isinstance(e, (ast.Name, ast.Constant)) or (isinstance(e, ast.Attribute) and self._simple(e.value))

    def _hoist(self, st, call):
        if not isinstance(call, ast.Call) or not self._simple(call.func) or any(isinstance(a, ast.Starred) for a in call.args):
            return None
        for i, a in enumerate(call.args):
            if isinstance(a, ast.Call) and all(self._simple(b) for b in call.args[:i]) and \
                    not any(isinstance(x, (ast.Lambda, ast.ListComp, ast.GeneratorExp, ast.DictComp, ast.SetComp, ast.NamedExpr, ast.Await, ast.Yield)) for x in ast.walk(a)):
                self.n += 1
                name = f"_tmp{self.n}"
                pre = ast.copy_location(ast.Assign([ast.Name(name, ast.Store())], a), st)
                call.args[i] = ast.Name(name, ast.Load())
                return pre
            if not self._simple(a):
                return None
        return None

    def _block(self, body):
        out = []
        for st in body:
            st = self.visit(st)
            if isinstance(st, (ast.Assign, ast.Expr, ast.Return)) and st.value is not None:
                pre = self._hoist(st, st.value)
                if pre is not None:
                    out.append(pre)
            out.append(st)
        return out

    def generic_visit(self, node):
        for f in ("body", "orelse", "finalbody"):
            b = getattr(node, f, None)
            if isinstance(b, list) and b and isinstance(b[0], ast.stmt):
                if isinstance(node, (ast.Module, ast.ClassDef)):
                    setattr(node, f, [self.visit(x) for x in b])
                else:
                    setattr(node, f, self._block(b))
        if isinstance(node, ast.Try):
            for h in node.handlers:
                h.body = self._block(h.body)
        return node


def _scopes(tab):
    yield tab
    for c in tab.get_children():
        yield from _scopes(c)


def rename_plan(src, fname):
    """{(function name, first line): set of local names safe to rename}."""
    top = symtable.symtable(src, fname, "exec")
    plan = {}

    def rec(tab):
        if tab.get_type() == "function" and tab.get_name() not in ("lambda", "listcomp", "genexpr", "dictcomp", "setcomp"):
            names = set()
            for s in tab.get_symbols():
                if s.is_local() and s.is_assigned() and not s.is_parameter() and not s.is_imported() and not s.is_global() and not s.is_nonlocal():
                    names.add(s.get_name())
            for ch in tab.get_children():
                for sc in _scopes(ch):
                    for s in sc.get_symbols():
                        if s.get_name() in names and not s.is_free():
                            names.discard(s.get_name())
                    # class bodies / nested functions of the same name as a variable
                    names.discard(sc.get_name())
            plan[(tab.get_name(), tab.get_lineno())] = names
        for ch in tab.get_children():
            rec(ch)

    rec(top)
    return plan


class Rename(ast.NodeTransformer):
    def __init__(self, plan):
        self.plan = plan
        self.stack = []

    def visit_FunctionDef(self, node):
        names = self.plan.get((node.name, node.lineno), set())
        # a nested function named like a local of the enclosing one is a binding there
        names = {n for n in names if not any(isinstance(x, (ast.FunctionDef, ast.ClassDef)) and x.name == n for x in ast.walk(node) if x is not node)}
        # decorators / defaults / annotations belong to the enclosing scope
        node.decorator_list = [self.visit(d) for d in node.decorator_list]
        node.args.defaults = [self.visit(d) for d in node.args.defaults]
        node.args.kw_defaults = [self.visit(d) if d is not None else None for d in node.args.kw_defaults]
        self.stack.append(names)
        node.body = [self.visit(s) for s in node.body]
        self.stack.pop()
        return node

    def visit_Name(self, node):
        # innermost function that owns the name; inner functions only see it as a free variable (checked in the plan)
        for names in reversed(self.stack):
            if node.id in names:
                return ast.copy_location(ast.Name(node.id + "_rn", node.ctx), node)
        return node

    def visit_ExceptHandler(self, node):
        self.generic_visit(node)
        if node.name:
            for names in reversed(self.stack):
                if node.name in names:
                    node.name = node.name + "_rn"
                    break
        return node


def transform_py(src, fname, which):
    tree = ast.parse(src)
    if "rename" in which:
        plan = rename_plan(src, fname)
        # a function shadowing between siblings: be conservative when the key is ambiguous
        tree = Rename(plan).visit(tree)
    if "toformat" in which:
        tree = ToFormat().visit(tree)
    if "tofstring" in which:
        tree = ToFString().visit(tree)
    if "temps" in which:
        tree = Temps().visit(tree)
    if "annotate" in which:
        tree = Annotate().visit(tree)
    if "docs" in which:
        tree = Docs().visit(tree)
    if "reorder" in which:
        tree = Reorder().visit(tree)
    if "invert" in which:
        tree = Invert().visit(tree)
    if "flip" in which:
        tree = Flip().visit(tree)
    ast.fix_missing_locations(tree)
    out = ast.unparse(tree) + "\n"
    compile(out, fname, "exec")
    return out


def build(which, dst, patch=None):
    shutil.copytree(os.path.join(REPO, "src"), os.path.join(dst, "src"), ignore=shutil.ignore_patterns("__pycache__", "*.so", "tests"))
    if patch:
        r = subprocess.run(["patch", "-p1", "-s", "-d", dst, "-i", patch], capture_output=True, text=True)
        if r.returncode != 0:
            raise RuntimeError(f"patch failed: {r.stdout[:200]}")
    for f in ("pyproject.toml", "README.md"):
        if os.path.exists(os.path.join(REPO, f)):
            shutil.copy(os.path.join(REPO, f), dst)
    # the tests directory is data for some rules (file names), copy it untouched
    shutil.copytree(os.path.join(REPO, "src/chmpy/tests"), os.path.join(dst, "src/chmpy/tests"), ignore=shutil.ignore_patterns("__pycache__"))
    n = 0
    for d, _, fs in os.walk(os.path.join(dst, "src/chmpy")):
        if "/tests" in d:
            continue
        for f in fs:
            p = os.path.join(d, f)
            if f.endswith(".py"):
                src = open(p).read()
                if which == {"shift"}:
                    out = "# moved\n# by\n# three lines\n" + src
                else:
                    out = transform_py(src, p, which)
                    if "shift" in which:
                        out = "# moved\n# by\n# three lines\n" + out
                open(p, "w").write(out)
                n += 1
            elif f.endswith(".pyx") and "shift" in which:
                old = open(p).read()
                open(p, "w").write("# moved\n# by\n# three lines\n" + old)
    return n


def run_check(pid, repo):
    r = subprocess.run(["/venv/bin/python", os.path.join(HERE, "check"), pid, "--repo", repo], capture_output=True, text=True,
                       env=dict(os.environ, VERIF_NO_EVIDENCE="1"))
    lines = [x for x in (r.stdout + r.stderr).splitlines() if "conda" not in x]
    return pid, r.returncode, lines


def seeded(transforms):
    """Every seeded breakage must still be reported after the rewrite (the rewrites must not hide a violation)."""
    import json
    sd = os.path.join(HERE, "seeded")
    names = sorted(n for n in os.listdir(sd) if os.path.exists(os.path.join(sd, n, "patch.diff")))
    which = set(transforms)

    def one(n):
        meta = json.load(open(os.path.join(sd, n, "meta.json")))
        pid = (meta.get("detected_by") or {}).get("check") or n.split("-")[0]
        dst = f"/dev/shm/refuzz_seed_{n}"
        shutil.rmtree(dst, ignore_errors=True)
        os.makedirs(dst)
        try:
            build(which, dst, patch=os.path.join(sd, n, "patch.diff"))
            _, rc, lines = run_check(pid, dst)
        except Exception as ex:     # noqa: BLE001
            rc, lines = 9, [str(ex)[:200]]
        shutil.rmtree(dst, ignore_errors=True)
        return n, pid, rc, lines
    with cf.ThreadPoolExecutor(16) as ex:
        res = list(ex.map(one, names))
    lost = [(n, pid, rc, ls) for n, pid, rc, ls in res if rc != 1]
    print(f"[seeded + {'+'.join(sorted(which))}] seeds={len(res)} still reported={len(res) - len(lost)} lost={len(lost)}")
    for n, pid, rc, ls in lost:
        print(f"  {n} ({pid}) exit={rc}: " + " | ".join(x[:200] for x in ls if x.startswith(("ANALYSIS", "note", "["))))
    return 1 if lost else 0


def main():
    if "--seeded" in sys.argv:
        return seeded([a for a in sys.argv[1:] if not a.startswith("--")] or ["rename"])
    args = [a for a in sys.argv[1:] if not a.startswith("--")]
    pids = PIDS
    for a in sys.argv[1:]:
        if a.startswith("--pids"):
            pids = a.split("=", 1)[1].split(",")
    keep = "--keep" in sys.argv
    ALL = ["unparse", "shift", "docs", "reorder", "invert", "flip", "rename", "annotate", "temps"]
    todo = args or ALL + ["all"]
    bad = 0
    for t in todo:
        # `all` = every rewrite at once (the two format directions undo each other: `all` takes toformat; combine with + for others)
        which = (set(ALL) | {"toformat"}) if t == "all" else set(t.split("+"))
        dst = f"/dev/shm/refuzz_{t}"
        shutil.rmtree(dst, ignore_errors=True)
        os.makedirs(dst)
        n = build(which, dst)
        with cf.ThreadPoolExecutor(16) as ex:
            res = list(ex.map(lambda p: run_check(p, dst), pids))
        fails = [(p, rc, ls) for p, rc, ls in res if rc != 0]
        print(f"[{t}] files rewritten={n} checks={len(res)} silent={len(res) - len(fails)} alarms={len(fails)}")
        for p, rc, ls in fails:
            bad += 1
            print(f"  {p} exit={rc}")
            for x in ls:
                if x.startswith(("FAIL", "VIOLATION", "ANALYSIS-ERROR", "note:")):
                    print("     " + x[:400])
        if not keep:
            shutil.rmtree(dst, ignore_errors=True)
    return 1 if bad else 0


if __name__ == "__main__":
    sys.exit(main())
