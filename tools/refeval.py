#!/venv/bin/python
"""Behaviour-preserving refactorings written by independent sub-agents: every check must stay silent on each of them.

usage: tools/refeval.py save <Cxx> <worktree>     verify the candidates in <worktree>/refac/<k>/ (equiv.py exits 0 on the clean and on
                                                  the refactored tree, the test suite passes) and copy them to /verif/refactors/<Cxx>-<k>/
       tools/refeval.py run [name ...]            apply each saved refactoring to a scratch copy and run ALL twenty checks on it;
                                                  writes refactors/INDEX.md; exit 1 if any check is not silent
Maintenance tool (false-alarm test of the checkers), never part of a verdict.
"""
import concurrent.futures as cf
import json
import os
import shutil
import subprocess
import sys
import tempfile

HERE = os.path.dirname(os.path.dirname(os.path.abspath(__file__)))
PY = "/venv/bin/python"
ROOT = os.path.join(HERE, "refactors")
PIDS = [f"C{i:02d}" for i in range(1, 21)]


def sh(cmd, cwd=None, env=None, timeout=1200):
    r = subprocess.run(cmd, shell=isinstance(cmd, str), cwd=cwd, env=env, capture_output=True, text=True, timeout=timeout)
    return r.returncode, r.stdout + r.stderr


def verify(rd, wt):
    env = {**os.environ, "PYTHONPATH": os.path.join(wt, "src")}
    rc, out = sh("git status --porcelain src", cwd=wt)
    if out.strip():
        return {"ok": False, "why": "worktree not clean: " + out[:200]}
    eq, patch = os.path.join(rd, "equiv.py"), os.path.join(rd, "patch.diff")
    rc0, out0 = sh([PY, eq], cwd=wt, env=env)
    rca, outa = sh(["git", "apply", patch], cwd=wt)
    if rca != 0:
        return {"ok": False, "why": "patch does not apply: " + outa[:300]}
    try:
        rc1, out1 = sh([PY, eq], cwd=wt, env=env)
        rct, outt = sh([PY, "-m", "pytest", "-q", "-p", "no:cacheprovider", "-x", "--deselect",
                        "src/chmpy/tests/promolecule/test_density.py::PromoleculeDensityTestCase::test_repr", "src/chmpy/tests"], cwd=wt, env=env)
    finally:
        sh("git checkout -- src", cwd=wt)
    tail = outt.strip().splitlines()[-1] if outt.strip() else ""
    return {"ok": rc0 == 0 and rc1 == 0 and rct == 0, "equiv_clean": rc0, "equiv_refactored": rc1, "tests": tail, "out": (out1 if rc1 else out0)[-300:]}


def save(pid, wt):
    for k in range(1, 13):
        rd = os.path.join(wt, "refac", str(k))
        if not os.path.exists(os.path.join(rd, "patch.diff")):
            continue
        v = verify(rd, wt)
        if not v["ok"]:
            print(f"{pid}/{k}: UNVERIFIED {json.dumps(v)[:300]}")
            continue
        dst = os.path.join(ROOT, f"{pid}-{k}")
        os.makedirs(dst, exist_ok=True)
        for f in ("patch.diff", "equiv.py"):
            shutil.copy(os.path.join(rd, f), os.path.join(dst, f))
        meta = json.load(open(os.path.join(rd, "meta.json")))
        meta["property"] = pid
        meta["source"] = "independent sub-agent given only the property text and a private worktree; asked for a behaviour-preserving refactoring"
        meta["confirmed"] = {"how": "tools/refeval.py save: equiv.py exits 0 on the clean tree and on the refactored tree, the test suite passes "
                                    f"({v['tests']}; test_repr deselected); tree restored", "result": "confirmed"}
        with open(os.path.join(dst, "meta.json"), "w") as f:
            json.dump(meta, f, indent=1)
            f.write("\n")
        print(f"{pid}/{k}: saved as {os.path.basename(dst)}")


def run_one(name):
    rd = os.path.join(ROOT, name)
    d = tempfile.mkdtemp(prefix="verif-refac-", dir="/dev/shm")
    try:
        shutil.copytree("/repo/src", os.path.join(d, "src"), ignore=shutil.ignore_patterns("*.so", "*.c", "__pycache__"))
        rc, out = sh(["patch", "-p1", "-s", "-d", d, "-i", os.path.join(rd, "patch.diff")])
        if rc != 0:
            return name, {"applied": False, "why": out[:200]}
        res = {}
        for p in PIDS:
            rc, out = sh([PY, os.path.join(HERE, "check"), p, "--repo", d], cwd=HERE, env={**os.environ, "VERIF_NO_EVIDENCE": "1"})
            if rc != 0:
                lines = [l for l in out.splitlines() if l.startswith(("src/", "ANALYSIS-ERROR", "note:"))]
                res[p] = {"exit": rc, "lines": [l[:500] for l in lines[:4]]}
        return name, {"applied": True, "alarms": res}
    finally:
        shutil.rmtree(d, ignore_errors=True)


def run(names):
    names = names or sorted(n for n in os.listdir(ROOT) if os.path.exists(os.path.join(ROOT, n, "patch.diff")))
    with cf.ThreadPoolExecutor(8) as ex:
        results = dict(ex.map(run_one, names))
    bad = 0
    rows = []
    for n in names:
        r = results[n]
        meta = json.load(open(os.path.join(ROOT, n, "meta.json")))
        if not r.get("applied"):
            print(f"{n}: PATCH DOES NOT APPLY {r.get('why')}")
            bad += 1
            rows.append((n, meta, "patch does not apply"))
            continue
        if r["alarms"]:
            bad += 1
            print(f"{n}: ALARMS")
            for p, a in r["alarms"].items():
                print(f"   {p} exit={a['exit']}")
                for ln in a["lines"]:
                    print("      " + ln)
            rows.append((n, meta, "; ".join(f"{p} exit {a['exit']}" for p, a in r["alarms"].items())))
        else:
            rows.append((n, meta, "silent (20/20 checks)"))
    with open(os.path.join(ROOT, "INDEX.md"), "w") as f:
        f.write("# Behaviour-preserving refactorings (independent sub-agents) and what the checks say about them\n\n")
        f.write("| refactoring | kind | files | summary | all twenty checks |\n|---|---|---|---|---|\n")
        for n, meta, verdict in rows:
            files = ", ".join(os.path.basename(x) for x in meta.get("files_changed", []))
            summ = meta.get("summary", "").replace("|", "/").replace("\n", " ")
            f.write(f"| {n} | {meta.get('kind', '')[:60]} | {files} | {summ[:220]}{'…' if len(summ) > 220 else ''} | {verdict} |\n")
    print(f"{len(names) - bad} / {len(names)} refactorings leave all twenty checks silent")
    return 1 if bad else 0


if __name__ == "__main__":
    if sys.argv[1] == "save":
        save(sys.argv[2], sys.argv[3])
    elif sys.argv[1] == "run":
        sys.exit(run(sys.argv[2:]))
