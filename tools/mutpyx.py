#!/venv/bin/python
"""Single-token mutants of the Cython kernels a check analyses (the .pyx counterpart of tools/mutcampaign.py).

usage: tools/mutpyx.py Cxx [Cyy ...] [--jobs N] [--functions a,b] [--tag t]
    Functions: the .pyx obligation sites of evidence/<Cxx>.json (without the cache-scope rules).  Their line ranges come from the
    line-preserving Python rendering of the file (sa/pyxfront.py); the mutation is done on the .pyx TEXT, token by token:
      compare   ` < ` <-> ` <= `, ` > ` <-> ` >= `, ` == ` <-> ` != `        (blank-delimited, so casts <double> are left alone)
      arith     ` + ` <-> ` - `, ` * ` <-> ` / `, `+=` <-> `-=`
      const     an integer literal n <= 12  ->  n + 1, n - 1
    (declarations `cdef <type> name[, name]` without an initialiser, decorators, comments and docstrings are skipped).
    Writes audit/mutants/<Cxx>.pyx[.tag].json.  Maintenance tool, never part of a verdict.
"""
import argparse
import ast
import concurrent.futures as cf
import json
import os
import re
import shutil
import subprocess
import sys
import tempfile

HERE = os.path.dirname(os.path.dirname(os.path.abspath(__file__)))
sys.path.insert(0, HERE)
SRC = "/repo/src/chmpy"

SWAPS = [(" < ", " <= "), (" <= ", " < "), (" > ", " >= "), (" >= ", " > "), (" == ", " != "), (" != ", " == "),
         (" + ", " - "), (" - ", " + "), (" * ", " / "), (" / ", " * "), (" += ", " -= "), (" -= ", " += ")]
OPNAME = {" < ": "compare", " <= ": "compare", " > ": "compare", " >= ": "compare", " == ": "compare", " != ": "compare",
          " + ": "arith", " - ": "arith", " * ": "arith", " / ": "arith", " += ": "arith", " -= ": "arith"}
DECL = re.compile(r"^\s*cdef\s+[\w\s\[\]:,\*<>\.]+$")
INT = re.compile(r"(?<![\w\.])(\d+)(?![\w\.])")


def functions_of(pid):
    ev = json.load(open(os.path.join(HERE, "evidence", f"{pid}.json")))
    generic = {f"R{pid[1:]}.{k}" for k in (9, 12, 13, 18, 19, 20)}
    out = {}
    for s, rules in ev["coverage"].get("obligation_sites", {}).items():
        if not (set(rules) - generic):
            continue
        rel, _, qual = s.partition(":")
        rel = rel[len("src/chmpy/"):] if rel.startswith("src/chmpy/") else rel
        if rel.endswith(".pyx") and qual and not qual.startswith("<") and not qual.isupper() and not qual.startswith("_SOBOL"):
            out.setdefault(rel, set()).add(qual)
    return out


def ranges(text):
    from sa.pyxfront import convert
    conv = convert(text)
    src = conv[0] if isinstance(conv, tuple) else conv
    tree = ast.parse(src)
    out = {}

    def visit(body, prefix):
        for st in body:
            if isinstance(st, (ast.FunctionDef, ast.AsyncFunctionDef)):
                out[prefix + st.name] = (st.lineno, st.end_lineno)
            elif isinstance(st, ast.ClassDef):
                visit(st.body, prefix + st.name + ".")
    visit(tree.body, "")
    return out


def sites(lines, lo, hi):
    in_doc = False
    for ln in range(lo, hi):          # 0-based, header excluded by the caller
        raw = lines[ln]
        code = raw.split("#", 1)[0]
        stripped = code.strip()
        if stripped.count('"""') % 2 == 1 or stripped.count("'''") % 2 == 1:
            in_doc = not in_doc
            continue
        if in_doc or not stripped or stripped.startswith(("@", '"', "'")) or DECL.match(code) and "=" not in code:
            continue
        for a, b in SWAPS:
            start = 0
            while True:
                i = code.find(a, start)
                if i < 0:
                    break
                yield ln, OPNAME[a], a.strip(), b.strip(), raw[:i] + b + raw[i + len(a):]
                start = i + len(a)
        if stripped.startswith(("cdef ", "cpdef ", "def ")) and stripped.endswith(":"):
            continue
        for m in INT.finditer(code):
            n = int(m.group(1))
            if n > 12:
                continue
            for d in (1, -1):
                if n + d < 0 and code[max(0, m.start() - 1)] not in " (,[=":
                    continue
                yield ln, "const", str(n), str(n + d), raw[:m.start()] + str(n + d) + raw[m.end():]


def run_mutant(job):
    pid, rel, qual, ln, op, before, after, new_line = job
    d = tempfile.mkdtemp(prefix="verif-mutpyx-", dir="/dev/shm")
    try:
        shutil.copytree("/repo/src", os.path.join(d, "src"), ignore=shutil.ignore_patterns("*.so", "*.c", "__pycache__", "tests"))
        p = os.path.join(d, "src", "chmpy", rel)
        lines = open(p).read().split("\n")
        lines[ln] = new_line
        open(p, "w").write("\n".join(lines))
        r = subprocess.run(["/venv/bin/python", os.path.join(HERE, "check"), pid, "--repo", d], capture_output=True, text=True, cwd=HERE,
                           env={**os.environ, "VERIF_NO_EVIDENCE": "1"})
        out = [l for l in (r.stdout + r.stderr).splitlines() if l.startswith(("src/", "ANALYSIS-ERROR"))]
        return {"op": op, "file": rel, "function": qual, "line": ln + 1, "before": before, "after": after, "text": new_line.strip()[:100],
                "check_exit": r.returncode, "first_line": out[0][:240] if out else ""}
    finally:
        shutil.rmtree(d, ignore_errors=True)


def main():
    ap = argparse.ArgumentParser()
    ap.add_argument("pids", nargs="+")
    ap.add_argument("--jobs", type=int, default=12)
    ap.add_argument("--functions", default="")
    ap.add_argument("--tag", default="")
    a = ap.parse_args()
    os.makedirs(os.path.join(HERE, "audit", "mutants"), exist_ok=True)
    for pid in a.pids:
        jobs = []
        for rel, quals in sorted(functions_of(pid).items()):
            text = open(os.path.join(SRC, rel)).read()
            lines = text.split("\n")
            rg = ranges(text)
            for qual in sorted(quals):
                if a.functions and qual not in a.functions.split(","):
                    continue
                if qual not in rg:
                    continue
                lo, hi = rg[qual]
                for ln, op, before, after, new_line in sites(lines, lo, hi):      # lo is 1-based header -> body starts at index lo
                    jobs.append((pid, rel, qual, ln, op, before, after, new_line))
        with cf.ThreadPoolExecutor(a.jobs) as ex:
            results = list(ex.map(run_mutant, jobs))
        json.dump(results, open(os.path.join(HERE, "audit", "mutants", f"{pid}.pyx{'.' + a.tag if a.tag else ''}.json"), "w"), indent=1)
        n = len(results)
        print(f"{pid}: {n} pyx mutants; reported {sum(1 for r in results if r['check_exit'] == 1)}, analysis errors "
              f"{sum(1 for r in results if r['check_exit'] == 2)}, silent {sum(1 for r in results if r['check_exit'] == 0)}")


main()
