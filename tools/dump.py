#!/venv/bin/python
"""debug helper: tools/dump.py <module rel> <qualname> [--repo PATH]"""
import sys, os
sys.path.insert(0, os.path.dirname(os.path.dirname(os.path.abspath(__file__))))
from sa.core import Repo
repo = Repo(sys.argv[4] if len(sys.argv) > 4 else "/repo")
m = repo.module(sys.argv[1])
ev = m.ev(sys.argv[2])
W = int(os.environ.get("W", "220"))
for e in ev.events:
    g = " & ".join(("" if p else "!") + str(c)[:60] for c, p in e.guards)
    print(f"{e.lineno:5d} {e.kind:7s} L{[l.k for l in e.loops]} {str(e.target)[:60] if e.target is not None else '':40s} <- {str(e.value)[:W]}" + (f"   IF {g}" if g else ""))
