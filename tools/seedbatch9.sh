#!/bin/bash
# usage: tools/seedbatch9.sh [WT=14] C12 C15 ...   -> verify + detect every round-9 seed of those worktrees (/dev/shm/wt${WT:-14}_<id>/seed/k)
for id in "$@"; do
  for k in 1 2 3 4; do
    sd=/dev/shm/wt${WT:-14}_$id/seed/$k
    [ -f $sd/patch.diff ] || continue
    v=$(/venv/bin/python /verif/tools/seedeval.py verify $sd /dev/shm/wt${WT:-14}_$id 2>/dev/null | /venv/bin/python -c "import json,sys; d=json.load(sys.stdin); print('VERIFIED' if d['ok'] else 'UNVERIFIED '+json.dumps(d)[:300])")
    d=$(/venv/bin/python /verif/tools/seedeval.py detect $sd 2>/dev/null | /venv/bin/python -c "import json,sys; d=json.load(sys.stdin); r=d['results'][d['property']] if d.get('applied') else d; print(r.get('exit','?'), (r.get('first') or r.get('why',''))[:330])")
    echo "$id/$k $v | check: $d"
  done
done
