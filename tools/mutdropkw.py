#!/venv/bin/python
"""Dropped-keyword mutants: one `name=name` keyword argument removed from one call inside a function of the modules a check analyses.

usage: tools/mutdropkw.py Cxx [Cyy ...] [--jobs N]
    For every function of the modules with obligation sites (evidence coverage.obligation_sites), every call `f(..., p=p, ...)` whose value is
    the enclosing function's own parameter p: the keyword is deleted (the callee then runs with its default).  The check should report it --
    by an obligation of the property, or by the generic rule R<nn>.18 (sa/rules/forwarding.py) when p is not read anywhere else.
    Writes audit/mutants/<Cxx>.dropkw.json.  Maintenance tool, never part of a verdict.
"""
import argparse
import ast
import concurrent.futures as cf
import json
import os
import shutil
import subprocess
import tempfile

HERE = os.path.dirname(os.path.dirname(os.path.abspath(__file__)))
SRC = "/repo/src/chmpy"


def modules_of(pid):
    ev = json.load(open(os.path.join(HERE, "evidence", f"{pid}.json")))
    generic = {f"R{pid[1:]}.{k}" for k in (9, 12, 13, 18, 19, 20)}
    out = {}
    for s, rules in ev["coverage"].get("obligation_sites", {}).items():
        if not (set(rules) - generic):
            continue
        rel, _, qual = s.partition(":")
        rel = rel[len("src/chmpy/"):] if rel.startswith("src/chmpy/") else rel
        if rel.endswith(".py") and qual and not qual.startswith("<"):
            out.setdefault(rel, set()).add(qual)
    return out


def functions(tree):
    def rec(body, prefix):
        for st in body:
            if isinstance(st, (ast.FunctionDef, ast.AsyncFunctionDef)):
                yield prefix + st.name, st
            elif isinstance(st, ast.ClassDef):
                yield from rec(st.body, prefix + st.name + ".")
    yield from rec(tree.body, "")


def run_mutant(job):
    pid, rel, qual, desc, new_text = job
    d = tempfile.mkdtemp(prefix="verif-mutkw-", dir="/dev/shm")
    try:
        shutil.copytree("/repo/src", os.path.join(d, "src"), ignore=shutil.ignore_patterns("*.so", "*.c", "__pycache__", "tests"))
        open(os.path.join(d, "src", "chmpy", rel), "w").write(new_text)
        r = subprocess.run(["/venv/bin/python", os.path.join(HERE, "check"), pid, "--repo", d], capture_output=True, text=True, cwd=HERE,
                           env={**os.environ, "VERIF_NO_EVIDENCE": "1"})
        lines = [l for l in (r.stdout + r.stderr).splitlines() if l.startswith(("src/", "ANALYSIS-ERROR"))]
        own = [l for l in lines if ".18 [" not in l]
        return {"op": "dropkw", "file": rel, "function": qual, "what": desc, "check_exit": r.returncode,
                "by_own_rule": bool(own) and r.returncode == 1, "first_line": (own or lines or [""])[0][:240]}
    finally:
        shutil.rmtree(d, ignore_errors=True)


def main():
    ap = argparse.ArgumentParser()
    ap.add_argument("pids", nargs="+")
    ap.add_argument("--jobs", type=int, default=14)
    a = ap.parse_args()
    for pid in a.pids:
        jobs = []
        for rel, quals in sorted(modules_of(pid).items()):
            path = os.path.join(SRC, rel)
            text = open(path).read()
            tree = ast.parse(text)
            lines = text.split("\n")
            for qual, fn in functions(tree):
                cls = qual.rsplit(".", 1)[0] if "." in qual else None
                params = {x.arg for x in fn.args.posonlyargs + fn.args.args + fn.args.kwonlyargs} - {"self", "cls"}
                for c in ast.walk(fn):
                    if not isinstance(c, ast.Call):
                        continue
                    callee = ast.unparse(c.func)
                    # only calls whose callee carries an obligation, or made from a function that does
                    tail = callee.split(".")[-1]
                    if not (qual in quals or tail in {q.split(".")[-1] for q in quals}):
                        continue
                    for k in c.keywords:
                        if k.arg and isinstance(k.value, ast.Name) and k.value.id == k.arg and k.arg in params and k.value.lineno == k.value.end_lineno:
                            ln = k.value.lineno - 1
                            line = lines[ln]
                            seg = f"{k.arg}={k.arg}"
                            pos = line.find(seg)
                            if pos < 0:
                                continue
                            new_line = (line[:pos] + line[pos + len(seg):]).replace("(, ", "(").replace(", ,", ",").replace(", )", ")").replace(",)", ")")
                            new_line = new_line.replace("( ", "(") if new_line.strip() else new_line
                            new = lines[:ln] + [new_line] + lines[ln + 1:]
                            try:
                                ast.parse("\n".join(new))
                            except SyntaxError:
                                continue
                            jobs.append((pid, rel, qual, f"{callee}(... {seg} dropped)", "\n".join(new)))
        with cf.ThreadPoolExecutor(a.jobs) as ex:
            results = list(ex.map(run_mutant, jobs))
        json.dump(results, open(os.path.join(HERE, "audit", "mutants", f"{pid}.dropkw.json"), "w"), indent=1)
        rep = [r for r in results if r["check_exit"] == 1]
        print(f"{pid}: {len(results)} dropped-keyword mutants; reported {len(rep)} (own rule {sum(1 for r in rep if r['by_own_rule'])}, only R.18 "
              f"{sum(1 for r in rep if not r['by_own_rule'])}), analysis errors {sum(1 for r in results if r['check_exit'] == 2)}, "
              f"silent {sum(1 for r in results if r['check_exit'] == 0)}")
        for r in results:
            if r["check_exit"] != 1:
                print(f"   {'ERR ' if r['check_exit'] == 2 else 'SILENT'} {r['file']}:{r['function']}  {r['what']}")


main()
