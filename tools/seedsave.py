#!/venv/bin/python
"""Verify the candidate seeds a sub-agent left in <worktree>/seed/<k>/ and copy the confirmed ones to /verif/seeded/<pid>-<n>/.

usage: tools/seedsave.py <pid> <worktree> <round> [offset]
Maintenance tool, never part of a verdict.
"""
import json
import os
import shutil
import sys

HERE = os.path.dirname(os.path.dirname(os.path.abspath(__file__)))
sys.path.insert(0, os.path.join(HERE, "tools"))
import seedeval  # noqa: E402

pid, wt, rnd = sys.argv[1], sys.argv[2], sys.argv[3]
off = int(sys.argv[4]) if len(sys.argv) > 4 else 3 * (int(rnd) - 1)
for k in range(1, 6):
    sd = os.path.join(wt, "seed", str(k))
    if not os.path.exists(os.path.join(sd, "patch.diff")):
        continue
    v = seedeval.verify(sd, wt)
    if not v["ok"]:
        print(f"{pid}/{k}: UNVERIFIED {json.dumps(v)[:300]}")
        continue
    dst = os.path.join(HERE, "seeded", f"{pid}-{k + off}")
    os.makedirs(dst, exist_ok=True)
    for f in ("patch.diff", "demo.py"):
        shutil.copy(os.path.join(sd, f), os.path.join(dst, f))
    meta = json.load(open(os.path.join(sd, "meta.json")))
    meta["property"] = pid
    meta["source"] = f"independent sub-agent given only the property text and a private worktree (round {rnd})"
    meta["confirmed"] = {"how": "tools/seedeval.py verify: in the agent's worktree (clean) demo.py exits 0; after `git apply patch.diff` demo.py exits 1 and "
                                f"the test suite still passes ({v['tests']}; test_repr deselected); tree restored", "result": "confirmed"}
    with open(os.path.join(dst, "meta.json"), "w") as f:
        json.dump(meta, f, indent=1)
        f.write("\n")
    print(f"{pid}/{k}: saved as {os.path.basename(dst)}")
