#!/venv/bin/python
"""Systematic small mutants of the functions a check analyses: which of them does the check report, and which of the unreported ones
also pass the repository's test suite (the candidates worth a look: either an equivalent mutant, or a property-breaking change that
both the tests and the static check miss)?

usage: tools/mutcampaign.py Cxx [Cyy ...] [--max N] [--tests]
    Functions come from evidence/<Cxx>.json (coverage.analysed.functions).  Mutation operators (one change per mutant):
      compare      <  <->  <=,  >  <->  >=,  ==  <->  !=
      const        small integer constant n -> n + 1, n - 1 (not in subscripts of tuples of names / format specs)
      arith        +  <->  -,  *  <->  /
      index        constant subscript k -> k + 1 / k - 1 (0 <-> 1, 1 <-> 2 ...)
      args         the first two positional arguments of a call swapped (both plain names / attributes)
      axis         axis=0 <-> axis=1
      boolop       and <-> or,  `not x` -> `x`
      drop         an expression statement / augmented assignment removed
    Writes audit/mutants/<Cxx>.json : per mutant {op, function, line, before, after, check_exit, first_line, tests (if --tests)}.
Maintenance tool, never part of a verdict.
"""
import argparse
import ast
import concurrent.futures as cf
import copy
import json
import os
import shutil
import subprocess
import sys
import tempfile

HERE = os.path.dirname(os.path.dirname(os.path.abspath(__file__)))
SRC = "/repo/src/chmpy"


def functions_of(pid, core=True):
    """Functions to mutate: with core=True those that carry an obligation of one of the property's own rules (evidence
    coverage.obligation_sites, without the cache-scope / aliasing / closure rules R<nn>.9/.12/.13/.20 that look at every method of a class),
    otherwise every function the check looked at."""
    ev = json.load(open(os.path.join(HERE, "evidence", f"{pid}.json")))
    out = {}
    if core and "obligation_sites" in ev["coverage"]:
        generic = {f"R{pid[1:]}.{k}" for k in (9, 12, 13, 18, 19, 20)}
        names = [s for s, rules in ev["coverage"]["obligation_sites"].items() if set(rules) - generic]
    else:
        names = ev["coverage"]["analysed"]["functions"]
    for f in names:
        rel, _, qual = f.partition(":")
        rel = rel[len("src/chmpy/"):] if rel.startswith("src/chmpy/") else rel
        if rel.endswith(".py") and qual and not qual.startswith("<"):
            out.setdefault(rel, set()).add(qual)
    return out


class Sites(ast.NodeVisitor):
    """Enumerate mutation sites inside one function; each site is (op, node id path, description, mutate(tree copy))."""
    def __init__(self, fn):
        self.fn = fn
        self.sites = []
        self.index = {}
        for i, n in enumerate(ast.walk(fn)):
            self.index[id(n)] = i

    def add(self, op, node, before, after, apply):
        self.sites.append({"op": op, "k": self.index[id(node)], "line": getattr(node, "lineno", 0), "before": before, "after": after, "apply": apply})

    def run(self):
        for n in ast.walk(self.fn):
            if isinstance(n, ast.Compare) and len(n.ops) == 1:
                swap = {ast.Lt: ast.LtE, ast.LtE: ast.Lt, ast.Gt: ast.GtE, ast.GtE: ast.Gt, ast.Eq: ast.NotEq, ast.NotEq: ast.Eq}
                t = swap.get(type(n.ops[0]))
                if t:
                    self.add("compare", n, type(n.ops[0]).__name__, t.__name__, lambda m, t=t: setattr(m, "ops", [t()]))
            elif isinstance(n, ast.Constant) and type(n.value) is int and abs(n.value) <= 12:
                for d in (1, -1):
                    self.add("const", n, str(n.value), str(n.value + d), lambda m, d=d: setattr(m, "value", m.value + d))
            elif isinstance(n, ast.BinOp) and type(n.op) in (ast.Add, ast.Sub, ast.Mult, ast.Div):
                swap = {ast.Add: ast.Sub, ast.Sub: ast.Add, ast.Mult: ast.Div, ast.Div: ast.Mult}
                t = swap[type(n.op)]
                self.add("arith", n, type(n.op).__name__, t.__name__, lambda m, t=t: setattr(m, "op", t()))
            elif isinstance(n, ast.Call):
                if len(n.args) >= 2 and all(isinstance(a, (ast.Name, ast.Attribute)) for a in n.args[:2]) and ast.dump(n.args[0]) != ast.dump(n.args[1]):
                    self.add("args", n, "f(a, b)", "f(b, a)", lambda m: m.args.__setitem__(slice(0, 2), [m.args[1], m.args[0]]))
                for kw in n.keywords:
                    if kw.arg == "axis" and isinstance(kw.value, ast.Constant) and kw.value.value in (0, 1):
                        self.add("axis", kw.value, f"axis={kw.value.value}", f"axis={1 - kw.value.value}", lambda m: setattr(m, "value", 1 - m.value))
            elif isinstance(n, ast.BoolOp):
                t = ast.Or if isinstance(n.op, ast.And) else ast.And
                self.add("boolop", n, type(n.op).__name__, t.__name__, lambda m, t=t: setattr(m, "op", t()))
        # statement removal
        for n in ast.walk(self.fn):
            for fld in ("body", "orelse"):
                b = getattr(n, fld, None)
                if isinstance(b, list) and len(b) > 1:
                    for i, st in enumerate(b):
                        if isinstance(st, ast.AugAssign) or (isinstance(st, ast.Expr) and isinstance(st.value, ast.Call)
                                                             and "LOG" not in ast.unparse(st) and "print" not in ast.unparse(st)[:6]):
                            self.add("drop", st, ast.unparse(st)[:60], "<removed>", None)
        return self.sites


def mutate_source(text, tree, qual, site):
    """Source text of the module with one site of function `qual` mutated (the function is re-generated with ast.unparse)."""
    t2 = copy.deepcopy(tree)
    fn = find_fn(t2, qual)
    nodes = list(ast.walk(fn))
    node = nodes[site["k"]]
    if site["op"] == "drop":
        for n in nodes:
            for fld in ("body", "orelse"):
                b = getattr(n, fld, None)
                if isinstance(b, list) and node in b:
                    b.remove(node)
                    if not b:
                        b.append(ast.Pass())
    else:
        site["apply"](node)
    ast.fix_missing_locations(fn)
    orig = find_fn(tree, qual)
    lines = text.split("\n")
    start = min([orig.lineno] + [d.lineno for d in orig.decorator_list]) - 1
    end = orig.end_lineno
    indent = " " * orig.col_offset
    new = "\n".join(indent + l if l else l for l in ast.unparse(fn).split("\n"))
    return "\n".join(lines[:start] + [new] + lines[end:])


def find_fn(tree, qual):
    parts = qual.split(".")
    body = tree.body
    node = None
    for p in parts:
        node = next((x for x in body if isinstance(x, (ast.FunctionDef, ast.ClassDef, ast.AsyncFunctionDef)) and x.name == p), None)
        if node is None:
            return None
        body = node.body
    return node


def run_mutant(job):
    pid, rel, qual, site, new_text, with_tests, scratch = job
    d = tempfile.mkdtemp(prefix="verif-mut-", dir="/dev/shm")
    try:
        shutil.copytree("/repo/src", os.path.join(d, "src"), ignore=shutil.ignore_patterns("*.c", "__pycache__") if with_tests else
                        shutil.ignore_patterns("*.so", "*.c", "__pycache__", "tests"))
        open(os.path.join(d, "src", "chmpy", rel), "w").write(new_text)
        r = subprocess.run(["/venv/bin/python", os.path.join(HERE, "check"), pid, "--repo", d], capture_output=True, text=True, cwd=HERE,
                           env={**os.environ, "VERIF_NO_EVIDENCE": "1"})
        lines = [l for l in (r.stdout + r.stderr).splitlines() if l.startswith(("src/", "ANALYSIS-ERROR"))]
        res = {"op": site["op"], "file": rel, "function": qual, "line": site["line"], "before": site["before"], "after": site["after"],
               "check_exit": r.returncode, "first_line": lines[0][:240] if lines else ""}
        if with_tests and r.returncode == 0:
            t = subprocess.run(["/venv/bin/python", "-m", "pytest", "-q", "-x", "-p", "no:cacheprovider", "--deselect",
                                "src/chmpy/tests/promolecule/test_density.py::PromoleculeDensityTestCase::test_repr", "src/chmpy/tests"],
                               capture_output=True, text=True, cwd=d, env={**os.environ, "PYTHONPATH": os.path.join(d, "src")}, timeout=900)
            res["tests"] = "pass" if t.returncode == 0 else "fail"
        return res
    except Exception as e:      # noqa: BLE001
        return {"op": site["op"], "file": rel, "function": qual, "line": site["line"], "error": str(e)[:200]}
    finally:
        shutil.rmtree(d, ignore_errors=True)


def main():
    ap = argparse.ArgumentParser()
    ap.add_argument("pids", nargs="+")
    ap.add_argument("--max", type=int, default=0)
    ap.add_argument("--tests", action="store_true")
    ap.add_argument("--jobs", type=int, default=14)
    ap.add_argument("--all-functions", action="store_true", help="mutate every function the check looked at, not only the obligation sites")
    ap.add_argument("--functions", default="", help="comma separated qualified names: only these functions")
    ap.add_argument("--tag", default="", help="write audit/mutants/<Cxx>.<tag>.json instead of <Cxx>.json")
    a = ap.parse_args()
    os.makedirs(os.path.join(HERE, "audit", "mutants"), exist_ok=True)
    for pid in a.pids:
        jobs = []
        for rel, quals in sorted(functions_of(pid, core=not a.all_functions).items()):
            path = os.path.join(SRC, rel)
            if not os.path.exists(path):
                continue
            text = open(path).read()
            tree = ast.parse(text)
            for qual in sorted(quals):
                if a.functions and qual not in a.functions.split(","):
                    continue
                fn = find_fn(tree, qual)
                if not isinstance(fn, (ast.FunctionDef, ast.AsyncFunctionDef)):
                    continue
                for site in Sites(fn).run():
                    try:
                        new_text = mutate_source(text, tree, qual, site)
                        ast.parse(new_text)
                    except Exception:      # noqa: BLE001
                        continue
                    jobs.append((pid, rel, qual, {k: v for k, v in site.items() if k != "apply"}, new_text, a.tests, None))
        if a.max and len(jobs) > a.max:
            step = len(jobs) / a.max
            jobs = [jobs[int(i * step)] for i in range(a.max)]
        with cf.ThreadPoolExecutor(a.jobs) as ex:
            results = list(ex.map(run_mutant, jobs))
        json.dump(results, open(os.path.join(HERE, "audit", "mutants", f"{pid}{'.' + a.tag if a.tag else ''}.json"), "w"), indent=1)
        n = len(results)
        caught = sum(1 for r in results if r.get("check_exit") == 1)
        err = sum(1 for r in results if r.get("check_exit") == 2)
        silent = [r for r in results if r.get("check_exit") == 0]
        surv = [r for r in silent if r.get("tests") == "pass"]
        print(f"{pid}: {n} mutants; reported {caught}, analysis errors {err}, silent {len(silent)}" +
              (f", of which {len(surv)} also pass the test suite" if a.tests else ""))


main()
