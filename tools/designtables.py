#!/venv/bin/python
"""Print the markdown tables of DESIGN.md section 9 from seeded/*/meta.json and known_findings.json (maintenance tool)."""
import json
import os

HERE = os.path.dirname(os.path.dirname(os.path.abspath(__file__)))


def seeds():
    rows = []
    sd = os.path.join(HERE, "seeded")
    for n in sorted(os.listdir(sd)):
        p = os.path.join(sd, n, "meta.json")
        if not os.path.exists(p):
            continue
        m = json.load(open(p))
        d = m.get("detected_by", {})
        files = ", ".join(os.path.basename(f) for f in m.get("files_changed", []))
        what = m["summary"].replace("|", "/").replace("\n", " ")
        what = what[:150] + ("…" if len(what) > 150 else "")
        if d.get("exit") == 1:
            by = f"{d.get('rule')}"
        elif d.get("other_checks"):
            by = "— (" + ", ".join(f"{p} {r}" for p, r in d["other_checks"].items()) + ")"
        else:
            by = f"NOT CAUGHT (exit {d.get('exit')})"
        ob = (d.get("obligation") or "").replace("|", "/")
        ob = ob[:150] + ("…" if len(ob) > 150 else "")
        rows.append(f"| {n} | {files} | {what} | {by} | {ob} |")
    print("| seed | file | change | caught by | obligation that fails |\n|---|---|---|---|---|")
    print("\n".join(rows))


def findings():
    d = json.load(open(os.path.join(HERE, "known_findings.json")))["findings"]
    print("| status | property / rule | construct | commit | what failed |\n|---|---|---|---|---|")
    for f in d:
        what = f["what"].replace("|", "/")
        what = what[:260] + ("…" if len(what) > 260 else "")
        print(f"| {f['status']} | {f['property']} {f['rule']} | `{f['module']}:{f['function']}` ({f['fingerprint'][:40]}) | {f.get('commit') or '—'} | {what} |")


if __name__ == "__main__":
    import sys
    {"seeds": seeds, "findings": findings}[sys.argv[1]]()
