#!/bin/bash
# re-express saved seed patches against /repo's current HEAD (after a fix commit moved their context). Maintenance tool.
# usage: tools/seedrebase.sh            -> tries every seed whose patch no longer applies
set -u
WT=/dev/shm/verif-rebase
git -C /repo worktree remove --force $WT 2>/dev/null
git -C /repo worktree add -q --detach $WT HEAD || exit 1
HEAD=$(git -C /repo log --format=%h -1)
for sd in /verif/seeded/*/; do
  name=$(basename $sd)
  [ -f $sd/patch.diff ] || continue
  git -C $WT checkout -q -- . ; git -C $WT reset -q --hard HEAD
  if git -C $WT apply --check $sd/patch.diff 2>/dev/null; then continue; fi
  if git -C $WT apply --3way $sd/patch.diff >/dev/null 2>&1 && ! git -C $WT diff --name-only --diff-filter=U | grep -q .; then
    git -C $WT diff HEAD > $sd/patch.diff.new
    if [ -s $sd/patch.diff.new ]; then mv $sd/patch.diff.new $sd/patch.diff; echo "$name: rebased onto $HEAD"; else rm -f $sd/patch.diff.new; echo "$name: EMPTY after rebase"; fi
  else
    echo "$name: CONFLICT (manual)"
  fi
done
git -C /repo worktree remove --force $WT
