#!/usr/bin/env python3
"""Survivors of the mutation campaign in the functions a check demonstrably inspects (at least one mutant of the function reported).
usage: tools/muttriage.py Cxx [...]"""
import collections
import json
import os
import sys
HERE = os.path.dirname(os.path.dirname(os.path.abspath(__file__)))
for pid in sys.argv[1:]:
    r = json.load(open(os.path.join(HERE, "audit", "mutants", f"{pid}.json")))
    by = collections.defaultdict(list)
    for m in r:
        by[(m["file"], m["function"])].append(m)
    print(f"== {pid}")
    for (f, q), ms in sorted(by.items()):
        rep = sum(1 for m in ms if m.get("check_exit") == 1)
        if rep == 0:
            continue
        surv = [m for m in ms if m.get("check_exit") == 0]
        print(f"  {f}:{q}: {rep}/{len(ms)} reported, {sum(1 for m in ms if m.get('check_exit') == 2)} analysis errors, {len(surv)} silent")
        for m in surv:
            print(f"      line {m['line']:4d} {m['op']:8s} {m['before']} -> {m['after']}" + (f"   tests: {m['tests']}" if "tests" in m else ""))
