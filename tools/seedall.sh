#!/bin/bash
# run the property's check against every saved seed (or those given), in parallel
cd /verif
ls seeded | grep -E "${1:-.}" | xargs -P 12 -I{} sh -c '/venv/bin/python tools/seedeval.py detect seeded/{} | /venv/bin/python -c "import json,sys; d=json.load(sys.stdin); r=d[\"results\"][d[\"property\"]] if d.get(\"applied\") else {\"exit\":\"patch-failed\",\"first\":d.get(\"why\")}; print(\"{}\", r[\"exit\"], (r[\"first\"] or \"\")[:150])"' | sort
