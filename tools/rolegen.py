#!/venv/bin/python
"""Generate sa/rolespecs_auto.py: for every function the rules evaluate, a role specification for each of its locals.

usage: tools/rolegen.py            (maintenance tool, run on a tree whose local names are the ones the rules use)

A local's role is the *shape* of what it is bound from: the right-hand side (or loop iterable, or unpacked call) with every
local name replaced by a wildcard, so the specification mentions API names, attributes and literals only.  Locals whose
shapes coincide (``elements = []`` / ``positions = []``) are told apart by their order of first binding.  The hand-written
entries of sa/rolespecs.py take precedence over the generated ones.
"""
import ast
import importlib
import os
import pprint
import re
import sys

HERE = os.path.dirname(os.path.dirname(os.path.abspath(__file__)))
sys.path.insert(0, HERE)
os.environ["VERIF_NO_EVIDENCE"] = "1"
from sa import core                                   # noqa: E402
from sa.report import Check                           # noqa: E402
from sa.roles import renamable, _own_nodes, _flatten, single_use_temps, _Inline, _CanonExpr  # noqa: E402

seen = []
orig = core.Module.ev


def ev(self, qual, roles=None, **kw):
    if (self.rel, qual) not in seen:
        seen.append((self.rel, qual))
    return orig(self, qual, roles=roles, **kw)


core.Module.ev = ev
repo = None
for i in range(1, 21):
    pid = f"C{i:02d}"
    mod = importlib.import_module(f"sa.rules.{pid.lower()}")
    for tier in ("quick", "thorough"):
        chk = Check(pid, tier, "/repo", None)
        repo = chk.repo
        try:
            mod.run(chk)
        except Exception as e:      # noqa: BLE001
            print(f"{pid} {tier}: run aborted: {e}")
core.Module.ev = orig

TOKEN = "LOCALVARxyz"


class _Abstract(ast.NodeTransformer):
    def __init__(self, names):
        self.names = names

    def visit_Name(self, node):
        if node.id in self.names:
            return ast.copy_location(ast.Name(TOKEN, node.ctx), node)
        return node


TEMPS = {}


def shape(node, names):
    import copy
    node = _Inline(TEMPS).visit(copy.deepcopy(node)) if TEMPS else copy.deepcopy(node)
    node = _CanonExpr().visit(node)
    txt = ast.unparse(_Abstract(names).visit(node))
    if len(txt) > 4000:
        return None
    pat = re.escape(txt).replace(TOKEN, r"\w+")
    return "^" + pat + "$"


out = {}
for rel, qual in seen:
    if rel.endswith(".pyx"):
        continue
    m = repo.module(rel)
    fn = m.funcs.get(qual)
    if fn is None:
        continue
    loc = renamable(m.text, fn)
    if not loc:
        continue
    TEMPS.clear()
    TEMPS.update(single_use_temps(fn))
    # bindings in source order
    binds = []      # (lineno, col, name, spec without index for nth)
    for node in _own_nodes(fn):
        if isinstance(node, ast.Assign) and len(node.targets) == 1:
            t = node.targets[0]
            if isinstance(t, ast.Name) and t.id in loc:
                sh = shape(node.value, loc)
                if sh:
                    binds.append((node.lineno, node.col_offset, t.id, ("assign", sh, None)))
            elif isinstance(t, (ast.Tuple, ast.List)):
                sh = shape(node.value, loc)
                for k, x in enumerate(_flatten(t)):
                    if isinstance(x, ast.Name) and x.id in loc and sh:
                        binds.append((node.lineno, node.col_offset, x.id, ("unpack", sh, k)))
        elif isinstance(node, ast.AnnAssign) and isinstance(node.target, ast.Name) and node.value is not None and node.target.id in loc:
            sh = shape(node.value, loc)
            if sh:
                binds.append((node.lineno, node.col_offset, node.target.id, ("assign", sh, None)))
        elif isinstance(node, ast.For):
            sh = shape(node.iter, loc)
            el = _flatten(node.target)
            for k, x in enumerate(el):
                if isinstance(x, ast.Name) and x.id in loc and sh:
                    binds.append((node.lineno, node.col_offset, x.id, ("for", sh, k if len(el) > 1 else None)))
        elif isinstance(node, ast.With):
            for it in node.items:
                if isinstance(it.optional_vars, ast.Name) and it.optional_vars.id in loc:
                    sh = shape(it.context_expr, loc)
                    if sh:
                        binds.append((node.lineno, node.col_offset, it.optional_vars.id, ("with", sh, None)))
    binds.sort()
    # group by spec: which locals share it, in order of first binding
    by_spec = {}
    for _, _, name, spec in binds:
        by_spec.setdefault(spec, [])
        if name not in by_spec[spec]:
            by_spec[spec].append(name)
    roles = {}
    for _, _, name, spec in binds:
        kind, sh, k = spec
        sharing = by_spec[spec]
        if len(sharing) == 1:
            alt = sh if kind == "assign" else (kind, sh, k) if kind in ("unpack", "for") else (kind, sh)
        elif kind == "assign":
            alt = ("nth", sh, sharing.index(name))
        else:
            continue                # two loops with the same iterable shape and position: cannot be told apart
        roles.setdefault(name, [])
        if alt not in roles[name]:
            roles[name].append(alt)
    # most distinctive alternative first: unpack/for/with, then long shapes, nth last
    def rank(a):
        if isinstance(a, str):
            return (1, -len(a))
        return (2 if a[0] == "nth" else 0, -len(a[1]))
    for name in roles:
        roles[name].sort(key=rank)
    if roles:
        out[(rel, qual)] = roles

with open(os.path.join(HERE, "sa", "rolespecs_auto.py"), "w") as f:
    f.write('"""Generated by tools/rolegen.py - role specifications (binding shapes with local names abstracted) for the locals of\n'
            'every function the rules evaluate.  Do not edit by hand; hand-written entries live in sa/rolespecs.py and win."""\n\n')
    f.write("AUTO = " + pprint.pformat(out, width=160, sort_dicts=True) + "\n")
print(f"{len(out)} functions, {sum(len(v) for v in out.values())} locals")

# inventory of today's functions (sa/inline.py expands calls to functions that are NOT listed here: helpers a refactoring introduced)
known = {}
src_root = os.path.join("/repo", "src", "chmpy")
for d, _, fs in os.walk(src_root):
    if "/tests" in d or "__pycache__" in d:
        continue
    for f in fs:
        if f.endswith(".py"):
            rel = os.path.relpath(os.path.join(d, f), src_root)
            try:
                known[rel] = sorted(repo.module(rel).funcs)
            except Exception as e:      # noqa: BLE001
                print("skip", rel, e)
import ast as _ast
known_globals = {}
known_nested = {}
for rel in known:
    try:
        tree = repo.module(rel).tree
    except Exception:      # noqa: BLE001
        continue
    names = set()
    for st in tree.body:
        targets = st.targets if isinstance(st, _ast.Assign) else [st.target] if isinstance(st, _ast.AnnAssign) else []
        names |= {t.id for t in targets if isinstance(t, _ast.Name)}
        if isinstance(st, _ast.ClassDef):
            for b in st.body:
                ts = b.targets if isinstance(b, _ast.Assign) else [b.target] if isinstance(b, _ast.AnnAssign) else []
                names |= {f"{st.name}.{t.id}" for t in ts if isinstance(t, _ast.Name)}
    known_globals[rel] = sorted(names)
    # functions defined inside functions (closures): "outer.inner"
    for q_, fn_ in repo.module(rel).funcs.items():
        for st in _ast.walk(fn_):
            if st is not fn_ and isinstance(st, _ast.FunctionDef):
                known_nested.setdefault(rel, []).append(f"{q_}.{st.name}")
with open(os.path.join(HERE, "sa", "known_funcs_auto.py"), "w") as f:
    f.write('"""Generated by tools/rolegen.py - the functions and module/class-level names of every module as the rules know them."""\n\n')
    f.write("KNOWN = " + pprint.pformat(known, width=160) + "\n\n")
    f.write("KNOWN_GLOBALS = " + pprint.pformat(known_globals, width=160) + "\n\n")
    f.write("KNOWN_NESTED = " + pprint.pformat(known_nested, width=160) + "\n")
print(f"{len(known)} modules, {sum(len(v) for v in known.values())} known functions")
