"""State-effect summaries: which attributes of ``self`` a method may write (directly, through aliases, through
callees), and which parameters a function may modify in place (DESIGN.md 3.4).

Freshness / alias table (A.3): arithmetic, most calls and fancy indexing produce fresh objects; attribute reads,
basic slices, dictionary lookups, property accessors that return a field, and a short list of view-returning calls
are aliases.  Unknown never raises an alarm: only a definite write through a definite alias is reported.
"""
from __future__ import annotations

import ast

from .poly import P
from .symex import Ev, MUTATORS, call_name, find_atoms

ALIAS_CALLS = {"numpy.asarray", "numpy.asanyarray", "numpy.atleast_1d", "numpy.atleast_2d", "numpy.ascontiguousarray",
               "numpy.ravel", "numpy.reshape", "numpy.squeeze", "numpy.transpose"}
ALIAS_METHODS = {"reshape", "ravel", "view", "squeeze", "get", "setdefault", "values", "items", "flatten_view"}
ARRAY_ATTRS = {"positions", "direct", "inverse", "lengths", "angles", "labels", "elements", "atomic_numbers",
               "symmetry_operations", "properties", "translation", "rotation", "lattice", "reciprocal_lattice"}


def single_return(fn):
    body = [s for s in fn.body if not (isinstance(s, ast.Expr) and isinstance(s.value, ast.Constant))]
    if len(body) == 1 and isinstance(body[0], ast.Return) and body[0].value is not None:
        return body[0]
    return None


def property_hook(mod, cls, depth=2):
    """attr_hook: inline ``self.<prop>`` when <prop> is a single-return property of cls."""
    def hook(ev, base, attr, node):
        if base.key() != "self":
            return None
        fn = mod.funcs.get(f"{cls}.{attr}")
        if fn is None or not mod.is_property(fn):
            return None
        ret = single_return(fn)
        if ret is None:
            return None
        sub = Ev([ret], mod.ctx, params={"self": P.name("self")}, attr_hook=hook if depth > 1 else None)
        sub.run()
        return sub.returns[0].value
    return hook


def is_shallow_copy_of(term: P, self_name="self") -> bool:
    a = term.as_atom()
    if a and a[0] == "obj":
        a = a[3].as_atom()
    return bool(a and a[0] == "call" and call_name(a) in ("copy.copy",) and len(a[2]) == 1 and a[2][0].key() == self_name)


def alias_path(term: P, self_name="self"):
    """If term may alias (a part of) an attribute of self return that attribute's name, else None."""
    a = term.as_atom()
    if not a:
        return None
    tag = a[0]
    if tag == "attr":
        if a[1].key() == self_name or is_shallow_copy_of(a[1], self_name):
            return a[2]                 # copy.copy(self).x is the very object self.x
        return alias_path(a[1], self_name)
    if tag == "sub":
        fancy = False
        for i in a[2]:
            ia = i.as_atom()
            if i.const_value() is not None or (ia and ia[0] in ("slice", "str", "const")):
                continue
            fancy = True
        if fancy:
            # element of a list/dict of objects is still an alias of the container's payload
            root = alias_path(a[1], self_name)
            return root if root is not None and _is_container(a[1]) else None
        return alias_path(a[1], self_name)
    if tag == "T":
        return alias_path(a[1], self_name)
    if tag == "obj":
        return alias_path(a[3], self_name)
    if tag in ("maybe", "lc") and len(a) > 3 and isinstance(a[3], P):
        return alias_path(a[3], self_name)
    if tag == "ite":
        return alias_path(a[2], self_name) or alias_path(a[3], self_name)
    if tag == "call":
        cn = call_name(a)
        if cn in ALIAS_CALLS and a[2]:
            return alias_path(a[2][0], self_name)
        if cn == "getattr" and len(a[2]) >= 2 and a[2][0].key() == self_name:
            s = a[2][1].as_atom()
            return s[1] if s and s[0] == "str" else None
        if cn and cn.startswith(".") and cn[1:] in ALIAS_METHODS:
            c = a[1].as_atom()
            return alias_path(c[1], self_name)
        # a method of a typed attribute (self.space_group.m(x)) whose result may be (a view of) one of its arguments
        for hook in _RET_ALIAS:
            for t in hook(a) or ():
                r = alias_path(t, self_name)
                if r is not None:
                    return r
        return None
    return None


_RET_ALIAS: list = []


def _is_container(term: P) -> bool:
    k = term.key()
    return k.endswith("symmetry_operations") or k.endswith("_molecules')") or "molecules()" in k


class Write:
    def __init__(self, attr, how, node, via=None):
        self.attr, self.how, self.node, self.via = attr, how, node, via

    def __repr__(self):
        return f"{self.attr}: {self.how}" + (f" via {self.via}" if self.via else "")


class Effects:
    """Per-class method write summaries with transitive propagation through self-calls and typed attributes."""

    def __init__(self, repo, attr_types=None):
        self.repo = repo
        self.attr_types = attr_types or {}     # (class) -> {attr: (rel, class)}
        self._memo = {}
        self._stack = set()
        self._fn_memo = {}
        self._ret_memo = {}
        _RET_ALIAS[:] = [self._returned_args]

    def _returned_args(self, call_atom):
        """Arguments of ``self.<typed attr>.m(args)`` that the method's result may alias (it returns the argument, or asarray of it...)."""
        c = call_atom[1].as_atom() if isinstance(call_atom[1], P) else None
        if not (c and c[0] == "attr"):
            return ()
        recv = c[1].as_atom()
        if not (recv and recv[0] == "attr" and recv[1].key() == "self"):
            return ()
        target = None
        for types in self.attr_types.values():
            if recv[2] in types:
                target = types[recv[2]]
        if target is None:
            return ()
        trel, tcls = target
        key = (trel, tcls, c[2])
        if key not in self._ret_memo:
            idx = set()
            mod = self.repo.module(trel)
            fn = mod.funcs.get(f"{tcls}.{c[2]}")
            if fn is not None:
                ev = Ev(fn, mod.ctx).run()
                params = list(ev.param_names)
                for r in ev.returns:
                    if r.value is None:
                        continue
                    for nm in alias_roots(r.value, set(params[1:])):
                        idx.add(params.index(nm) - 1)
            self._ret_memo[key] = idx
        return tuple(call_atom[2][i] for i in self._ret_memo[key] if i < len(call_atom[2]))

    def ev_of(self, rel, cls, meth):
        mod = self.repo.module(rel)
        fn = mod.funcs.get(f"{cls}.{meth}")
        if fn is None:
            return None, None
        ev = Ev(fn, mod.ctx, attr_hook=property_hook(mod, cls)).run()
        return mod, ev

    def method_writes(self, rel, cls, meth):
        """list[Write]: attributes of self that ``cls.meth`` may write."""
        key = (rel, cls, meth)
        if key in self._memo:
            return self._memo[key]
        if key in self._stack:
            return []
        self._stack.add(key)
        out = []
        mod, ev = self.ev_of(rel, cls, meth)
        if ev is not None:
            out = self._writes_in(ev, rel, cls, mod)
        self._stack.discard(key)
        self._memo[key] = out
        return out

    def _writes_in(self, ev, rel, cls, mod):
        out = []
        self_name = ev.param_names[0] if ev.param_names else "self"
        if self_name != "self":
            return out
        types = self.attr_types.get(cls, {})
        for e in ev.events:
            if e.kind in ("store", "aug", "delete"):
                t = e.target.as_atom()
                if not t:
                    continue
                if t[0] == "attr" and t[1].key() == "self":
                    out.append(Write(t[2], (f"in-place {e.op or ''}= on self." if e.kind == "aug" else "rebinds self.") + t[2], e.node))
                    continue
                if t[0] == "attr" and is_shallow_copy_of(t[1]):
                    if e.kind == "aug":     # copy.copy(self).x += v works in place on the array shared with self
                        out.append(Write(t[2], f"in-place {e.op or ''} on {e.target} (shared with self.{t[2]})", e.node))
                    continue                # a plain store rebinds the copy's attribute only
                base = t[1] if t[0] in ("attr", "sub") else None
                if base is not None:
                    root = alias_path(base)
                    if root is not None:
                        out.append(Write(root, f"stores into {e.target}", e.node))
            elif e.kind == "assign" and e.extra.get("aug") and e.extra.get("old") is not None:
                old = e.extra["old"]
                root = alias_path(old)
                if root is not None and _arrayish(old):
                    out.append(Write(root, f"in-place {e.extra['aug']} on {old}", e.node))
            elif e.kind == "call":
                a = e.value.as_atom()
                c = e.target.as_atom() if e.target is not None else None
                if c and c[0] == "attr":
                    recv, m = c[1], c[2]
                    if recv.key() == "self":
                        for w in self.method_writes(rel, cls, m):
                            out.append(Write(w.attr, w.how, e.node, via=f"self.{m}()"))
                        continue
                    if is_shallow_copy_of(recv):
                        # a method run on a shallow copy works on the arrays it shares with self
                        for w in self.method_writes(rel, cls, m):
                            if not w.how.startswith("rebinds"):
                                out.append(Write(w.attr, w.how + " (on a shallow copy sharing its arrays with self)", e.node, via=f"copy.copy(self).{m}()"))
                        continue
                    root = alias_path(recv)
                    if root is not None:
                        if m in MUTATORS:
                            out.append(Write(root, f"calls {recv}.{m}()", e.node))
                        else:
                            ra = recv.as_atom()
                            # typed attribute: self.A.m()
                            if ra and ra[0] == "attr" and ra[1].key() == "self" and ra[2] in types:
                                trel, tcls = types[ra[2]]
                                if self.method_writes(trel, tcls, m):
                                    out.append(Write(root, f"calls {recv}.{m}() which modifies its object", e.node))
                    # out= keyword aliasing state
                for k, v in e.extra.get("kwargs", ()):
                    if k == "out":
                        root = alias_path(v)
                        if root is not None:
                            out.append(Write(root, f"out={v}", e.node))
                # function call mutating an argument that aliases state
                cn = call_name(a) if a else None
                if cn and not cn.startswith("."):
                    mut = self.func_param_writes(cn, mod)
                    for i, arg in enumerate(e.extra.get("args", ())):
                        if i in mut:
                            root = alias_path(arg)
                            if root is not None:
                                out.append(Write(root, f"{cn}() modifies its argument {i} = {arg}", e.node))
                    if cn in ("setattr", "delattr") and e.extra["args"] and e.extra["args"][0].key() == "self":
                        s = e.extra["args"][1].as_atom() if len(e.extra["args"]) > 1 else None
                        if s and s[0] == "str":
                            out.append(Write(s[1], f"{cn}(self, {s[1]!r})", e.node))
        return out

    def func_param_writes(self, full, mod):
        """set of positional indices of parameters that a chmpy module-level function may modify in place."""
        if full in self._fn_memo:
            return self._fn_memo[full]
        self._fn_memo[full] = set()
        target = None
        if full.startswith("chmpy"):
            target = self.repo.resolve_symbol(full)
        elif full in mod.funcs:
            target = (mod, full)
        if not target or not target[1] or target[1] not in target[0].funcs:
            return set()
        tmod, qual = target
        fn = tmod.funcs[qual]
        ev = Ev(fn, tmod.ctx).run()
        res = set()
        for idx, p in enumerate(ev.param_names):
            pk = P.name(p).key()
            for e in ev.events:
                if e.kind in ("store", "aug"):
                    t = e.target.as_atom()
                    if t and t[0] in ("attr", "sub") and _rooted_at(t[1], pk):
                        res.add(idx)
                elif e.kind == "call" and e.target is not None:
                    c = e.target.as_atom()
                    if c and c[0] == "attr" and c[2] in MUTATORS and _rooted_at(c[1], pk):
                        res.add(idx)
                elif e.kind == "assign" and e.extra.get("aug") and e.extra.get("old") is not None and e.extra["old"].key() == pk:
                    pass
        self._fn_memo[full] = res
        return res


def _rooted_at(term: P, key: str) -> bool:
    if term.key() == key:
        return True
    a = term.as_atom()
    if a and a[0] in ("attr",):
        return _rooted_at(a[1], key)
    if a and a[0] == "sub":
        return _rooted_at(a[1], key)
    return False


def _arrayish(term: P) -> bool:
    a = term.as_atom()
    while a and a[0] in ("sub", "T"):
        a = a[1].as_atom()
    return bool(a and a[0] == "attr" and a[2] in ARRAY_ATTRS)


# ------------------------------------------------------------------------------------------------ parameter mutation
_ALIAS_FUNCS = {"numpy.asarray", "numpy.asanyarray", "numpy.ascontiguousarray", "numpy.atleast_1d", "numpy.atleast_2d", "numpy.atleast_3d",
                "numpy.ravel", "numpy.reshape", "numpy.squeeze", "numpy.transpose", "numpy.swapaxes", "numpy.moveaxis", "numpy.rollaxis",
                "numpy.real", "numpy.imag", "numpy.broadcast_to", "memoryview", "iter", "reversed"}
_ALIAS_METHODS = {"get", "reshape", "ravel", "view", "squeeze", "transpose", "swapaxes", "values", "items", "setdefault", "__getitem__"}
_INPLACE_METHODS = {"sort", "fill", "resize", "put", "itemset", "partition", "byteswap", "append", "extend", "insert", "remove", "pop", "clear",
                    "update", "reverse", "popitem", "add", "discard", "setfield"}


def alias_roots(term: P, params, extra=frozenset()) -> set:
    """Parameter names that ``term`` may be (a view of / an element of)."""
    a = term.as_atom()
    if a is None:
        return set()
    tag = a[0]
    if tag == "name":
        return {a[1]} if a[1] in params else set()
    if tag in ("sub", "attr", "T"):
        return alias_roots(a[1], params, extra)
    if tag == "obj":
        return alias_roots(a[3], params, extra)
    if tag in ("maybe", "lc") and len(a) > 3 and isinstance(a[3], P):
        return alias_roots(a[3], params, extra)       # value from before a try block / a loop (the rebinding may not have happened)
    if tag == "ite":
        return alias_roots(a[2], params, extra) | alias_roots(a[3], params, extra)
    if tag == "comp":
        return alias_roots(a[3] if a[1] == "DictComp" else a[2], params, extra)
    if tag == "tuple":
        out = set()
        for x in a[1]:
            out |= alias_roots(x, params, extra)
        return out
    if tag == "dict":
        out = set()
        for kv in a[1]:
            out |= alias_roots(kv[-1], params, extra)
        return out
    if tag == "call":
        cn = call_name(a) or ""
        if cn in _ALIAS_FUNCS and a[2]:
            return alias_roots(a[2][0], params, extra)
        if cn.startswith(".") and (cn[1:] in _ALIAS_METHODS or cn[1:] in extra):
            return alias_roots(a[1].as_atom()[1], params, extra)
    return set()


def _fresh_container(term: P) -> bool:
    """A dict / list built in this function (literal, comprehension, dict(...) / list(...) call): assigning to one of its slots changes
    the container, not the objects it was built from."""
    a = term.as_atom()
    if not (a and a[0] == "obj"):
        return False
    i = a[3].as_atom()
    if not i:
        return False
    if i[0] in ("dict", "tuple", "comp"):
        return True
    return i[0] == "call" and (call_name(i) or "") in ("dict", "list", "set", "collections.OrderedDict", "collections.defaultdict")


def param_mutations(repo, mod, qual, depth=0, _seen=None, extra=frozenset()):
    """{param name: [description]} : parameters of a function that it may modify in place (directly, through views obtained
    with asarray/reshape/get/slicing, through ``out=`` arguments, in-place methods, or by handing them to a function that does)."""
    _seen = _seen if _seen is not None else set()
    if (mod.rel, qual) in _seen or depth > 3 or qual not in mod.funcs:
        return {}
    _seen.add((mod.rel, qual))
    ev = Ev(mod.funcs[qual], mod.ctx).run()
    fa = mod.funcs[qual].args
    # **kwargs / *args are fresh containers of every call: popping from them changes nothing of the caller's
    params = set(ev.param_names) - {x.arg for x in (fa.kwarg, fa.vararg) if x is not None}
    out = {}

    def hit(roots, what, e):
        for r in roots:
            out.setdefault(r, []).append(f"line {getattr(e.node, 'lineno', '?')}: {what}")
    for e in ev.events:
        if e.kind in ("store", "aug"):
            t = e.target.as_atom()
            if t and t[0] in ("sub", "attr"):
                if t[0] == "sub" and _fresh_container(t[1]):
                    continue        # d = dict(a=x); d["k"] = v  puts a key into a container made here; x itself is not touched
                hit(alias_roots(t[1], params, extra), f"writes into {str(e.target)[:60]}", e)
        elif e.kind == "assign" and e.extra.get("aug") and e.extra.get("old") is not None:
            old = e.extra["old"]
            oa = old.as_atom()
            if oa and oa[0] in ("call", "sub", "attr", "obj", "ite"):   # an array view or one of two containers, not a plain scalar parameter
                hit(alias_roots(old, params, extra), f"in-place {e.extra['aug']} on {str(old)[:60]}", e)
        elif e.kind == "call":
            a = e.value.as_atom()
            if not a or a[0] != "call":
                continue
            kw = dict(a[3]) if len(a) > 3 and a[3] else {}
            if "out" in kw:
                hit(alias_roots(kw["out"], params, extra), f"out={str(kw['out'])[:50]} in {call_name(a)}", e)
            c = e.target.as_atom() if e.target is not None else None
            if c and c[0] == "attr" and c[2] in _INPLACE_METHODS:
                hit(alias_roots(c[1], params, extra), f"in-place method .{c[2]}()", e)
            # interprocedural
            callee = a[1].as_atom()
            tgt = None
            if callee and callee[0] == "name":
                nm = callee[1]
                if "." not in nm and nm in mod.funcs:
                    tgt = (mod, nm)
                elif nm.startswith("chmpy.") or mod.ctx.alias.get(nm, "").startswith("chmpy."):
                    full = nm if nm.startswith("chmpy.") else mod.ctx.alias[nm]
                    r = repo.resolve_symbol(full) if repo is not None else None
                    if r and r[1] in r[0].funcs:
                        tgt = r
            if tgt is not None:
                sub = param_mutations(repo, tgt[0], tgt[1], depth + 1, _seen, extra)
                if sub:
                    fn = tgt[0].funcs[tgt[1]]
                    pn = [x.arg for x in fn.args.args]
                    for i, arg in enumerate(a[2]):
                        if i < len(pn) and pn[i] in sub:
                            hit(alias_roots(arg, params, extra), f"passed to {tgt[1]}() which modifies its argument '{pn[i]}' ({sub[pn[i]][0]})", e)
                    for k, v in kw.items():
                        if k in sub:
                            hit(alias_roots(v, params, extra), f"passed as {k}= to {tgt[1]}() which modifies it", e)
    return out


def stored_param_aliases(mod, cls, meth="__init__"):
    """{attribute: (parameter, node)} : attributes a method binds to (a view of) one of its array-like parameters
    (``self.x = p`` / ``np.asarray(p)`` / ``p.reshape(..)``; ``np.array(p)`` and ``p.copy()`` make own copies)."""
    fn = mod.funcs.get(f"{cls}.{meth}")
    if fn is None:
        return {}
    ev = Ev(fn, mod.ctx).run()
    params = set(ev.param_names[1:])
    out = {}
    for e in ev.events:
        if e.kind != "store":
            continue
        t = e.target.as_atom()
        if not (t and t[0] == "attr" and t[1].key() == "self"):
            continue
        roots = alias_roots(e.value, params)
        if roots:
            out[t[2]] = (sorted(roots)[0], e.node)
        else:
            out.pop(t[2], None)         # rebound to an own object later in the constructor
    return out


def inplace_attr_writes(mod, cls, attrs):
    """[(method, attribute, description, node)] : in-place modifications of the payload of self.<attr> anywhere in the class
    (augmented assignment on the attribute, stores into it, out=, in-place methods)."""
    out = []
    for fn in mod.methods(cls):
        ev = Ev(fn, mod.ctx).run()
        for e in ev.events:
            if e.kind in ("aug", "store"):
                t = e.target.as_atom()
                if not t:
                    continue
                if e.kind == "aug" and t[0] == "attr" and t[1].key() == "self" and t[2] in attrs:
                    out.append((fn.name, t[2], f"line {getattr(e.node, 'lineno', '?')}: self.{t[2]} {e.op or ''}= ... (in place)", e.node))
                elif t[0] == "sub":
                    root = alias_path(t[1])
                    if root in attrs:
                        out.append((fn.name, root, f"line {getattr(e.node, 'lineno', '?')}: stores into {str(e.target)[:50]}", e.node))
            elif e.kind == "call":
                a = e.value.as_atom()
                if not a or a[0] != "call":
                    continue
                kw = dict(a[3]) if len(a) > 3 and a[3] else {}
                if "out" in kw and alias_path(kw["out"]) in attrs:
                    out.append((fn.name, alias_path(kw["out"]), f"line {getattr(e.node, 'lineno', '?')}: out={str(kw['out'])[:40]}", e.node))
                c = e.target.as_atom() if e.target is not None else None
                if c and c[0] == "attr" and c[2] in _INPLACE_METHODS - {"append", "extend", "update", "add"} and alias_path(c[1]) in attrs:
                    out.append((fn.name, alias_path(c[1]), f"line {getattr(e.node, 'lineno', '?')}: .{c[2]}() in place", e.node))
    return out


def ctor_closure(mod, cls):
    """Methods of the class that run during construction: __init__ and everything it reaches through self.m() calls."""
    names = {f.name for f in mod.methods(cls)}
    todo, seen = ["__init__"], set()
    while todo:
        m = todo.pop()
        if m in seen or f"{cls}.{m}" not in mod.funcs:
            continue
        seen.add(m)
        for n in ast.walk(mod.funcs[f"{cls}.{m}"]):
            if isinstance(n, ast.Call) and isinstance(n.func, ast.Attribute) and isinstance(n.func.value, ast.Name) and n.func.value.id == "self" \
                    and n.func.attr in names:
                todo.append(n.func.attr)
    return seen


_FRESH = {"numpy.empty", "numpy.zeros", "numpy.ones", "numpy.full", "numpy.empty_like", "numpy.zeros_like", "numpy.ones_like", "numpy.full_like",
          "numpy.array", "numpy.copy", ".copy", "numpy.arange", "numpy.linspace", "numpy.eye", "numpy.identity", "numpy.ascontiguousarray"}


def inplace_buffer_rebinding(mod, cls):
    """(buffers, offences): attributes of cls that some method fills in place through an ``out=`` / ``result=`` argument or a
    whole-slice store, and the statements that bind such an attribute to something that is not a fresh allocation."""
    buffers = {}
    binds = []
    for fn in mod.methods(cls):
        ev = Ev(fn, mod.ctx).run()
        for e in ev.events:
            if e.kind == "call":
                a = e.value.as_atom()
                kw = dict(a[3]) if a and a[0] == "call" and len(a) > 3 and a[3] else {}
                for k in ("out", "result"):
                    v = kw.get(k)
                    va = v.as_atom() if v is not None else None
                    if va and va[0] == "attr" and va[1].key() == "self":
                        buffers.setdefault(va[2], f"{fn.name}: {k}=self.{va[2]}")
            elif e.kind == "store":
                t = e.target.as_atom()
                if t and t[0] == "attr" and t[1].key() == "self":
                    binds.append((fn.name, t[2], e))
    def is_fresh(v):
        va = v.as_atom()
        if va and va[0] == "obj":
            va = va[3].as_atom()
        return bool(va and va[0] == "call" and (call_name(va) in _FRESH)) or v.key() == "None"
    # a work buffer is one the class allocates itself somewhere (an attribute that only ever wraps the caller's array, like the
    # positions of a molecule moved by explicit in-place methods, is the caller's by design)
    owned = {attr for _, attr, e in binds if attr in buffers and is_fresh(e.value) and e.value.key() != "None"}
    buffers = {k: v for k, v in buffers.items() if k in owned}
    off = []
    for meth, attr, e in binds:
        if attr in buffers and not is_fresh(e.value):
            off.append((meth, attr, e.node, str(e.value)[:100]))
    return buffers, off


def stale_buffer_flags(mod, cls):
    """Validity keys of work buffers.  `if self.K != key: fill(out=self.B); self.K = key` makes K the statement "B holds the values for
    key"; every other method that fills or stores into B must reset K, otherwise a later call with the remembered key reads what the
    other method left there.  -> [(K, B, method with the keyed fill, offending method, node)]"""
    fills = {}          # method -> {buffer: [(event, guards)]}
    keysets = {}        # method -> {attr stored}
    evs = {}
    for fn in mod.methods(cls):
        ev = Ev(fn, mod.ctx).run()
        evs[fn.name] = ev
        for e in ev.events:
            if e.kind == "call":
                a = e.value.as_atom()
                kw = dict(a[3]) if a and a[0] == "call" and len(a) > 3 and a[3] else {}
                for k in ("out", "result"):
                    v = kw.get(k)
                    va = v.as_atom() if v is not None else None
                    if va and va[0] == "attr" and va[1].key() == "self":
                        fills.setdefault(fn.name, {}).setdefault(va[2], []).append(e)
            elif e.kind in ("store", "aug"):
                t = e.target.as_atom()
                if t and t[0] == "attr" and t[1].key() == "self":
                    keysets.setdefault(fn.name, set()).add(t[2])
                elif t and t[0] == "sub" and t[1].as_atom() and t[1].as_atom()[0] == "attr" and t[1].as_atom()[1].key() == "self":
                    fills.setdefault(fn.name, {}).setdefault(t[1].as_atom()[2], []).append(e)
    keyed = {}          # (K, B) -> method
    for meth, bufs in fills.items():
        for B, events in bufs.items():
            for e in events:
                for c, pol in e.guards:
                    for at in find_atoms(c, lambda t: t[0] == "attr" and t[1].key() == "self" and t[2] != B):
                        K = at[2]
                        # the same method stores the key next to the fill
                        if K in keysets.get(meth, ()) and any(x.kind == "store" and x.target.key() == f"self.{K}" and x.guards[:len(e.guards)] == e.guards
                                                               for x in evs[meth].events):
                            keyed[(K, B)] = meth
    out = []
    for (K, B), meth in keyed.items():
        for other, bufs in fills.items():
            if other == "__init__" or B not in bufs:
                continue
            unkeyed = [e for e in bufs[B] if not any(find_atoms(c, lambda t: t[0] == "attr" and t[1].key() == "self" and t[2] == K) for c, _ in e.guards)]
            if unkeyed and K not in keysets.get(other, ()):
                out.append((K, B, meth, other, unkeyed[0].node))
    return out
