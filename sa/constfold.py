"""Constant folding of small integer index / weight vectors defined at module level.

A vectorised rewrite replaces an explicit loop over digits by a product with a constant vector (``3 ** np.arange(9)``,
``np.repeat((2, 1, 0), 3)`` ...).  To compare such code with the loop it replaced, the constant vectors are evaluated here from
their defining expressions - literals, arange, array, repeat, tile, divmod, elementwise arithmetic, reversal - without
importing or running anything of the repository.  Anything else is "not constant" (None).
"""
from __future__ import annotations

import ast


class NotConst(Exception):
    pass


def _vec(x):
    return x if isinstance(x, list) else None


def _ew(op, a, b):
    f = {ast.Add: lambda x, y: x + y, ast.Sub: lambda x, y: x - y, ast.Mult: lambda x, y: x * y, ast.Pow: lambda x, y: x ** y,
         ast.FloorDiv: lambda x, y: x // y, ast.Mod: lambda x, y: x % y}.get(type(op))
    if f is None:
        raise NotConst("operator")
    if isinstance(a, list) and isinstance(b, list):
        if len(a) != len(b):
            raise NotConst("shape")
        return [f(x, y) for x, y in zip(a, b)]
    if isinstance(a, list):
        return [f(x, b) for x in a]
    if isinstance(b, list):
        return [f(a, y) for y in b]
    return f(a, b)


def fold(node, env):
    if isinstance(node, ast.Constant) and isinstance(node.value, int) and not isinstance(node.value, bool):
        return node.value
    if isinstance(node, (ast.Tuple, ast.List)):
        vals = [fold(e, env) for e in node.elts]
        if all(isinstance(v, int) for v in vals):
            return vals
        raise NotConst("nested")
    if isinstance(node, ast.Name):
        if node.id in env:
            return env[node.id]
        raise NotConst(node.id)
    if isinstance(node, ast.UnaryOp) and isinstance(node.op, ast.USub):
        v = fold(node.operand, env)
        return [-x for x in v] if isinstance(v, list) else -v
    if isinstance(node, ast.BinOp):
        return _ew(node.op, fold(node.left, env), fold(node.right, env))
    if isinstance(node, ast.Subscript) and isinstance(node.slice, ast.Slice) and node.slice.lower is None and node.slice.upper is None \
            and isinstance(node.slice.step, ast.UnaryOp) and isinstance(node.slice.step.operand, ast.Constant) and node.slice.step.operand.value == 1:
        v = fold(node.value, env)
        return list(reversed(v))
    if isinstance(node, ast.Call):
        fn = ast.unparse(node.func)
        args = [fold(a, env) for a in node.args]
        if any(k.arg not in ("dtype",) for k in node.keywords):
            raise NotConst("keyword")
        if fn in ("np.arange", "numpy.arange", "range") and all(isinstance(a, int) for a in args) and 1 <= len(args) <= 3:
            return list(range(*args))
        if fn in ("np.array", "numpy.array", "np.asarray", "numpy.asarray", "tuple", "list") and len(args) == 1 and isinstance(args[0], list):
            return list(args[0])
        if fn in ("np.repeat", "numpy.repeat") and len(args) == 2 and isinstance(args[0], list) and isinstance(args[1], int):
            return [x for x in args[0] for _ in range(args[1])]
        if fn in ("np.tile", "numpy.tile") and len(args) == 2 and isinstance(args[0], list) and isinstance(args[1], int):
            return list(args[0]) * args[1]
        if fn in ("np.divmod", "numpy.divmod", "divmod") and len(args) == 2 and isinstance(args[0], list) and isinstance(args[1], int):
            return ("pair", [x // args[1] for x in args[0]], [x % args[1] for x in args[0]])
        if fn in ("np.flip", "numpy.flip") and len(args) == 1 and isinstance(args[0], list):
            return list(reversed(args[0]))
    raise NotConst(type(node).__name__)


def module_constants(tree):
    """{name: list of ints | int} for the module-level names that fold."""
    env = {}
    for st in tree.body:
        if not isinstance(st, ast.Assign) or len(st.targets) != 1:
            continue
        t = st.targets[0]
        try:
            v = fold(st.value, env)
        except (NotConst, ZeroDivisionError, OverflowError, ValueError):
            continue
        if isinstance(t, ast.Name) and not (isinstance(v, tuple)):
            env[t.id] = v
        elif isinstance(t, ast.Tuple) and isinstance(v, tuple) and v[0] == "pair" and len(t.elts) == 2 and all(isinstance(e, ast.Name) for e in t.elts):
            env[t.elts[0].id], env[t.elts[1].id] = v[1], v[2]
    return env
