"""Cython-subset -> Python source rewriter (line preserving) with a C-type side table.

Only the subset used by chmpy's seven .pyx files is handled (DESIGN.md 2.2).
The output is fed to ``ast.parse``; ``validate`` cross-checks that no function
header was lost.
"""
from __future__ import annotations

import ast
import re

from .core import AnalysisError

_CTYPE_WORDS = {"int", "long", "double", "float", "unsigned", "signed", "char", "short", "void", "const", "complex",
                "size_t", "Py_ssize_t", "bint", "object", "uint32_t", "uint64_t", "int32_t", "int64_t", "uint8_t",
                "ssize_t", "str", "list", "dict", "tuple", "bytes"}

_CAST = re.compile(r"<\s*(?:(?:const|unsigned|signed)\s+)*(?:int|long|double|float|char|short|size_t|Py_ssize_t|"
                   r"uint32_t|uint64_t|int32_t|int64_t|uint8_t|object|bint|void|unsigned|signed)(?:\s+(?:int|long|complex|char))*\s*\**\s*>")
_ULIT = re.compile(r"\b(\d+)[uU][lL]{0,2}\b")
_SIZEOF = re.compile(r"sizeof\(\s*((?:(?:unsigned|signed|const)\s+)*[A-Za-z_][\w]*(?:\s+[A-Za-z_]\w*)*\s*\**)\s*\)")
_HEADER = re.compile(r"^(\s*)(cdef|cpdef|def|async\s+def)\b(.*)$")
_IDENT = re.compile(r"[A-Za-z_]\w*")


def _split_top(s, sep=","):
    out, depth, cur = [], 0, []
    for ch in s:
        if ch in "([{":
            depth += 1
        elif ch in ")]}":
            depth -= 1
        if ch == sep and depth == 0:
            out.append("".join(cur))
            cur = []
        else:
            cur.append(ch)
    out.append("".join(cur))
    return out


def _strip_comment(line):
    out = []
    q = None
    i = 0
    while i < len(line):
        ch = line[i]
        if q:
            out.append(ch)
            if ch == "\\" and i + 1 < len(line):
                out.append(line[i + 1])
                i += 2
                continue
            if ch == q:
                q = None
        else:
            if ch in "\"'":
                q = ch
                out.append(ch)
            elif ch == "#":
                break
            else:
                out.append(ch)
        i += 1
    return "".join(out), line[len("".join(out)):]


def _declarator(decl):
    """'const double complex[:] fft = x' -> (name, ctype, default/init or None, carray_len or None)."""
    init = None
    depth = 0
    for k, ch in enumerate(decl):
        if ch in "([{":
            depth += 1
        elif ch in ")]}":
            depth -= 1
        elif ch == "=" and depth == 0 and decl[k + 1:k + 2] != "=" and (k == 0 or decl[k - 1] not in "=!<>"):
            init = decl[k + 1:].strip()
            decl = decl[:k]
            break
    decl = re.sub(r"\s+(not\s+None|or\s+None)\s*$", "", decl)
    decl = decl.strip()
    carr = None
    m = re.match(r"^(.*?)([A-Za-z_]\w*)\s*\[\s*(\w+)\s*\]\s*$", decl)
    if m and m.group(1).strip() and not m.group(1).rstrip().endswith((".", ",", "[")) and \
            all(w in _CTYPE_WORDS for w in _IDENT.findall(m.group(1))):
        return m.group(2), m.group(1).strip() + "[]", init, m.group(3)
    m = re.match(r"^(.*?)([A-Za-z_]\w*)\s*$", decl)
    if not m:
        return None, decl, init, None
    ctype = m.group(1).strip()
    name = m.group(2)
    if not ctype and name in _CTYPE_WORDS:
        return None, name, init, None
    return name, ctype, init, carr


def _rewrite_params(text, types):
    """text between the outer parentheses of a header (may contain newlines)."""
    params = _split_top(text)
    out = []
    for p in params:
        if not p.strip():
            out.append(p)
            continue
        lead = re.match(r"^\s*", p).group(0)
        trail = re.search(r"\s*$", p).group(0)
        core = p.strip()
        if core.startswith("*") or core in ("self", "cls"):
            out.append(p)
            continue
        name, ctype, default, carr = _declarator(core)
        if name is None:
            out.append(p)
            continue
        if ctype:
            types[name] = ctype
        nl = "\n" * core.count("\n")
        out.append(f"{lead}{name}{'=' + default if default is not None else ''}{nl}{trail}")
    return ",".join(out)


def convert(text: str):
    """-> (python source with identical line numbering, {qualname: {var: ctype}})"""
    lines = text.split("\n")
    out = list(lines)
    ctypes: dict = {}
    scope_stack = []   # (indent, name, kind)
    i = 0
    n = len(lines)

    def cur_scope():
        return ".".join(s[1] for s in scope_stack)

    while i < n:
        raw = lines[i]
        code, comment = _strip_comment(raw)
        stripped = code.strip()
        if not stripped:
            i += 1
            continue
        indent = len(code) - len(code.lstrip())
        while scope_stack and indent <= scope_stack[-1][0]:
            scope_stack.pop()
        # generic token rewrites
        code = _ULIT.sub(r"\1", code)
        code = _SIZEOF.sub(lambda m: 'sizeof("' + " ".join(m.group(1).split()) + '")', code)
        code = _CAST.sub("", code)
        stripped = code.strip()
        ind = code[:indent]

        if re.match(r"^(from\s+[\w\.]+\s+)?cimport\b", stripped):
            code = ind + re.sub(r"\bcimport\b", "import", stripped)
            out[i] = code + comment
            i += 1
            continue
        if stripped.startswith(("ctypedef ", "cdef extern")):
            out[i] = ind + "pass" + comment
            if stripped.endswith(":"):
                # skip the block
                j = i + 1
                while j < n and (not lines[j].strip() or len(lines[j]) - len(lines[j].lstrip()) > indent):
                    out[j] = ""
                    j += 1
                i = j
                continue
            i += 1
            continue
        m = re.match(r"^(cdef|cpdef)\s+class\s+(\w+)(.*)$", stripped)
        if m:
            out[i] = f"{ind}class {m.group(2)}{m.group(3)}" + comment
            scope_stack.append((indent, m.group(2), "class"))
            i += 1
            continue
        m = re.match(r"^class\s+(\w+)", stripped)
        if m:
            scope_stack.append((indent, m.group(1), "class"))
            out[i] = code + comment
            i += 1
            continue

        hm = _HEADER.match(code)
        is_header = False
        if hm and "(" in stripped:
            kw = hm.group(2)
            rest = hm.group(3)
            # a header has NAME( ... ) [noexcept] [nogil] [except ...] :   -- a declaration has no ':' at depth 0 end
            # collect until parentheses balance
            j = i
            buf = code
            depth = buf.count("(") - buf.count(")")
            while depth > 0 and j + 1 < n:
                j += 1
                c2, _ = _strip_comment(lines[j])
                c2 = _CAST.sub("", _ULIT.sub(r"\1", c2))
                buf += "\n" + c2
                depth = buf.count("(") - buf.count(")")
            close = _matching_close(buf, buf.index("("))
            tail = buf[close + 1:]
            tail_clean = re.sub(r"\b(noexcept|nogil|with\s+gil)\b", " ", tail)
            tail_clean = re.sub(r"\bexcept\s*(\*|\?\s*-?\w+|-?\w+)", " ", tail_clean)
            tail_clean = re.sub(r"->\s*[\w\.\[\], \"']+", " ", tail_clean) if kw == "def" else tail_clean
            if kw in ("cdef", "cpdef"):
                pre = buf[:buf.index("(")]
                mm = re.match(r"^(\s*)(cdef|cpdef)\s+(?:inline\s+|public\s+|api\s+)*(.*?)([A-Za-z_]\w*)\s*$", pre, re.S)
                if mm and tail_clean.lstrip().startswith(":") and "=" not in pre:
                    is_header = True
                    name = mm.group(4)
                    rettype = mm.group(3).strip()
            elif tail_clean.lstrip().startswith(":") or kw != "cdef":
                mm = re.match(r"^(\s*)((?:async\s+)?def)\s+([A-Za-z_]\w*)\s*$", buf[:buf.index("(")], re.S)
                if mm:
                    is_header = True
                    name = mm.group(3)
                    rettype = ""
            if is_header:
                qual = (cur_scope() + "." if scope_stack else "") + name
                types = ctypes.setdefault(qual, {})
                if rettype:
                    types["<return>"] = rettype
                params = _rewrite_params(buf[buf.index("(") + 1:close], types)
                after = tail_clean.lstrip()
                body_inline = after[1:].strip() if after.startswith(":") else ""
                newhead = f"{ind}def {name}({params}):" + (" " + body_inline if body_inline else "")
                newlines = newhead.split("\n")
                span = j - i + 1
                # keep the number of physical lines
                if len(newlines) < span:
                    newlines += [""] * (span - len(newlines))
                elif len(newlines) > span:
                    newlines = [" ".join(x.strip() for x in newlines)] + [""] * (span - 1)
                    newlines[0] = ind + newlines[0].strip()
                for k in range(span):
                    out[i + k] = newlines[k]
                scope_stack.append((indent, name, "func"))
                i = j + 1
                continue
        # cdef declarations (module, class or function level)
        m = re.match(r"^cdef\s+(.*)$", stripped)
        if m:
            body = m.group(1).rstrip()
            if body.endswith(":") and not body[:-1].strip():
                # 'cdef:' block: treat following indented lines as declarations
                out[i] = ind + "pass" + comment
                j = i + 1
                while j < n and (not lines[j].strip() or len(lines[j]) - len(lines[j].lstrip()) > indent):
                    if lines[j].strip():
                        c2, cm2 = _strip_comment(lines[j])
                        ind2 = c2[:len(c2) - len(c2.lstrip())]
                        out[j] = ind2[:len(ind)] + _decl_to_py(c2.strip(), ctypes, cur_scope()) + cm2
                    j += 1
                i = j
                continue
            out[i] = ind + _decl_to_py(body, ctypes, cur_scope()) + comment
            i += 1
            continue
        out[i] = code + comment
        i += 1
    return "\n".join(out), ctypes


def _matching_close(s, start):
    depth = 0
    for k in range(start, len(s)):
        if s[k] == "(":
            depth += 1
        elif s[k] == ")":
            depth -= 1
            if depth == 0:
                return k
    raise AnalysisError("unbalanced parentheses in a Cython header")


def _decl_to_py(body, ctypes, scope):
    """'double complex p, coeff' / 'int idx = 0' / 'double * factorial = [' -> python statement(s)."""
    body = re.sub(r"^(?:public|readonly|inline)\s+", "", body)
    types = ctypes.setdefault(scope or "<module>", {})
    decls = _split_top(body)
    # the type prefix belongs to the first declarator only
    first_name, ctype, init, carr = _declarator(decls[0])
    stmts = []
    if first_name is None:
        return "pass"
    base = ctype

    def one(name, ct, ini, ca):
        types[name] = ct
        if ini is not None:
            stmts.append(f"{name} = {ini}")
        elif ca is not None:
            stmts.append(f"{name} = __carray__({ca})")
    one(first_name, ctype, init, carr)
    for d in decls[1:]:
        d = d.strip()
        if not d:
            continue
        ptr = d.startswith("*")
        d2 = d.lstrip("* ")
        nm, _ct, ini, ca = _declarator(d2)
        m = re.match(r"^([A-Za-z_]\w*)\s*\[\s*(\w+)\s*\]", d2)
        if m:
            nm, ca = m.group(1), m.group(2)
        if nm is None:
            continue
        one(nm, base + ("*" if ptr else ""), ini, ca)
    return "; ".join(stmts) if stmts else "pass"


def count_headers(text: str) -> int:
    n = 0
    for raw in text.split("\n"):
        code, _ = _strip_comment(raw)
        s = code.strip()
        if re.match(r"^(async\s+)?def\s+\w+\s*\(", s):
            n += 1
        elif re.match(r"^(cdef|cpdef)\s+(?!class\b)[^=]*?\b\w+\s*\(", s) and not re.match(r"^(cdef|cpdef)\s+[^(]*=", s):
            n += 1
    return n


def validate(text, tree, rel):
    want = count_headers(text)
    got = sum(1 for n in ast.walk(tree) if isinstance(n, (ast.FunctionDef, ast.AsyncFunctionDef)))
    if want != got:
        raise AnalysisError(f"pyx front end lost function headers in {rel}: token scan {want}, parsed {got}")
