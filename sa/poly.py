"""Exact polynomial / rational-function normal form over opaque atoms.

A value ``P`` is a quotient ``n/d`` of multivariate polynomials with
``Fraction`` coefficients.  Atoms are arbitrary hashable python tuples (they
may contain other ``P`` values); they are ordered by a cached canonical string.

This is the arithmetic layer of the symbolic evaluator (sa/symex.py): a global
value numbering with algebraic simplification, no solver involved.
"""
from __future__ import annotations

from fractions import Fraction
from functools import lru_cache

_KEY_CACHE: dict = {}


def atom_key(a) -> str:
    """Canonical string of an atom (used for ordering and printing)."""
    try:
        return _KEY_CACHE[a]
    except KeyError:
        pass
    except TypeError:
        return _fmt(a)
    s = _fmt(a)
    _KEY_CACHE[a] = s
    return s


def _fmt(a) -> str:
    if isinstance(a, P):
        return a.key()
    if isinstance(a, tuple):
        if len(a) and isinstance(a[0], str):
            tag = a[0]
            if tag == "name":
                return str(a[1])
            if tag == "lv":
                return f"{a[1]}#{a[2]}"
            if tag == "attr":
                return f"{_paren(a[1])}.{a[2]}"
            if tag == "sub":
                return f"{_paren(a[1])}[{', '.join(_fmt(x) for x in a[2])}]"
            if tag == "call":
                args = [_fmt(x) for x in a[2]]
                if len(a) > 3:
                    args += [f"{k}={_fmt(v)}" for k, v in a[3]]
                return f"{_fmt(a[1])}({', '.join(args)})"
            if tag == "obj":
                return f"<{a[1]}@{a[2]}>"
            if tag == "local":
                return f"${a[1]}" + (f"'{a[2]}" if a[2] else "")
            if tag == "parity":
                return f"S({_fmt(a[1])})"
            if tag == "str":
                return repr(a[1])
            if tag == "const":
                return repr(a[1])
        return "(" + " ".join(_fmt(x) for x in a) + ")"
    if isinstance(a, Fraction):
        return str(a)
    return str(a)


def _paren(x):
    s = _fmt(x)
    if isinstance(x, P) and x.as_atom() is None and not x.is_const():
        return "(" + s + ")"
    return s


def _mono_mul(m1, m2):
    if not m1:
        return m2
    if not m2:
        return m1
    d = dict(m1)
    for a, e in m2:
        d[a] = d.get(a, 0) + e
    return tuple(sorted(((a, e) for a, e in d.items() if e), key=lambda t: atom_key(t[0])))


def _poly_add(p, q, sign=1):
    r = dict(p)
    for m, c in q.items():
        v = r.get(m, 0) + sign * c
        if v:
            r[m] = v
        else:
            r.pop(m, None)
    return r


def _poly_mul(p, q):
    r: dict = {}
    for m1, c1 in p.items():
        for m2, c2 in q.items():
            m = _mono_mul(m1, m2)
            v = r.get(m, 0) + c1 * c2
            if v:
                r[m] = v
            else:
                r.pop(m, None)
    return r


def _mono_key(m):
    return tuple((atom_key(a), e) for a, e in m)


def _lead(p):
    """Leading monomial under (total degree, lexicographic key) order."""
    return max(p, key=lambda m: (sum(e for _, e in m), _mono_key(m)))


def _mono_div(m1, m2):
    """m1 / m2 if divisible else None."""
    d = dict(m1)
    for a, e in m2:
        if d.get(a, 0) < e:
            return None
        d[a] -= e
    return tuple(sorted(((a, e) for a, e in d.items() if e), key=lambda t: atom_key(t[0])))


def _poly_divexact(p, q):
    """Exact quotient p/q (dict) or None."""
    if not q:
        return None
    if len(q) == 1:
        (mq, cq), = q.items()
        out = {}
        for m, c in p.items():
            mm = _mono_div(m, mq)
            if mm is None:
                return None
            out[mm] = c / cq
        return out
    rem = dict(p)
    quo: dict = {}
    lq = _lead(q)
    cq = q[lq]
    guard = 0
    while rem:
        guard += 1
        if guard > 4000:
            return None
        lr = _lead(rem)
        mm = _mono_div(lr, lq)
        if mm is None:
            return None
        c = rem[lr] / cq
        quo[mm] = quo.get(mm, 0) + c
        rem = _poly_add(rem, _poly_mul({mm: c}, q), -1)
    return quo


def _common_monomial(p):
    it = iter(p)
    try:
        first = next(it)
    except StopIteration:
        return ()
    d = dict(first)
    for m in it:
        dm = dict(m)
        for a in list(d):
            e = min(d[a], dm.get(a, 0))
            if e:
                d[a] = e
            else:
                del d[a]
        if not d:
            return ()
    return tuple(sorted(d.items(), key=lambda t: atom_key(t[0])))


class P:
    """Immutable rational function n/d."""

    __slots__ = ("n", "d", "_key", "_hash")

    def __init__(self, n, d=None, _raw=False):
        if d is None:
            d = {(): Fraction(1)}
        if not _raw:
            n, d = P._normalise(n, d)
        self.n = n
        self.d = d
        self._key = None
        self._hash = None

    # -- constructors -----------------------------------------------------
    @staticmethod
    def const(c) -> "P":
        c = Fraction(c)
        return P({(): c} if c else {}, None, _raw=True)

    @staticmethod
    def atom(a) -> "P":
        if isinstance(a, P):
            return a
        return P({((a, 1),): Fraction(1)}, None, _raw=True)

    @staticmethod
    def name(s: str) -> "P":
        return P.atom(("name", s))

    # -- normalisation ----------------------------------------------------
    @staticmethod
    def _normalise(n, d):
        if not d:
            raise ZeroDivisionError("zero denominator")
        if not n:
            return {}, {(): Fraction(1)}
        n, d = _apply_sqrt(n), _apply_sqrt(d)
        if len(d) == 1 and () in d:
            c = d[()]
            if c != 1:
                n = {m: v / c for m, v in n.items()}
            return n, {(): Fraction(1)}
        # cancel common monomial
        cn, cd = _common_monomial(n), _common_monomial(d)
        if cn and cd:
            dn, dd = dict(cn), dict(cd)
            g = tuple(sorted(((a, min(e, dd[a])) for a, e in dn.items() if a in dd),
                             key=lambda t: atom_key(t[0])))
            if g:
                n = {_mono_div(m, g): c for m, c in n.items()}
                d = {_mono_div(m, g): c for m, c in d.items()}
        # exact division
        q = _poly_divexact(n, d)
        if q is not None:
            return q, {(): Fraction(1)}
        q = _poly_divexact(d, n)
        if q is not None and len(n) > 1:
            n, d = {(): Fraction(1)}, q
        # try cancelling the factors of d against n when d is a product we can see:
        # (cheap heuristic) repeatedly divide both by common non-monomial part of d
        # normalise leading coefficient of d to 1
        ld = _lead(d)
        c = d[ld]
        if c != 1:
            n = {m: v / c for m, v in n.items()}
            d = {m: v / c for m, v in d.items()}
        return n, d

    # -- queries ----------------------------------------------------------
    def is_const(self):
        return self.is_poly() and (not self.n or (len(self.n) == 1 and () in self.n))

    def const_value(self):
        if not self.is_const():
            return None
        return self.n.get((), Fraction(0))

    def is_poly(self):
        return len(self.d) == 1 and self.d.get(()) == 1

    def is_zero(self):
        return not self.n

    def as_atom(self):
        """The atom if this value is exactly one atom, else None."""
        if self.is_poly() and len(self.n) == 1:
            (m, c), = self.n.items()
            if c == 1 and len(m) == 1 and m[0][1] == 1:
                return m[0][0]
        return None

    def atoms(self):
        s = set()
        for p in (self.n, self.d):
            for m in p:
                for a, _ in m:
                    s.add(a)
        return s

    def all_atoms(self):
        """Atoms, recursively into atoms containing P values."""
        out = set()

        def rec(x):
            if isinstance(x, P):
                for a in x.atoms():
                    if a not in out:
                        out.add(a)
                        rec(a)
            elif isinstance(x, tuple):
                for y in x:
                    rec(y)
        rec(self)
        return out

    def key(self) -> str:
        if self._key is None:
            self._key = _poly_str(self.n) if self.is_poly() else f"({_poly_str(self.n)})/({_poly_str(self.d)})"
        return self._key

    def __str__(self):
        return self.key()

    __repr__ = __str__

    def __hash__(self):
        if self._hash is None:
            self._hash = hash(self.key())
        return self._hash

    def __eq__(self, other):
        if not isinstance(other, P):
            try:
                other = P.const(other)
            except Exception:
                return NotImplemented
        if self.key() == other.key():
            return True
        return _poly_mul(self.n, other.d) == _poly_mul(other.n, self.d)

    def __ne__(self, other):
        r = self.__eq__(other)
        return r if r is NotImplemented else not r

    # -- arithmetic -------------------------------------------------------
    @staticmethod
    def _c(x):
        return x if isinstance(x, P) else P.const(x)

    def __add__(self, o):
        o = P._c(o)
        if self.d == o.d:
            return P(_poly_add(self.n, o.n), self.d)
        return P(_poly_add(_poly_mul(self.n, o.d), _poly_mul(o.n, self.d)), _poly_mul(self.d, o.d))

    __radd__ = __add__

    def __neg__(self):
        return P({m: -c for m, c in self.n.items()}, self.d, _raw=True)

    def __sub__(self, o):
        return self + (-P._c(o))

    def __rsub__(self, o):
        return P._c(o) - self

    def __mul__(self, o):
        o = P._c(o)
        return P(_poly_mul(self.n, o.n), _poly_mul(self.d, o.d))

    __rmul__ = __mul__

    def __truediv__(self, o):
        o = P._c(o)
        if not o.n:
            raise ZeroDivisionError
        return P(_poly_mul(self.n, o.d), _poly_mul(self.d, o.n))

    def __rtruediv__(self, o):
        return P._c(o) / self

    def __pow__(self, k):
        if isinstance(k, P):
            k = k.const_value()
        k = Fraction(k)
        if k.denominator == 2:
            base = P.atom(("call", P.name("sqrt"), (self,)))
            return base ** k.numerator
        if k.denominator != 1:
            raise ValueError("non-integer power")
        k = int(k)
        if k < 0:
            return P.const(1) / (self ** (-k))
        r = P.const(1)
        b = self
        while k:
            if k & 1:
                r = r * b
            k >>= 1
            if k:
                b = b * b
        return r

    # -- substitution -----------------------------------------------------
    def subs(self, mapping: dict) -> "P":
        """Substitute atoms (top level and inside nested atoms)."""
        memo: dict = {}
        return _subs(self, mapping, memo)

    def rewrite(self, rules) -> "P":
        """Apply relations atom**2 -> P to a fixpoint.  rules: {atom: P}."""
        cur = self
        for _ in range(12):
            nxt = P(_rewrite_poly(cur.n, rules), _rewrite_poly(cur.d, rules))
            if nxt.key() == cur.key():
                return nxt
            cur = nxt
        return cur


def _apply_sqrt(p):
    """sqrt(x)**2 -> x and parity(m)**2 -> 1 inside a polynomial dict."""
    need = False
    par = False
    for m in p:
        for a, e in m:
            if e >= 2 and isinstance(a, tuple) and a:
                if a[0] == "call" and _is_sqrt(a):
                    need = True
                elif a[0] == "parity":
                    par = True
    if par:
        q: dict = {}
        for m, c in p.items():
            mm = tuple((a, (e % 2 if isinstance(a, tuple) and a and a[0] == "parity" else e)) for a, e in m)
            mm = tuple(t for t in mm if t[1])
            v = q.get(mm, 0) + c
            if v:
                q[mm] = v
            else:
                q.pop(mm, None)
        p = q
    if not need:
        return p
    out: dict = {}
    for m, c in p.items():
        term = {(): c}
        rest = []
        for a, e in m:
            if e >= 2 and isinstance(a, tuple) and a and a[0] == "call" and _is_sqrt(a):
                arg = a[2][0]
                if arg.is_poly():
                    for _ in range(e // 2):
                        term = _poly_mul(term, arg.n)
                    if e % 2:
                        rest.append((a, 1))
                    continue
            rest.append((a, e))
        term = _poly_mul(term, {tuple(rest): Fraction(1)})
        out = _poly_add(out, term)
    return _apply_sqrt(out) if out != p else out


def _is_sqrt(a):
    f = a[1]
    return isinstance(f, P) and f.as_atom() == ("name", "sqrt") and len(a[2]) == 1 and (len(a) < 4 or not a[3])


def _rewrite_poly(p, rules):
    out: dict = {}
    for m, c in p.items():
        term = {(): c}
        rest = []
        for a, e in m:
            if a in rules and e >= 2:
                r = rules[a]
                for _ in range(e // 2):
                    term = _poly_mul(term, r.n)
                if e % 2:
                    rest.append((a, 1))
            else:
                rest.append((a, e))
        term = _poly_mul(term, {tuple(rest): Fraction(1)})
        out = _poly_add(out, term)
    return out


def _subs(x, mapping, memo):
    if isinstance(x, P):
        k = id(x)
        if k in memo:
            return memo[k][1]
        num = P.const(0)
        for m, c in x.n.items():
            t = P.const(c)
            for a, e in m:
                t = t * (_subs_atom(a, mapping, memo) ** e)
            num = num + t
        if x.is_poly():
            r = num
        else:
            den = P.const(0)
            for m, c in x.d.items():
                t = P.const(c)
                for a, e in m:
                    t = t * (_subs_atom(a, mapping, memo) ** e)
                den = den + t
            r = num / den
        memo[k] = (x, r)
        return r
    return x


def _subs_atom(a, mapping, memo):
    if a in mapping:
        v = mapping[a]
        return v if isinstance(v, P) else P.const(v)
    if isinstance(a, tuple):
        new = _subs_tuple(a, mapping, memo)
        return P.atom(new)
    return P.atom(a)


def _subs_tuple(t, mapping, memo):
    out = []
    changed = False
    for x in t:
        if isinstance(x, P):
            y = _subs(x, mapping, memo)
            changed |= y is not x
            out.append(y)
        elif isinstance(x, tuple):
            if x in mapping:
                y = mapping[x]
                changed = True
                out.append(y)
            else:
                y = _subs_tuple(x, mapping, memo)
                changed |= y is not x
                out.append(y)
        else:
            out.append(x)
    return tuple(out) if changed else t


def _poly_str(p):
    if not p:
        return "0"
    items = sorted(p.items(), key=lambda t: (sum(e for _, e in t[0]), _mono_key(t[0])))
    parts = []
    for m, c in items:
        ms = "*".join(atom_key(a) if e == 1 else f"{atom_key(a)}^{e}" for a, e in m)
        if not ms:
            parts.append(str(c))
        elif c == 1:
            parts.append(ms)
        elif c == -1:
            parts.append("-" + ms)
        else:
            parts.append(f"{c}*{ms}")
    s = " + ".join(parts)
    return s.replace("+ -", "- ")


def _faulhaber(k: int, n: "P") -> "P":
    """sum_{i=0}^{n-1} i**k as a polynomial in n."""
    if k == 0:
        return n
    if k == 1:
        return n * (n - 1) / 2
    if k == 2:
        return (n - 1) * n * (2 * n - 1) / 6
    if k == 3:
        t = n * (n - 1) / 2
        return t * t
    if k == 4:
        return (n - 1) * n * (2 * n - 1) * (3 * n * n - 3 * n - 1) / 30
    raise ValueError("degree too high for closed-form summation")


def sum_range(d: "P", var, lo: "P", hi: "P"):
    """sum_{var=lo}^{hi-1} d  for d polynomial in the atom ``var`` (degree <= 4); None if not possible."""
    if not d.is_poly():
        return None
    coeffs: dict = {}
    for m, c in d.n.items():
        k = 0
        rest = []
        for a, e in m:
            if a == var:
                k = e
            else:
                if isinstance(a, tuple) and _mentions(a, var):
                    return None
                rest.append((a, e))
        term = P({tuple(rest): c})
        coeffs[k] = coeffs.get(k, P.const(0)) + term
    total = P.const(0)
    try:
        for k, c in coeffs.items():
            total = total + c * (_faulhaber(k, hi) - _faulhaber(k, lo))
    except ValueError:
        return None
    return total


def _mentions(x, var) -> bool:
    if x == var:
        return True
    if isinstance(x, P):
        return any(_mentions(a, var) for a in x.atoms())
    if isinstance(x, tuple):
        return any(_mentions(y, var) for y in x if isinstance(y, (tuple, P)))
    return False
