"""Role-based identification of local variables.

The rules name the locals of the functions they analyse (``translated``, ``mask``, ``tree`` ...).  A behaviour-preserving
edit may rename any of them, so a rule must not depend on the spelling.  A *role* says what a local is by the way it is
bound - "assigned from a call of np.fmod", "second element unpacked from apply_all_symops(...)", "loop variable over
enumerate(...)" - never by its name.  Before a function is evaluated, ``canonicalise`` finds for every role the local that
plays it in the current source and renames it (in a copy of the syntax tree, line numbers kept) to the canonical name the
rule uses.  If the canonical name is still what the source uses nothing changes; if no local or several locals fit a role
the tree is left alone and the rule reports the missing anchor as before (analysis error, never a verdict).

Role specifications (patterns are regular expressions searched in ``ast.unparse`` of the bound expression; they must
mention API names, attributes and literals only, not other locals):

    "np\\.fmod\\("                       the local assigned from a matching expression (plain or annotated assignment)
    ("unpack", "apply_all_symops\\(", 1)   element 1 of a tuple target whose right-hand side matches
    ("for", "enumerate\\(", 0)             element 0 of the (flattened) target of a for loop whose iterable matches
    ("for", "range\\(", None)              the single loop variable of such a loop
    ("with", "open\\(")                    the name bound by ``with ... as name``
    ("aug", "\\+=\\s*1$")                 a local that receives a matching augmented assignment (pattern sees "op= value")
    ("nth", "^np\\.arange\\(", 1)          the second (in source order) distinct local assigned from a matching expression
    ("value_of", "\\['frac_pos'\\]")       the local stored under a matching target (``d['frac_pos'] = pos``)
Any specification may be a list of alternatives; the first one that identifies exactly one local wins.
"""
from __future__ import annotations

import ast
import copy
import re
import symtable


def _flatten(t):
    if isinstance(t, (ast.Tuple, ast.List)):
        out = []
        for e in t.elts:
            out.extend(_flatten(e))
        return out
    if isinstance(t, ast.Starred):
        return _flatten(t.value)
    return [t]


def _own_nodes(fn):
    """Nodes of the function body, nested function/class bodies excluded (their bindings are their own)."""
    todo = list(fn.body)
    while todo:
        n = todo.pop()
        yield n
        for c in ast.iter_child_nodes(n):
            if isinstance(c, (ast.FunctionDef, ast.AsyncFunctionDef, ast.ClassDef, ast.Lambda)):
                continue
            todo.append(c)


def single_use_temps(fn):
    """{name: value node} for locals that are bound exactly once (plain assignment from a call, attribute or subscript expression)
    and read exactly once: explaining variables.  Binding shapes are compared with these inlined, so that introducing or
    removing such a temporary does not change what another local is recognised by."""
    stores, loads, values = {}, {}, {}
    for n in ast.walk(fn):
        if isinstance(n, ast.Name):
            d = stores if isinstance(n.ctx, ast.Store) else loads if isinstance(n.ctx, ast.Load) else None
            if d is not None:
                d[n.id] = d.get(n.id, 0) + 1
    for n in _own_nodes(fn):
        if isinstance(n, ast.Assign) and len(n.targets) == 1 and isinstance(n.targets[0], ast.Name) \
                and isinstance(n.value, (ast.Call, ast.Attribute, ast.Subscript)):
            values[n.targets[0].id] = n.value
        elif isinstance(n, ast.AnnAssign) and isinstance(n.target, ast.Name) and isinstance(n.value, (ast.Call, ast.Attribute, ast.Subscript)):
            values[n.target.id] = n.value
    params = {a.arg for a in fn.args.args + fn.args.kwonlyargs + fn.args.posonlyargs}
    return {k: v for k, v in values.items() if stores.get(k) == 1 and loads.get(k) == 1 and k not in params}


class _Inline(ast.NodeTransformer):
    def __init__(self, temps, depth=0):
        self.temps, self.depth = temps, depth

    def visit_Name(self, node):
        if isinstance(node.ctx, ast.Load) and node.id in self.temps and self.depth < 4:
            return _Inline(self.temps, self.depth + 1).visit(copy.deepcopy(self.temps[node.id]))
        return node


class _CanonExpr(ast.NodeTransformer):
    """a > b -> b < a, a >= b -> b <= a (one spelling per comparison, so that a shape does not depend on it)."""
    def visit_Compare(self, node):
        self.generic_visit(node)
        if len(node.ops) == 1 and isinstance(node.ops[0], (ast.Gt, ast.GtE)):
            op = ast.Lt() if isinstance(node.ops[0], ast.Gt) else ast.LtE()
            return ast.copy_location(ast.Compare(node.comparators[0], [op], [node.left]), node)
        return node


def bound_text(node, temps):
    """Source text of a bound expression with single-use temporaries inlined and comparisons in one orientation."""
    node = copy.deepcopy(node)
    if temps:
        node = _Inline(temps).visit(node)
    return ast.unparse(_CanonExpr().visit(node))


def _candidates(fn, spec, temps=None):
    kind, pat, k = ("assign", spec, None) if isinstance(spec, str) else (spec + (None,))[:3]
    rx = re.compile(pat)
    found = []
    temps = temps if temps is not None else single_use_temps(fn)
    _u = lambda node: bound_text(node, temps)
    for n in _own_nodes(fn):
        if kind == "assign":
            if isinstance(n, ast.Assign) and len(n.targets) == 1 and isinstance(n.targets[0], ast.Name) and rx.search(_u(n.value)):
                found.append(n.targets[0].id)
            elif isinstance(n, ast.AnnAssign) and isinstance(n.target, ast.Name) and n.value is not None and rx.search(_u(n.value)):
                found.append(n.target.id)
            elif isinstance(n, ast.NamedExpr) and rx.search(_u(n.value)):
                found.append(n.target.id)
        elif kind == "unpack":
            if isinstance(n, ast.Assign) and len(n.targets) == 1 and isinstance(n.targets[0], (ast.Tuple, ast.List)) and rx.search(_u(n.value)):
                el = _flatten(n.targets[0])
                if k is not None and k < len(el) and isinstance(el[k], ast.Name):
                    found.append(el[k].id)
        elif kind == "for":
            if isinstance(n, ast.For) and rx.search(_u(n.iter)):
                el = _flatten(n.target)
                kk = 0 if k is None else k
                if (k is not None or len(el) == 1) and kk < len(el) and isinstance(el[kk], ast.Name):
                    found.append(el[kk].id)
        elif kind == "nth":
            if isinstance(n, ast.Assign) and len(n.targets) == 1 and isinstance(n.targets[0], ast.Name) and rx.search(_u(n.value)):
                found.append((n.lineno, n.col_offset, n.targets[0].id))
            elif isinstance(n, ast.AnnAssign) and isinstance(n.target, ast.Name) and n.value is not None and rx.search(_u(n.value)):
                found.append((n.lineno, n.col_offset, n.target.id))
        elif kind == "value_of":
            # the local that is stored under a matching target:  slab_dict["frac_pos"] = pos
            if isinstance(n, ast.Assign) and isinstance(n.value, ast.Name) and any(rx.search(ast.unparse(t)) for t in n.targets):
                found.append(n.value.id)
        elif kind == "with":
            if isinstance(n, ast.With):
                for it in n.items:
                    if it.optional_vars is not None and isinstance(it.optional_vars, ast.Name) and rx.search(_u(it.context_expr)):
                        found.append(it.optional_vars.id)
        elif kind == "aug":
            if isinstance(n, ast.AugAssign) and isinstance(n.target, ast.Name):
                txt = ast.unparse(n)
                txt = txt[txt.index(n.target.id) + len(n.target.id):].strip()
                if rx.search(txt):
                    found.append(n.target.id)
    if kind == "nth":
        ordered = []
        for _, _, nm in sorted(found):
            if nm not in ordered:
                ordered.append(nm)
        return [ordered[k]] if k is not None and k < len(ordered) else []
    return found


_SYMTAB = {}


def renamable(mod_text, fn):
    """Locals of fn that can be renamed consistently (not parameters, globals, imports, or names rebound in nested scopes)."""
    key = hash(mod_text)
    if key not in _SYMTAB:
        try:
            _SYMTAB[key] = symtable.symtable(mod_text, "<module>", "exec")
        except SyntaxError:
            _SYMTAB[key] = None
    top = _SYMTAB[key]
    if top is None:
        return None

    def find(tab):
        if tab.get_type() == "function" and tab.get_name() == fn.name and tab.get_lineno() == fn.lineno:
            return tab
        for ch in tab.get_children():
            r = find(ch)
            if r is not None:
                return r
        return None
    tab = find(top)
    if tab is None:
        return None
    names = set()
    for s in tab.get_symbols():
        if s.is_local() and s.is_assigned() and not s.is_parameter() and not s.is_imported() and not s.is_global() and not s.is_nonlocal():
            names.add(s.get_name())

    def scopes(t):
        yield t
        for c in t.get_children():
            yield from scopes(c)
    for ch in tab.get_children():
        for sc in scopes(ch):
            for s in sc.get_symbols():
                if s.get_name() in names and not s.is_free():
                    names.discard(s.get_name())
            names.discard(sc.get_name())
    return names


class _Rename(ast.NodeTransformer):
    def __init__(self, mapping):
        self.m = mapping

    def visit_Name(self, node):
        if node.id in self.m:
            return ast.copy_location(ast.Name(self.m[node.id], node.ctx), node)
        return node

    def visit_ExceptHandler(self, node):
        self.generic_visit(node)
        if node.name in self.m:
            node.name = self.m[node.name]
        return node


def resolve(fn, roles, safe=None):
    """{canonical: actual} for the roles that identify exactly one local of fn."""
    out = {}
    bound = {n.id for n in ast.walk(fn) if isinstance(n, ast.Name) and isinstance(n.ctx, ast.Store)}
    temps = single_use_temps(fn)
    for canon, spec in roles.items():
        if canon in bound:
            out[canon] = canon      # the source still uses the canonical name: nothing to identify
            continue
        alts = spec if isinstance(spec, list) else [spec]
        for alt in alts:
            c = set(_candidates(fn, alt, temps))
            if canon in c:
                c = {canon}
            if len(c) == 1:
                actual = next(iter(c))
                if safe is None or actual in safe or actual == canon:
                    out[canon] = actual
                break
    return out


def renamable_ast(fn):
    """Like renamable(), computed on the syntax tree itself (for functions with helper bodies expanded into them)."""
    params = {a.arg for a in fn.args.args + fn.args.kwonlyargs + fn.args.posonlyargs}
    for x in (fn.args.vararg, fn.args.kwarg):
        if x is not None:
            params.add(x.arg)
    own, nested, special = set(), set(), set()
    for n in _own_nodes(fn):
        if isinstance(n, ast.Name) and isinstance(n.ctx, ast.Store):
            own.add(n.id)
        elif isinstance(n, (ast.Global, ast.Nonlocal)):
            special |= set(n.names)
        elif isinstance(n, (ast.Import, ast.ImportFrom)):
            special |= {(a.asname or a.name).split(".")[0] for a in n.names}
        elif isinstance(n, ast.ExceptHandler) and n.name:
            own.add(n.name)
    for n in ast.walk(fn):
        if n is not fn and isinstance(n, (ast.FunctionDef, ast.AsyncFunctionDef, ast.Lambda, ast.ClassDef, ast.ListComp, ast.SetComp, ast.DictComp, ast.GeneratorExp)):
            if hasattr(n, "name"):
                nested.add(n.name)
            for m in ast.walk(n):
                if isinstance(m, ast.Name) and isinstance(m.ctx, ast.Store):
                    nested.add(m.id)
                elif isinstance(m, ast.arg):
                    nested.add(m.arg)
    return own - params - special - nested


def canonicalise(mod_text, fn, roles, synthetic=False):
    """(function node with the role players renamed to their canonical names, {canonical: actual})."""
    if not roles:
        return fn, {}
    safe = renamable_ast(fn) if synthetic else renamable(mod_text, fn)
    if safe is None:
        return fn, {}
    found = resolve(fn, roles, safe)
    mapping = {actual: canon for canon, actual in found.items() if actual != canon}
    if not mapping:
        return fn, found
    # two roles must not collapse onto one local, and one local must not take two names
    if len(set(mapping.values())) != len(mapping):
        return fn, {}
    # a local that happens to carry a canonical name without playing that role steps aside
    for canon in list(mapping.values()):
        if canon in safe and canon not in mapping:
            mapping[canon] = canon + "__other"
    new = copy.deepcopy(fn)
    # decorators/defaults belong to the enclosing scope: rename inside the body only
    new.body = [_Rename(mapping).visit(s) for s in new.body]
    return new, found
