"""Interval facts implied by the guards that dominate an event (sa/symex.py).

A guard is (cond, polarity).  Recognised shapes are the ones the code base
uses (DESIGN.md A.2): comparisons against constants, and/or/not, vectorised
``np.any(x < lo)``, ``x in range(a, b)``.  Anything else contributes nothing
(never an alarm by itself).
"""
from __future__ import annotations

from fractions import Fraction

from .poly import P

INF = Fraction(10 ** 18)


def _const(p: P, consts):
    c = p.const_value()
    if c is not None:
        return c
    if consts:
        k = p.key()
        if k in consts:
            return Fraction(consts[k])
        try:
            sub = {a: P.const(consts[P.atom(a).key()]) for a in p.atoms() if P.atom(a).key() in consts}
            if sub:
                q = p.subs(sub)
                return q.const_value()
        except Exception:
            return None
    return None


def facts(cond: P, pol: bool, target_keys: set, consts=None, integer=True):
    """Yield ('lo', v) / ('hi', v) bounds on the target implied by cond == pol."""
    a = cond.as_atom()
    if a is None:
        return
    tag = a[0]
    if tag == "not":
        yield from facts(a[1], not pol, target_keys, consts, integer)
        return
    if tag == "and":
        if pol:
            for x in a[1]:
                yield from facts(x, True, target_keys, consts, integer)
        return
    if tag == "or":
        if not pol:
            for x in a[1]:
                yield from facts(x, False, target_keys, consts, integer)
        return
    if tag == "call":
        c = a[1].as_atom()
        if c and c[0] == "name" and c[1] in ("numpy.any", "any") and len(a[2]) == 1 and not pol:
            # not any(X)  =>  X false everywhere
            yield from facts(a[2][0], False, target_keys, consts, integer)
        if c and c[0] == "name" and c[1] in ("numpy.all", "all") and len(a[2]) == 1 and pol:
            yield from facts(a[2][0], True, target_keys, consts, integer)
        return
    if tag in ("lt", "le"):
        l, r = a[1], a[2]
        strict = tag == "lt"
        if not pol:
            # not (l < r)  ==  r <= l ;  not (l <= r) == r < l
            l, r = r, l
            strict = not strict
        one = Fraction(1) if integer else Fraction(0)
        if l.key() in target_keys:
            c = _const(r, consts)
            if c is not None:
                yield ("hi", c - one if strict else c)
        if r.key() in target_keys:
            c = _const(l, consts)
            if c is not None:
                yield ("lo", c + one if strict else c)
        return
    if tag in ("in", "notin"):
        inside = (tag == "in") == pol
        if inside and a[1].key() in target_keys:
            rng = a[2].as_atom()
            if rng and rng[0] == "call":
                c = rng[1].as_atom()
                if c == ("name", "range") and len(rng[2]) in (1, 2):
                    if len(rng[2]) == 1:
                        lo, hi = Fraction(0), _const(rng[2][0], consts)
                    else:
                        lo, hi = _const(rng[2][0], consts), _const(rng[2][1], consts)
                    if lo is not None:
                        yield ("lo", lo)
                    if hi is not None:
                        yield ("hi", hi - 1)
        return
    if tag == "eq" and pol:
        for x, y in ((a[1], a[2]), (a[2], a[1])):
            if x.key() in target_keys:
                c = _const(y, consts)
                if c is not None:
                    yield ("lo", c)
                    yield ("hi", c)


def bounds(guards, targets, consts=None, integer=True):
    """(lo, hi) implied for any of the target terms by the dominating guards."""
    keys = {t.key() for t in targets}
    lo, hi = -INF, INF
    for cond, pol in guards:
        for kind, v in facts(cond, pol, keys, consts, integer):
            if kind == "lo":
                lo = max(lo, v)
            else:
                hi = min(hi, v)
    return lo, hi
