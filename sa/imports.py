"""Resolution of import statements without importing anything (rule family G3)."""
from __future__ import annotations

import ast
import os
import sys


def _search_paths():
    out = []
    for p in sys.path:
        if p and os.path.isdir(p) and ("site-packages" in p or "dist-packages" in p):
            out.append(p)
    return out


def find_module_files(modname: str):
    """(py path or None, pyi path or None, is_package) for a third-party module, by file lookup only."""
    parts = modname.split(".")
    for base in _search_paths():
        d = os.path.join(base, *parts)
        if os.path.isdir(d) and (os.path.exists(os.path.join(d, "__init__.py")) or os.path.exists(os.path.join(d, "__init__.pyi"))):
            py = os.path.join(d, "__init__.py")
            pyi = os.path.join(d, "__init__.pyi")
            return (py if os.path.exists(py) else None, pyi if os.path.exists(pyi) else None, True, d)
        py, pyi = d + ".py", d + ".pyi"
        if os.path.exists(py) or os.path.exists(pyi):
            return (py if os.path.exists(py) else None, pyi if os.path.exists(pyi) else None, False, None)
        # compiled extension
        dn = os.path.dirname(d)
        if os.path.isdir(dn):
            for f in os.listdir(dn):
                if f.startswith(parts[-1] + ".") and f.endswith((".so", ".pyd")):
                    return (None, pyi if os.path.exists(pyi) else None, False, None)
    return None


def _toplevel_names(tree):
    names = set()
    dynamic = False

    def visit(body):
        nonlocal dynamic
        for st in body:
            if isinstance(st, (ast.FunctionDef, ast.AsyncFunctionDef, ast.ClassDef)):
                names.add(st.name)
                if st.name == "__getattr__":
                    dynamic = True
            elif isinstance(st, ast.Assign):
                for t in st.targets:
                    for n in ast.walk(t):
                        if isinstance(n, ast.Name):
                            names.add(n.id)
            elif isinstance(st, (ast.AnnAssign, ast.AugAssign)):
                if isinstance(st.target, ast.Name):
                    names.add(st.target.id)
            elif isinstance(st, ast.Import):
                for a in st.names:
                    names.add(a.asname or a.name.split(".")[0])
            elif isinstance(st, ast.ImportFrom):
                for a in st.names:
                    if a.name == "*":
                        dynamic = True
                    else:
                        names.add(a.asname or a.name)
            elif isinstance(st, (ast.If, ast.Try, ast.With)):
                for fld in ("body", "orelse", "finalbody"):
                    visit(getattr(st, fld, []) or [])
                for h in getattr(st, "handlers", []) or []:
                    visit(h.body)
    visit(tree.body)
    return names, dynamic


def resolve_external(modname: str, symbol: str | None):
    """True / False / None(unknown) : does ``from modname import symbol`` (or ``import modname``) resolve?"""
    found = find_module_files(modname)
    if found is None:
        # maybe a stdlib / builtin module: do not judge
        top = modname.split(".")[0]
        if top in sys.stdlib_module_names or top in sys.builtin_module_names:
            return None
        return False
    py, pyi, is_pkg, pkgdir = found
    if symbol is None:
        return True
    if is_pkg and find_module_files(modname + "." + symbol) is not None:
        return True
    src = pyi or py
    if src is None:
        return None
    try:
        with open(src, encoding="utf-8") as f:
            tree = ast.parse(f.read())
    except Exception:
        return None
    names, dynamic = _toplevel_names(tree)
    if symbol in names:
        return True
    if pyi is None and dynamic:
        return None
    if pyi is not None:
        # the stub is the public surface; a dynamic __getattr__ in the stub makes it unknown
        return None if dynamic else False
    return False
