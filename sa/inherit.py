"""Re-use of another property's rules (a property that rests on another one's code path inherits its obligations).

``inherit(chk, rid, "c03", ["R03.1", "R03.2"], functions={"Crystal.molecule_environment"})`` evaluates the named rules of
sa/rules/c03.py on the same tree and re-emits their obligations under rule ``rid`` of the calling property, optionally
restricted to some functions (and, with ``fingerprints``, to the clauses of the rule the calling property rests on).  Analysis errors of the inherited rule propagate.
"""
from __future__ import annotations

import importlib


def inherit(chk, rid, modname, rules, functions=None, prefix=None, fingerprints=None):
    from .report import Check
    mod = importlib.import_module(f"sa.rules.{modname}")
    n = 0
    for r in rules:
        sub = Check(modname.upper(), chk.tier, chk.repo.root, r)
        sub.repo = chk.repo                      # share parsed modules
        mod.run(sub)
        for o in sub.obs:
            if o.rule != r:
                continue
            if functions is not None and o.function not in functions:
                continue
            if fingerprints is not None and not fingerprints(str(o.fingerprint)):
                continue
            n += 1
            chk.ob(rid, o.module, o.function, f"[{r}] {o.what}", o.ok, line=o.line, fingerprint=f"{r}:{o.fingerprint}",
                   expected=o.expected, found=o.found, nontrivial=o.nontrivial)
        for f in sub.analysed["functions"]:
            if f not in chk.analysed["functions"]:
                chk.analysed["functions"].append(f)
    return n
