"""Symbolic evaluation of Python function bodies into normal-form terms.

Not an interpreter and not a path explorer: one syntax-directed pass over the
statements of a function.  Local temporaries are inlined, arithmetic is put in
the polynomial normal form of sa/poly.py, everything else becomes an opaque
structural atom whose children are themselves normalised.  The pass records an
ordered list of *events* (stores, calls, returns, raises) each annotated with
the guards that dominate it and the loops that enclose it.  Rules query the
events; they never look at source text or line numbers (line numbers are
carried only for reporting).
"""
from __future__ import annotations

import ast
import os
import sys
from dataclasses import dataclass, field
from fractions import Fraction

from .poly import P, atom_key

NONE = P.atom(("const", None))
TRUE = P.atom(("const", True))
FALSE = P.atom(("const", False))

# dotted names that mean the same mathematical function
_CANON_CALL = {
    "numpy.sqrt": "sqrt", "math.sqrt": "sqrt", "sqrt": "sqrt", "libc.math.sqrt": "sqrt",
    "numpy.cos": "cos", "math.cos": "cos", "cos": "cos", "libc.math.cos": "cos",
    "numpy.sin": "sin", "math.sin": "sin", "sin": "sin", "libc.math.sin": "sin",
    "numpy.arccos": "arccos", "math.acos": "arccos",
    "numpy.arctan2": "arctan2", "math.atan2": "arctan2",
    "numpy.floor": "floor", "math.floor": "floor", "libc.math.floor": "floor",
    "numpy.ceil": "ceil", "math.ceil": "ceil", "libc.math.ceil": "ceil",
    "numpy.abs": "abs", "numpy.fabs": "abs", "abs": "abs", "libc.math.fabs": "abs", "numpy.absolute": "abs",
    "libc.stdlib.abs": "abs",
    "numpy.radians": "radians", "numpy.deg2rad": "radians", "math.radians": "radians",
    "numpy.degrees": "degrees", "numpy.rad2deg": "degrees", "math.degrees": "degrees",
    "numpy.exp": "exp", "math.exp": "exp", "libc.math.exp": "exp",
    "numpy.log": "log", "math.log": "log", "libc.math.log": "log",
    "numpy.round": "round", "round": "round", "numpy.around": "round", "numpy.rint": "rint",
}
_ELEMENTWISE = {"cos", "sin", "sqrt", "abs", "radians", "degrees", "exp", "log", "floor", "ceil", "arccos"}
_CANON_CONST = {"numpy.pi": "pi", "math.pi": "pi", "numpy.inf": "inf", "math.inf": "inf",
                "libc.math.M_PI": "pi", "M_PI": "pi"}


@dataclass
class LoopInfo:
    k: int
    node: ast.AST
    kind: str                 # 'range' | 'iter' | 'enumerate' | 'zip' | 'while'
    targets: tuple            # names bound
    iter: P | None            # evaluated iterable (or while condition)
    index: P | None = None    # the index atom
    lo: P | None = None
    hi: P | None = None       # exclusive
    step: P | None = None

    def __hash__(self):
        return hash(self.k)


@dataclass
class Event:
    kind: str                 # 'assign' 'store' 'aug' 'call' 'return' 'raise' 'delete' 'import' 'yield'
    node: ast.AST
    guards: tuple
    loops: tuple
    target: P | None = None   # store/aug: target term; assign: name atom
    value: P | None = None
    op: str | None = None
    name: str | None = None
    extra: dict = field(default_factory=dict)

    @property
    def lineno(self):
        return getattr(self.node, "lineno", 0)


class ModuleCtx:
    """Import alias table of one module (dotted full names)."""

    def __init__(self, tree: ast.Module | None, modname: str = ""):
        self.modname = modname
        self.alias: dict[str, str] = {}
        self.consts: dict[str, ast.AST] = {}
        if tree is not None:
            for st in tree.body:
                self._stmt(st)

    def _stmt(self, st):
        if isinstance(st, ast.Import):
            for a in st.names:
                self.alias[a.asname or a.name.split(".")[0]] = a.name if a.asname else a.name.split(".")[0]
        elif isinstance(st, ast.ImportFrom):
            base = resolve_relative(self.modname, st.module, st.level)
            for a in st.names:
                self.alias[a.asname or a.name] = f"{base}.{a.name}" if base else a.name
        elif isinstance(st, (ast.If, ast.Try)):
            for sub in ast.iter_child_nodes(st):
                if isinstance(sub, ast.stmt):
                    self._stmt(sub)
        elif isinstance(st, ast.Assign) and len(st.targets) == 1 and isinstance(st.targets[0], ast.Name):
            self.consts[st.targets[0].id] = st.value


def resolve_relative(modname: str, module: str | None, level: int) -> str:
    if not level:
        return module or ""
    parts = modname.split(".")
    # modname is the module itself; its package is parts[:-1] (for __init__ the loader passes pkg.__init__)
    pkg = parts[:-1]
    if level > 1:
        pkg = pkg[: len(pkg) - (level - 1)]
    return ".".join(pkg + ([module] if module else []))


def _const_P(v):
    if isinstance(v, bool) or v is None:
        return P.atom(("const", v))
    if isinstance(v, int):
        return P.const(v)
    if isinstance(v, float):
        if v != v or v in (float("inf"), float("-inf")):
            return P.atom(("const", repr(v)))
        return P.const(Fraction(repr(v)))
    if isinstance(v, str):
        return P.atom(("str", v))
    if isinstance(v, complex):
        return P.atom(("const", repr(v)))
    if isinstance(v, bytes):
        return P.atom(("const", repr(v[:32])))
    if v is Ellipsis:
        return P.atom(("const", "..."))
    return P.atom(("const", repr(v)))


def terminates(stmts) -> bool:
    """Every path through the block leaves it by return/raise/continue/break."""
    for st in stmts:
        if isinstance(st, (ast.Return, ast.Raise, ast.Continue, ast.Break)):
            return True
        if isinstance(st, ast.If) and st.orelse and terminates(st.body) and terminates(st.orelse):
            return True
        if isinstance(st, (ast.With,)) and terminates(st.body):
            return True
    return False


def has_break(stmts) -> bool:
    """A break that leaves *this* loop (not one nested deeper)."""
    for st in stmts:
        if isinstance(st, ast.Break):
            return True
        if isinstance(st, (ast.For, ast.While, ast.AsyncFor, ast.FunctionDef, ast.ClassDef)):
            continue
        for fld in ("body", "orelse", "finalbody"):
            if has_break(getattr(st, fld, []) or []):
                return True
        for h in getattr(st, "handlers", []) or []:
            if has_break(h.body):
                return True
    return False


def assigned_names(stmts) -> set:
    out = set()

    class V(ast.NodeVisitor):
        def visit_Name(self, n):
            if isinstance(n.ctx, (ast.Store, ast.Del)):
                out.add(n.id)

        def visit_FunctionDef(self, n):
            out.add(n.name)

        def visit_Lambda(self, n):
            pass

        visit_AsyncFunctionDef = visit_FunctionDef

    for st in stmts:
        V().visit(st)
    return out


MUTATORS = {"append", "extend", "insert", "pop", "remove", "clear", "sort", "reverse", "update", "add", "discard",
            "setdefault", "popitem", "fill", "resize", "put", "appendleft", "popleft"}


def mutated_names(stmts) -> set:
    """Local names whose object is modified in place somewhere in the block (syntactic scan)."""
    out = set()

    def root(n):
        while isinstance(n, (ast.Subscript, ast.Attribute)):
            n = n.value
        return n.id if isinstance(n, ast.Name) else None

    for st in stmts:
        for n in ast.walk(st):
            if isinstance(n, ast.Call) and isinstance(n.func, ast.Attribute) and n.func.attr in MUTATORS:
                if isinstance(n.func.value, ast.Name):
                    out.add(n.func.value.id)
            elif isinstance(n, (ast.Assign, ast.AugAssign, ast.AnnAssign, ast.Delete)):
                tg = n.targets if isinstance(n, (ast.Assign, ast.Delete)) else [n.target]
                for t in tg:
                    for e in (t.elts if isinstance(t, (ast.Tuple, ast.List)) else [t]):
                        if isinstance(e, (ast.Subscript, ast.Attribute)):
                            r = root(e)
                            if r:
                                out.add(r)
    out.discard("self")
    out.discard("cls")
    return out


def _is_obj(v: "P") -> bool:
    a = v.as_atom()
    return bool(a and a[0] == "obj")


def obj_init(v: "P"):
    """Initial value of an ('obj', name, k, init) atom, else the value itself."""
    a = v.as_atom()
    return a[3] if a and a[0] == "obj" else v


ALL_EVS: list = []           # every function-level evaluation of this process (sa/rules/exits.py)
RETURN_AUDIT: list = []      # (module name, function name, line of the unread exit, its value, its guards, rules file:line of the reader)


def _self_attr(v) -> bool:
    """`buf = self.work_array`: a local bound to an attribute of self is that attribute's object -- writes through the local are writes to
    the attribute (the term stays `self.work_array`, so rules that follow the attribute see them)."""
    a = v.as_atom() if v is not None else None
    return bool(a and a[0] == "attr" and a[1].key() == "self")


class Returns(list):
    """The return events of one evaluation.

    A rule that reads 'the' value a function returns by a single index (``ev.returns[-1]``) has looked at one exit.  When the function has
    exits with other values (a shortcut added in front of the computation the rule knows), the access is recorded in RETURN_AUDIT and
    sa/rules/exits.py turns every exit that nobody read into an obligation.  ``pick(i)`` is the access for rules that deal with the other
    exits themselves (they iterate, or the function is a search with several results by design)."""
    owner = None
    modname = ""
    touched = ""          # how rules read the list: 'index', 'iter', 'pick' (concatenated)

    @staticmethod
    def _by_rule():
        """is the reader a property rule (sa/rules/cNN.py)?  Generic passes (effect summaries, cache rules) walk every method's exits for
        their own purposes; that is not a rule reading the value the function returns."""
        f = sys._getframe(2)
        base = os.path.basename(f.f_code.co_filename)
        return len(base) == 6 and base[0] == "c" and base[1:3].isdigit()

    def pick(self, i):
        self.touched += "pick "
        return list.__getitem__(self, i)

    def __iter__(self):
        if self._by_rule():
            self.touched += "iter "
        return list.__iter__(self)

    def __getitem__(self, i):
        if self._by_rule():
            self.touched += "index " if isinstance(i, int) else "iter "
        if isinstance(i, int) and len(self) > 1:
            chosen = list.__getitem__(self, i)
            ck = chosen.value.key() if chosen.value is not None else "None"
            others = [e for e in self if e is not chosen and (e.value.key() if e.value is not None else "None") != ck]
            if others:
                import traceback
                fr = [f for f in traceback.extract_stack(limit=8) if "/rules/" in f.filename and not f.filename.endswith("exits.py")]
                where = f"{fr[-1].filename.split('/')[-1]}:{fr[-1].lineno}" if fr else "?"
                for e in others:
                    RETURN_AUDIT.append((self.modname, getattr(self.owner, "name", "?"), e, chosen, where))
        return list.__getitem__(self, i)


class Ev:
    """Evaluate one function (or a list of statements)."""

    MAX_UNROLL = 16

    def __init__(self, func, mod: ModuleCtx | None = None, *, call_hook=None, attr_hook=None,
                 params: dict | None = None, unroll=True, self_name=None, ctypes=None, opaque=(), cdiv=False):
        self.func = func
        self.cdiv = cdiv                   # C semantics for `/` between integer-typed operands (Cython, cdivision): a (bin CDiv a b) atom
        self.mod = mod or ModuleCtx(None)
        self.call_hook = call_hook
        self.attr_hook = attr_hook
        self.unroll = unroll
        self.env: dict[str, P] = {}
        self.events: list[Event] = []
        self.guards: tuple = ()
        self.loops: tuple = ()
        self.loop_counter = 0
        self.comp_counter = 0
        self.all_loops: list[LoopInfo] = []
        self.returns: list[Event] = Returns()
        self.returns.owner = func
        self.returns.modname = getattr(self.mod, 'modname', '') if mod is not None else ''
        if isinstance(func, (ast.FunctionDef, ast.AsyncFunctionDef)):
            ALL_EVS.append(self)
        self.ctypes = ctypes or {}
        self.fwd: dict = {}                # store-to-load forwarding for simple array cells: target key -> (base key, value)
        self._lambdas = {}
        self.opaque = set(opaque)          # local names kept as atoms instead of being inlined
        self.defs: dict = {}               # ('local', name, version) -> defining value
        self._versions: dict = {}
        if isinstance(func, (ast.FunctionDef, ast.AsyncFunctionDef)):
            a = func.args
            names = [x.arg for x in a.posonlyargs + a.args + a.kwonlyargs]
            if a.vararg:
                names.append(a.vararg.arg)
            if a.kwarg:
                names.append(a.kwarg.arg)
            for n in names:
                self.env[n] = P.name(n)
            self.param_names = names
            # defaults, for rules that want them
            self.defaults = {}
            pos = a.posonlyargs + a.args
            for arg, d in zip(pos[len(pos) - len(a.defaults):], a.defaults):
                self.defaults[arg.arg] = d
            for arg, d in zip(a.kwonlyargs, a.kw_defaults):
                if d is not None:
                    self.defaults[arg.arg] = d
            body = func.body
        else:
            self.param_names = []
            self.defaults = {}
            body = list(func)
        if params:
            self.env.update(params)
        self.body = body
        self.mutated = mutated_names(body)
        self.obj_counter = 0

    def run(self):
        self.block(self.body)
        return self

    # ------------------------------------------------------------------ events
    def emit(self, kind, node, **kw):
        e = Event(kind, node, self.guards, self.loops, **kw)
        self.events.append(e)
        if kind == "return":
            self.returns.append(e)
        return e

    # -------------------------------------------------------------- statements
    def block(self, stmts):
        saved = self.guards
        for st in stmts:
            self.stmt(st)
        self.guards = saved

    def stmt(self, st):
        m = getattr(self, "s_" + type(st).__name__, None)
        if m is None:
            for sub in ast.iter_child_nodes(st):
                if isinstance(sub, ast.expr):
                    self.ev(sub)
            return
        m(st)

    def s_Expr(self, st):
        if isinstance(st.value, ast.Constant):
            return
        v = self.ev(st.value)
        if isinstance(st.value, (ast.Yield, ast.YieldFrom)):
            self.emit("yield", st, value=v)

    def s_Pass(self, st):
        pass

    def s_Break(self, st):
        self.emit("break", st)          # with the guards and loops it happens under: "when does this loop stop early?"

    def s_Continue(self, st):
        self.emit("continue", st)

    def s_Import(self, st):
        for a in st.names:
            local = a.asname or a.name.split(".")[0]
            full = a.name if a.asname else a.name.split(".")[0]
            self.env[local] = P.name(full)
            self.emit("import", st, name=a.name, extra={"module": a.name, "symbol": None})

    def s_ImportFrom(self, st):
        base = resolve_relative(self.mod.modname, st.module, st.level)
        for a in st.names:
            full = f"{base}.{a.name}" if base else a.name
            self.env[a.asname or a.name] = P.name(full)
            self.emit("import", st, name=full, extra={"module": base, "symbol": a.name})

    def s_Global(self, st):
        pass

    s_Nonlocal = s_Global

    def s_FunctionDef(self, st):
        self.env[st.name] = P.atom(("localfn", st.name))

    s_AsyncFunctionDef = s_FunctionDef

    def s_ClassDef(self, st):
        self.env[st.name] = P.atom(("localcls", st.name))

    def s_Assign(self, st):
        if isinstance(st.value, ast.IfExp) and len(st.targets) == 1 and isinstance(st.targets[0], ast.Name):
            # x = A if c else B   is   if c: x = A  else: x = B   (one guarded assignment per alternative; the merged value is the same
            # conditional term; stores into attributes / subscripts keep the conditional term as their value)
            new = ast.If(st.value.test, [ast.copy_location(ast.Assign([st.targets[0]], st.value.body), st)],
                         [ast.copy_location(ast.Assign([st.targets[0]], st.value.orelse), st)])
            return self.stmt(ast.fix_missing_locations(ast.copy_location(new, st)))
        self.s_Assign_gen(st)
        v = self.ev(st.value)
        for t in st.targets:
            self.assign(t, v, st)

    def s_Assign_gen(self, st):
        """remember `name = (genexp)` so that a later `for x in name` over literal generators can be written out"""
        if isinstance(st, ast.Assign) and len(st.targets) == 1 and isinstance(st.targets[0], ast.Name) and isinstance(st.value, (ast.GeneratorExp, ast.ListComp)):
            if not hasattr(self, "_gen_ast"):
                self._gen_ast = {}
            if any(isinstance(n, ast.Name) and n.id == st.targets[0].id for n in ast.walk(st.value)):
                self._gen_ast.pop(st.targets[0].id, None)          # names = [f(x) for x in names]: not a literal source
            else:
                self._gen_ast[st.targets[0].id] = st.value
        elif isinstance(st, ast.Assign) and hasattr(self, "_gen_ast"):
            for t in st.targets:
                for nm in assigned_names([t]):
                    self._gen_ast.pop(nm, None)

    def s_AnnAssign(self, st):
        if st.value is not None:
            self.assign(st.target, self.ev(st.value), st)

    def assign(self, t, v: P, st):
        if isinstance(t, ast.Name) and t.id in self.opaque:
            ver = self._versions.get(t.id, 0)
            self._versions[t.id] = ver + 1
            atom = ("local", t.id, ver)
            self.defs[atom] = v
            self.env[t.id] = P.atom(atom)
            self.emit("assign", st, target=P.name(t.id), value=v, name=t.id, extra={"local": atom})
            return
        if isinstance(t, ast.Name):
            if t.id in self.mutated and not _is_obj(v) and t.id not in self.param_names and not _self_attr(v):
                # a local container that is modified in place keeps its identity instead of being inlined
                v = P.atom(("obj", t.id, self.obj_counter, v))
                self.obj_counter += 1
            self.env[t.id] = v
            self.emit("assign", st, target=P.name(t.id), value=v, name=t.id)
        elif isinstance(t, (ast.Tuple, ast.List)):
            items = seq_items(v)
            star = any(isinstance(e, ast.Starred) for e in t.elts)
            for i, e in enumerate(t.elts):
                if isinstance(e, ast.Starred):
                    if i == len(t.elts) - 1:
                        # a, *rest = seq: rest holds seq[1:]
                        self.assign(e.value, self.subscript(v, (P.atom(("slice", P.const(i), NONE, NONE)),)), st)
                    else:
                        self.assign(e.value, P.atom(("star", v, i)), st)
                elif items is not None and len(items) == len(t.elts) and not star:
                    self.assign(e, items[i], st)
                elif star and any(isinstance(x, ast.Starred) for x in t.elts[:i]):
                    # a, *rest, z = seq: the targets after the star count from the end
                    self.assign(e, self.subscript(v, (P.const(i - len(t.elts)),)), st)
                else:
                    self.assign(e, self.subscript(v, (P.const(i),)), st)
        else:
            tgt = self.ev(t, store=True)
            self.emit("store", st, target=tgt, value=v)
            self._fwd_store(tgt, v)

    def _fwd_base(self, tgt: P):
        a = tgt.as_atom()
        if not a or a[0] != "sub":
            return None
        b = a[1].as_atom()
        if b and b[0] in ("name", "obj"):
            return a[1].key()
        return None

    def _fwd_store(self, tgt: P, v: P):
        base = self._fwd_base(tgt)
        if base is None:
            return
        a = tgt.as_atom()
        consts = all(i.const_value() is not None for i in a[2])
        for k in [k for k, (b, _, c) in self.fwd.items() if b == base and not (c and consts)]:
            del self.fwd[k]
        if not any(x.as_atom() and x.as_atom()[0] == "slice" for x in a[2]) and tgt.key() not in v.key():
            self.fwd[tgt.key()] = (base, v, consts)
        else:
            self.fwd.pop(tgt.key(), None)

    def _fwd_kill(self, tgt: P = None, bases=None):
        if tgt is not None:
            base = self._fwd_base(tgt)
            bases = {base} if base else set()
            a = tgt.as_atom()
            if a and a[0] in ("sub", "attr") and not bases:
                bases = {a[1].key()}
        for k in [k for k, (b, _, _) in self.fwd.items() if b in bases]:
            del self.fwd[k]

    def _stored_bases(self, stmts):
        out = set()
        for st in stmts:
            for n in ast.walk(st):
                tg = []
                if isinstance(n, ast.Assign):
                    tg = n.targets
                elif isinstance(n, (ast.AugAssign, ast.AnnAssign)):
                    tg = [n.target]
                for t in tg:
                    for e in (t.elts if isinstance(t, (ast.Tuple, ast.List)) else [t]):
                        while isinstance(e, (ast.Subscript, ast.Attribute)):
                            e = e.value
                            if isinstance(e, ast.Name):
                                v = self.env.get(e.id)
                                out.add(v.key() if v is not None else e.id)
                                out.add(e.id)
                if isinstance(n, ast.Call):
                    # a call may write through any array argument
                    for a in n.args:
                        if isinstance(a, ast.Name):
                            v = self.env.get(a.id)
                            out.add(v.key() if v is not None else a.id)
                            out.add(a.id)
        return out

    def s_AugAssign(self, st):
        v = self.ev(st.value)
        op = type(st.op).__name__
        if isinstance(st.target, ast.Name):
            cur = self.env.get(st.target.id, P.name(st.target.id))
            new = self.binop(op, cur, v)
            self.env[st.target.id] = new
            self.emit("assign", st, target=P.name(st.target.id), value=new, name=st.target.id,
                      extra={"aug": op, "delta": v, "old": cur})
        else:
            tgt = self.ev(st.target, store=True)
            self.emit("aug", st, target=tgt, value=v, op=op)
            self._fwd_kill(tgt)

    def s_Delete(self, st):
        for t in st.targets:
            if isinstance(t, ast.Name):
                self.env.pop(t.id, None)
                self.emit("delete", st, target=P.name(t.id))
            else:
                self.emit("delete", st, target=self.ev(t, store=True))

    def s_Return(self, st):
        if isinstance(st.value, ast.IfExp):
            # return A if c else B   is   if c: return A  else: return B
            new = ast.If(st.value.test, [ast.copy_location(ast.Return(st.value.body), st)], [ast.copy_location(ast.Return(st.value.orelse), st)])
            return self.stmt(ast.fix_missing_locations(ast.copy_location(new, st)))
        v = self.ev(st.value) if st.value is not None else NONE
        self.emit("return", st, value=v)

    def s_Raise(self, st):
        v = self.ev(st.exc) if st.exc is not None else NONE
        self.emit("raise", st, value=v)

    def s_Assert(self, st):
        c = self.ev(st.test)
        self.emit("assert", st, value=c)
        self.guards = self.guards + split_guard(c, True)

    def s_If(self, st):
        # canonical orientation: `if not c: B else: A`, `if a != b: B else: A` and `if c: A else: B` produce the same
        # event stream (same order, same guards), so that no rule depends on how a two-way branch is spelled
        c, pol = canon_guard(self.ev(st.test), True)
        body, orelse = (st.body, st.orelse) if pol else (st.orelse, st.body)
        ca0 = c.as_atom()
        if ca0 and ca0[0] == "tuple":
            # `if <literal tuple>:` is decided by its length
            self.block(body if ca0[1] else orelse)
            return
        self.emit("test", st, value=c)
        env0 = dict(self.env)
        fwd0 = dict(self.fwd)
        g0 = self.guards
        self.guards = g0 + split_guard(c, True)
        self.block(body)
        env1 = self.env
        fwd1 = self.fwd
        self.env = dict(env0)
        self.fwd = dict(fwd0)
        self.guards = g0 + split_guard(c, False)
        self.block(orelse)
        env2 = self.env
        fwd2 = self.fwd
        self.guards = g0
        if terminates(body) and not terminates(orelse):
            self.fwd = fwd2
        elif terminates(orelse) and not terminates(body):
            self.fwd = fwd1
        else:
            self.fwd = {k: v for k, v in fwd1.items() if k in fwd2 and fwd2[k][1].key() == v[1].key()}
        t1, t2 = terminates(body), terminates(orelse)
        if t1 and not t2:
            self.env = env2
            self.guards = g0 + split_guard(c, False)
        elif t2 and not t1:
            self.env = env1
            self.guards = g0 + split_guard(c, True)
        else:
            merged = {}
            for k in set(env1) | set(env2):
                a, b = env1.get(k), env2.get(k)
                if a is not None and b is not None and (a is b or a.key() == b.key()):
                    merged[k] = a
                else:
                    merged[k] = mk_ite(c, a if a is not None else P.atom(("undef", k)),
                                       b if b is not None else P.atom(("undef", k)))
            self.env = merged

    def _literal_iter(self, node):
        """Constant values of a literal iterable, or None."""
        if isinstance(node, (ast.Tuple, ast.List)) and node.elts and all(
                isinstance(e, ast.Constant) or (isinstance(e, ast.UnaryOp) and isinstance(e.operand, ast.Constant))
                for e in node.elts):
            return [self.ev(e) for e in node.elts]
        if isinstance(node, ast.Call) and isinstance(node.func, ast.Name) and node.func.id == "enumerate" and "enumerate" not in self.env \
                and 1 <= len(node.args) <= 2 and all(k.arg == "start" for k in node.keywords) and len(node.args) + len(node.keywords) <= 2:
            # enumerate over a literal: (0, first), (1, second), ...
            inner = self._literal_iter(node.args[0])
            sn = node.args[1] if len(node.args) == 2 else (node.keywords[0].value if node.keywords else None)
            start = 0 if sn is None else (sn.value if isinstance(sn, ast.Constant) and type(sn.value) is int else None)
            if inner is not None and start is not None:
                return [P.atom(("tuple", (P.const(k + start), v))) for k, v in enumerate(inner)]
            return None
        if isinstance(node, ast.Name) and node.id in self.env and node.id not in self.opaque:
            # a local bound to a short string constant: its characters (symbols = "xyz"; for j, s in enumerate(symbols))
            va = self.env[node.id].as_atom()
            if va and va[0] == "str" and isinstance(va[1], str) and 1 <= len(va[1]) <= 6:
                return [P.atom(("str", c)) for c in va[1]]
        if isinstance(node, ast.Name) and node.id in getattr(self, "_gen_ast", {}) and node.id not in self.opaque:
            # a local bound to a generator expression over literals (digits = (rotation[i, j] for i in (2, 1, 0) for j in (2, 1, 0)))
            src = self._gen_ast.pop(node.id)
            try:
                return self._literal_iter(src)
            finally:
                self._gen_ast[node.id] = src
        if isinstance(node, (ast.GeneratorExp, ast.ListComp)) and not any(g.ifs or g.is_async for g in node.generators):
            # (elt for i in (2, 1, 0) for j in (2, 1, 0)): every generator literal -> the elements, first generator outermost
            lits = [self._literal_iter(g.iter) for g in node.generators]
            if all(l is not None for l in lits):
                n = 1
                for l in lits:
                    n *= len(l)
                if 0 < n <= self.MAX_UNROLL:
                    out = []

                    def rec(k):
                        if k == len(lits):
                            out.append(self.ev(node.elt))
                            return
                        for v in lits[k]:
                            self.assign(node.generators[k].target, v, node)
                            rec(k + 1)
                    saved = dict(self.env)
                    rec(0)
                    for g in node.generators:
                        for nm in assigned_names([g.target]):
                            if nm in saved:
                                self.env[nm] = saved[nm]
                            else:
                                self.env.pop(nm, None)
                    return out
            return None
        if isinstance(node, ast.Name) and node.id in self.env and node.id not in self.opaque:
            kl = self._known_list(self.env[node.id])
            if kl is not None:
                return kl
        if isinstance(node, ast.Constant) and isinstance(node.value, str) and 1 <= len(node.value) <= 6:
            # for c in "xyz": the characters, in order
            return [self.ev(ast.Constant(c)) for c in node.value]
        if isinstance(node, ast.Call) and isinstance(node.func, ast.Name) and node.func.id == "range" \
                and node.func.id not in self.env and not node.keywords:
            vals = [self.ev(a).const_value() for a in node.args]
            if all(v is not None and v.denominator == 1 for v in vals) and 1 <= len(vals) <= 3:
                r = range(*[int(v) for v in vals])
                if 0 < len(r) <= self.MAX_UNROLL:
                    return [P.const(i) for i in r]
        return None

    def _known_list(self, v):
        """The items of a local list whose whole history is in view: created from a literal in this function and only ever appended to,
        outside loops and under the guards of its creation (digits = []; digits.append(a); digits.append(b) -- after a helper was inlined
        and its counting loop unrolled).  None when anything else touches the list."""
        a = v.as_atom() if v is not None else None
        if not (a and a[0] == "obj"):
            return None
        items = seq_items(a[3])
        if items is None:
            return None
        key = v.key()
        born = [e for e in self.events if e.kind == "assign" and e.value is not None and e.value.key() == key]
        if not born or born[0].loops:
            return None
        out = list(items)
        for e in self.events:
            if e is born[0]:
                continue
            tk = e.target.key() if e.target is not None else ""
            if e.kind == "call" and tk == key + ".append" and len(e.extra.get("args", ())) == 1 and not e.loops and e.guards == born[0].guards:
                out.append(e.extra["args"][0])
                continue
            if e.kind == "assign" and e.value is not None and e.value.key() == key:
                continue                      # another name for the same list
            if e.kind == "call" and call_name(e.value.as_atom() or ()) == "len":
                continue
            if key in tk or (e.value is not None and key in e.value.key() and e.kind in ("call", "store", "aug")):
                return None
        return out if 0 < len(out) <= self.MAX_UNROLL else None

    def s_For(self, st):
        k = self.loop_counter
        self.loop_counter += 1
        lit = self._literal_iter(st.iter) if self.unroll else None
        if lit is not None:
            info = LoopInfo(k, st, "literal", tuple(sorted(assigned_names([st.target]))), None)
            self.all_loops.append(info)
            for v in lit:
                self.assign(st.target, v, st)
                self.block(st.body)
            self.block(st.orelse)
            return
        it = self.ev(st.iter)
        info = self._bind_loop(st.target, st.iter, it, k, st)
        self.all_loops.append(info)
        carried = assigned_names(st.body) - set(info.targets)
        for n in carried:
            if n in self.env:
                self.env[n] = P.atom(("lc", n, k, self.env[n]))
        saved_loops = self.loops
        self.loops = saved_loops + (info,)
        ev0 = len(self.events)
        lc_atoms = {n: self.env[n].as_atom() for n in carried if n in self.env}
        body_bases = self._stored_bases(st.body)
        self._fwd_kill(bases=body_bases)
        self.block(st.body)
        self._fwd_kill(bases=body_bases)
        self.loops = saved_loops
        closed = self._close_counters(info, lc_atoms, ev0)
        for n in carried | set(info.targets):
            if n in closed:
                self.env[n] = closed[n]
            else:
                self.env[n] = P.atom(("after", n, k))
        self._loop_else(st, k)

    def _loop_else(self, st, k):
        """for/while ... else: the else block runs only when the loop was not left by break; what it binds is merged with what the
        loop left behind (a search loop `for ..: if hit: r = i; break` / `else: r = None`)."""
        if not st.orelse:
            return
        if not has_break(st.body):
            self.block(st.orelse)
            return
        nb = P.atom(("nobreak", k))
        pre, g0 = dict(self.env), self.guards
        self.guards = g0 + ((nb, True),)
        self.block(st.orelse)
        self.guards = g0
        if terminates(st.orelse):
            self.env = pre
            self.guards = g0 + ((nb, False),)
            return
        for n in assigned_names(st.orelse):
            a, b = self.env.get(n), pre.get(n)
            if a is not None and b is not None and a.key() != b.key():
                self.env[n] = mk_ite(nb, a, b)

    def _close_counters(self, info, lc_atoms, ev0):
        """Running counters of a unit-step range loop get closed forms (sum of their per-iteration increment)."""
        from .poly import sum_range, _mentions
        out = {}
        if info.kind != "range" or info.step is None or info.step != P.const(1) or has_break(info.node.body):
            return out
        var = info.index.as_atom()
        mapping = {}
        for n, la in lc_atoms.items():
            end = self.env.get(n)
            if end is None or la is None or la[0] != "lc":
                continue
            d = end - P.atom(la)
            if any(_mentions(d, other) for other in lc_atoms.values() if other is not None):
                continue
            if find_atoms(d, lambda a: a[0] in ("after", "maybe", "tryphi")):
                continue
            init = la[3]
            entry = sum_range(d, var, info.lo, info.index)
            total = sum_range(d, var, info.lo, info.hi)
            if entry is None or total is None:
                continue
            mapping[la] = init + entry
            out[n] = init + total
        if mapping:
            for e in self.events[ev0:]:
                if e.target is not None:
                    e.target = e.target.subs(mapping)
                if e.value is not None:
                    e.value = e.value.subs(mapping)
                if e.guards:
                    e.guards = tuple((c.subs(mapping), pol) for c, pol in e.guards)
                for key in ("args",):
                    if key in e.extra:
                        e.extra[key] = tuple(a.subs(mapping) for a in e.extra[key])
                if "kwargs" in e.extra:
                    e.extra["kwargs"] = tuple((k2, v.subs(mapping)) for k2, v in e.extra["kwargs"])
                for key in ("delta", "old"):
                    if key in e.extra and isinstance(e.extra[key], P):
                        e.extra[key] = e.extra[key].subs(mapping)
            for li in self.all_loops:
                if li.k > info.k or li.k >= 1000:
                    for fld in ("iter", "lo", "hi", "step"):
                        v = getattr(li, fld)
                        if isinstance(v, P):
                            setattr(li, fld, v.subs(mapping))
            for name, v in list(self.env.items()):
                if isinstance(v, P):
                    self.env[name] = v.subs(mapping)
        return out

    s_AsyncFor = s_For

    @staticmethod
    def elem_of(it: P, idx: P) -> P:
        """The idx-th element of an iterable term; zip/enumerate are seen through."""
        a = it.as_atom()
        if a and a[0] == "call":
            c = a[1].as_atom()
            cn = c[1] if c and c[0] == "name" else None
            if cn == "zip" and (len(a) < 4 or not a[3]):
                return P.atom(("tuple", tuple(Ev.elem_of(x, idx) for x in a[2])))
            if cn == "enumerate" and a[2]:
                kw = dict(a[3]) if len(a) > 3 else {}
                start = kw.get("start", a[2][1] if len(a[2]) > 1 else P.const(0))
                return P.atom(("tuple", (idx + start, Ev.elem_of(a[2][0], idx))))
        if a and a[0] == "comp" and a[1] in ("ListComp", "GeneratorExp") and len(a) == 4 and len(a[3]) == 1 and a[3][0][0] == "range" and not a[3][0][2]:
            # the idx-th element of [ELT(v) for v in range(lo, hi)] is ELT(lo + idx): iterating a comprehension is iterating its formula
            ra = a[3][0][1].as_atom()
            rargs = ra[2] if ra and ra[0] == "call" else ()
            if len(rargs) in (1, 2):
                lo = rargs[0] if len(rargs) == 2 else P.const(0)
                lvs = [x for x in find_atoms(a[2], lambda x: x[0] == "lv" and isinstance(x[2], int) and x[2] >= 1000)]
                if lvs:
                    kmin = min(x[2] for x in lvs)
                    return a[2].subs({x: lo + idx for x in lvs if x[2] == kmin})
        if a and a[0] == "comp" and a[1] in ("ListComp", "GeneratorExp") and len(a) == 4 and len(a[3]) == 1 and a[3][0][0] in ("iter", "zip") and not a[3][0][2]:
            # the idx-th element of (ELT(x) for x in xs) is ELT(xs[idx])
            lvs = [x for x in find_atoms(a[2], lambda x: x[0] == "lv" and isinstance(x[2], int) and x[2] >= 1000)]
            if lvs:
                kmin = min(x[2] for x in lvs)
                return a[2].subs({x: idx for x in lvs if x[2] == kmin})
        return P.atom(("sub", it, (idx,)))

    def _bind_loop(self, target, iter_node, it: P, k: int, st) -> LoopInfo:
        names = tuple(sorted(assigned_names([target])))
        a = it.as_atom()
        callee = None
        args = ()
        kwargs = ()
        if a and a[0] == "call":
            callee = a[1].as_atom()
            args = a[2]
            kwargs = a[3] if len(a) > 3 else ()
        cname = callee[1] if callee and callee[0] == "name" else None
        if cname in ("range", "cython.parallel.prange", "prange") and isinstance(target, ast.Name) and 1 <= len(args) <= 3:
            idx = P.atom(("lv", target.id, k))
            if len(args) == 1:
                lo, hi, step = P.const(0), args[0], P.const(1)
            elif len(args) == 2:
                lo, hi, step = args[0], args[1], P.const(1)
            else:
                lo, hi, step = args
            if target.id.startswith("_dvl") and lo == P.const(0) and self.loops and self.loops[-1].kind == "range" and self.loops[-1].index is not None:
                # a de-vectorised inner sum (sa/normalise.py DotToLoop) over N(m) entries inside a loop over m, with N(m) + m fixed: it runs over
                # the absolute index l = m .. N(m) + m - 1 like the loop it was vectorised from
                mi = self.loops[-1].index
                from .poly import _mentions
                if mi.as_atom() is not None and not _mentions(hi + mi, mi.as_atom()) and _mentions(hi, mi.as_atom()):
                    self.env[target.id] = idx - mi
                    return LoopInfo(k, st, "range", names, it, idx, mi, hi + mi, step)
            self.env[target.id] = idx
            return LoopInfo(k, st, "range", names, it, idx, lo, hi, step)
        if cname == "enumerate" and isinstance(target, ast.Tuple) and len(target.elts) == 2 \
                and isinstance(target.elts[0], ast.Name) and args:
            start = dict(kwargs).get("start", args[1] if len(args) > 1 else P.const(0))
            idx = P.atom(("lv", target.elts[0].id, k))
            self.env[target.elts[0].id] = idx
            elem = self.elem_of(args[0], idx - start)
            self.assign(target.elts[1], elem, st)
            return LoopInfo(k, st, "enumerate", names, args[0], idx, start, None, P.const(1))
        if cname == "zip" and isinstance(target, ast.Tuple) and len(target.elts) == len(args):
            idx = P.atom(("lv", "_zip", k))
            for e, src in zip(target.elts, args):
                self.assign(e, self.elem_of(src, idx), st)
            return LoopInfo(k, st, "zip", names, it, idx)
        idx = P.atom(("lv", "_it", k))
        self.assign(target, self.elem_of(it, idx), st)
        return LoopInfo(k, st, "iter", names, it, idx)

    def s_While(self, st):
        k = self.loop_counter
        self.loop_counter += 1
        carried = assigned_names(st.body)
        for n in carried:
            if n in self.env:
                self.env[n] = P.atom(("lc", n, k, self.env[n]))
        c = self.ev(st.test)
        self.emit("test", st, value=c)
        info = LoopInfo(k, st, "while", (), c)
        self.all_loops.append(info)
        saved_loops, g0 = self.loops, self.guards
        self.loops = saved_loops + (info,)
        self.guards = g0 + (canon_guard(c, True),)
        body_bases = self._stored_bases(st.body)
        self._fwd_kill(bases=body_bases)
        self.block(st.body)
        self._fwd_kill(bases=body_bases)
        self.loops, self.guards = saved_loops, g0
        for n in carried:
            self.env[n] = P.atom(("after", n, k))
        self._loop_else(st, k)

    def s_With(self, st):
        for item in st.items:
            v = self.ev(item.context_expr)
            if item.optional_vars is not None:
                self.assign(item.optional_vars, P.atom(("with", v)), st)
        self.block(st.body)

    s_AsyncWith = s_With

    def s_Try(self, st):
        k = self.loop_counter
        self.loop_counter += 1
        env0 = dict(self.env)
        g0 = self.guards
        handled = tuple(sorted(ast.unparse(h.type) if h.type is not None else "*" for h in st.handlers))
        self.guards = g0 + ((P.atom(("try", k, handled)), True),)
        self.block(st.body)
        self.guards = g0
        self.block(st.orelse)
        env_body = self.env
        envs = [env_body]
        for h in st.handlers:
            self.env = dict(env0)
            for n in assigned_names(st.body):
                # the handler may see the value from before the try (the assignment did not happen) or the new one
                self.env[n] = P.atom(("maybe", n, k, env0[n])) if n in env0 else P.atom(("maybe", n, k))
            exc = self.ev(h.type) if h.type is not None else NONE
            self.guards = g0 + ((P.atom(("except", exc, k)), True),)
            if h.name:
                self.env[h.name] = P.atom(("exc", exc, k))
            self.block(h.body)
            if not terminates(h.body):
                envs.append(self.env)
        self.guards = g0
        merged = {}
        keys = set().union(*[set(e) for e in envs])
        for key in keys:
            vals = [e.get(key) for e in envs]
            if all(v is not None and v.key() == vals[0].key() for v in vals):
                merged[key] = vals[0]
            else:
                merged[key] = P.atom(("tryphi", key, k))
        self.env = merged
        self.block(st.finalbody)

    s_TryStar = s_Try

    def s_Match(self, st):
        self.ev(st.subject)
        for c in st.cases:
            self.block(c.body)

    # ------------------------------------------------------------- expressions
    def ev(self, node, store=False) -> P:
        m = getattr(self, "e_" + type(node).__name__, None)
        if m is None:
            kids = tuple(self.ev(c) for c in ast.iter_child_nodes(node) if isinstance(c, ast.expr))
            return P.atom((type(node).__name__.lower(),) + kids)
        if store and type(node).__name__ in ("Subscript", "Attribute"):
            return m(node, store=True)
        return m(node)

    def e_Constant(self, n):
        return _const_P(n.value)

    def e_Name(self, n):
        if n.id in self.env:
            return self.env[n.id]
        full = self.mod.alias.get(n.id)
        if full is not None:
            if full in _CANON_CONST:
                return P.name(_CANON_CONST[full])
            return P.name(full)
        if n.id in _CANON_CONST:
            return P.name(_CANON_CONST[n.id])
        return P.name(n.id)

    def e_Tuple(self, n):
        return P.atom(("tuple", tuple(self.ev(e) for e in n.elts)))

    e_List = e_Tuple

    def e_Set(self, n):
        return P.atom(("set", tuple(sorted((self.ev(e) for e in n.elts), key=lambda p: p.key()))))

    def e_Dict(self, n):
        items = []
        for k, v in zip(n.keys, n.values):
            items.append((self.ev(k) if k is not None else P.atom(("const", "**")), self.ev(v)))
        return P.atom(("dict", tuple(items)))

    def e_Starred(self, n):
        return P.atom(("starred", self.ev(n.value)))

    def e_UnaryOp(self, n):
        v = self.ev(n.operand)
        if isinstance(n.op, ast.USub):
            return -v
        if isinstance(n.op, ast.UAdd):
            return v
        if isinstance(n.op, ast.Not):
            return negate(v)
        return P.atom(("invert", v))

    _INT_CTYPES = ("int", "long", "unsigned int", "unsigned long", "unsigned", "size_t", "Py_ssize_t", "short", "long long", "unsigned long long",
                   "const int", "const unsigned int", "int32_t", "int64_t", "uint32_t", "uint64_t")

    def _is_int_expr(self, n) -> bool:
        if isinstance(n, ast.Constant):
            return type(n.value) is int
        if isinstance(n, ast.Name):
            return (self.ctypes.get(n.id) or "").strip() in self._INT_CTYPES
        if isinstance(n, ast.UnaryOp) and isinstance(n.op, (ast.USub, ast.UAdd)):
            return self._is_int_expr(n.operand)
        if isinstance(n, ast.BinOp) and isinstance(n.op, (ast.Add, ast.Sub, ast.Mult, ast.Div, ast.FloorDiv, ast.Mod)):
            return self._is_int_expr(n.left) and self._is_int_expr(n.right)
        if isinstance(n, ast.Call) and isinstance(n.func, ast.Name) and n.func.id in ("abs", "max", "min") and n.args and not n.keywords:
            return all(self._is_int_expr(a) for a in n.args)
        return False

    def e_BinOp(self, n):
        if self.cdiv and isinstance(n.op, ast.Div) and self._is_int_expr(n.left) and self._is_int_expr(n.right):
            return P.atom(("bin", "CDiv", self.ev(n.left), self.ev(n.right)))
        return self.binop(type(n.op).__name__, self.ev(n.left), self.ev(n.right))

    def binop(self, op, a: P, b: P) -> P:
        try:
            if op == "Add" and (is_pyseq(a) or is_pyseq(b)):
                return concat(a, b)
            if op == "Mult" and (is_pyseq(a) or is_pyseq(b)):
                return P.atom(("repeat", a, b) if is_pyseq(a) else ("repeat", b, a))
            if op == "Add":
                return a + b
            if op == "Sub":
                return a - b
            if op == "Mult":
                return a * b
            if op == "Div":
                if b.is_zero():
                    return P.atom(("bin", "Div", a, b))
                return a / b
            if op == "Pow":
                c = b.const_value()
                if c is not None and (c.denominator in (1, 2)) and abs(c) <= 12:
                    if c < 0 and a.is_zero():
                        return P.atom(("bin", "Pow", a, b))
                    return a ** c
        except (ZeroDivisionError, ValueError):
            pass
        if op == "MatMult":
            return matmul(a, b)
        if op == "FloorDiv":
            ca, cb = a.const_value(), b.const_value()
            if ca is not None and cb is not None and cb != 0:
                return P.const(ca // cb)
            if cb == 1 and False:
                return a
        if op == "Mod":
            ca, cb = a.const_value(), b.const_value()
            if ca is not None and cb is not None and cb != 0 and ca.denominator == 1 and cb.denominator == 1:
                return P.const(ca % cb)
        if op in ("LShift",):
            ca, cb = a.const_value(), b.const_value()
            if ca is not None and cb is not None and cb.denominator == 1 and 0 <= cb < 64 and ca.denominator == 1:
                return P.const(int(ca) << int(cb))
        return P.atom(("bin", op, a, b))

    def e_BoolOp(self, n):
        # short circuit: operand i is evaluated only when every earlier operand held (and) / failed (or); the calls made while
        # evaluating it carry those guards, exactly as if the test were written as nested ifs
        tag = "and" if isinstance(n.op, ast.And) else "or"
        g0, vals = self.guards, []
        for v in n.values:
            val = self.ev(v)
            vals.append(val)
            self.guards = self.guards + split_guard(val, tag == "and")
        self.guards = g0
        return boolop(tag, vals)

    def e_Compare(self, n):
        left = self.ev(n.left)
        parts = []
        for op, r in zip(n.ops, n.comparators):
            right = self.ev(r)
            parts.append(compare(type(op).__name__, left, right))
            left = right
        return parts[0] if len(parts) == 1 else boolop("and", parts)

    def e_IfExp(self, n):
        c = self.ev(n.test)
        a = self.ev(n.body)
        b = self.ev(n.orelse)
        return mk_ite(c, a, b)

    def e_Attribute(self, n, store=False):
        base = self.ev(n.value)
        ba = base.as_atom()
        if ba and ba[0] == "name" and not store:
            full = f"{ba[1]}.{n.attr}"
            if full in _CANON_CONST:
                return P.name(_CANON_CONST[full])
            # module attribute chains stay dotted names
            if ba[1] in _MODULE_ROOTS or ba[1].split(".")[0] in _MODULE_ROOTS:
                return P.name(full)
        if n.attr == "T" and not store:
            return transpose(base)
        if self.attr_hook is not None and not store:
            r = self.attr_hook(self, base, n.attr, n)
            if r is not None:
                return r
        return P.atom(("attr", base, n.attr))

    def e_Subscript(self, n, store=False):
        base = self.ev(n.value)
        idx = self.index(n.slice)
        return self.subscript(base, idx, store)

    def subscript(self, base: P, idx: tuple, store=False) -> P:
        if not store and self.fwd:
            k = P.atom(("sub", base, idx)).key()
            hit = self.fwd.get(k)
            if hit is not None:
                return hit[1]
        if not store:
            # elementwise functions commute with indexing: cos(x)[k] == cos(x[k])
            ba = base.as_atom()
            if ba and ba[0] == "call" and len(ba[2]) == 1 and len(ba) < 4 and len(idx) == 1 and idx[0].const_value() is not None:
                c = ba[1].as_atom()
                if c and c[0] == "name" and c[1] in _ELEMENTWISE:
                    inner_items = seq_items(ba[2][0])
                    k = idx[0].const_value()
                    if inner_items is not None and k.denominator == 1 and -len(inner_items) <= k < len(inner_items):
                        return P.atom(("call", ba[1], (inner_items[int(k)],)))
                    return P.atom(("call", ba[1], (P.atom(("sub", ba[2][0], idx)),)))
            if ba and ba[0] == "sub" and len(ba[2]) == 1 and len(idx) == 1:
                # seq[a:b][k] == seq[a + k] and seq[a:b][c:] == seq[a + c : b] for non-negative constants (no step)
                inner = ba[2][0].as_atom()
                if inner and inner[0] == "slice" and inner[3].key() == "None":
                    lo = 0 if inner[1].key() == "None" else inner[1].const_value()
                    hi = None if inner[2].key() == "None" else inner[2].const_value()
                    if lo is not None and lo >= 0 and lo.denominator == 1 and (hi is None or (hi >= 0 and hi.denominator == 1)) \
                            and (inner[2].key() == "None" or hi is not None):
                        k = idx[0].const_value()
                        if k is not None and k >= 0 and k.denominator == 1 and (hi is None or lo + k < hi):
                            return self.subscript(ba[1], (P.const(int(lo + k)),))
                        o = idx[0].as_atom()
                        if o and o[0] == "slice" and o[3].key() == "None" and o[2].key() == "None":
                            c = 0 if o[1].key() == "None" else o[1].const_value()
                            if c is not None and c >= 0 and c.denominator == 1:
                                return self.subscript(ba[1], (P.atom(("slice", P.const(int(lo + c)), inner[2], NONE)),))
            if ba and ba[0] == "str" and len(idx) == 1 and idx[0].const_value() is not None:
                # "xyz"[1] is "y"
                k = idx[0].const_value()
                if k.denominator == 1 and -len(ba[1]) <= k < len(ba[1]):
                    return P.atom(("str", ba[1][int(k)]))
            items = seq_items(base)
            if items is not None and len(idx) == 1:
                c = idx[0].const_value() if isinstance(idx[0], P) else None
                if c is not None and c.denominator == 1 and -len(items) <= c < len(items):
                    return items[int(c)]
        return P.atom(("sub", base, idx))

    def index(self, s) -> tuple:
        if isinstance(s, ast.Tuple):
            out = []
            for e in s.elts:
                out.extend(self.index(e))
            return tuple(out)
        if isinstance(s, ast.Slice):
            return (P.atom(("slice",
                            self.ev(s.lower) if s.lower is not None else NONE,
                            self.ev(s.upper) if s.upper is not None else NONE,
                            self.ev(s.step) if s.step is not None else NONE)),)
        return (self.ev(s),)

    def e_Slice(self, n):
        return self.index(n)[0]

    def e_Call(self, n):
        callee = self.ev(n.func)
        args = []
        for a in n.args:
            args.append(self.ev(a))
        lam = self._lambdas.get(callee.key()) if callee.as_atom() and callee.as_atom()[0] == "lambda" else None
        if lam is not None and not n.keywords and len(args) == len(lam.args.posonlyargs + lam.args.args) \
                and not any(isinstance(a, ast.Starred) for a in n.args):
            # (lambda p: f(p))(x) is f(x): the body evaluated with the parameters bound to the arguments (free names late-bound, as in Python)
            saved = dict(self.env)
            for a, v in zip(lam.args.posonlyargs + lam.args.args, args):
                self.env[a.arg] = v
            res = self.ev(lam.body)
            self.env = saved
            return res
        kwargs = tuple(sorted(((k.arg or "**", self.ev(k.value)) for k in n.keywords), key=lambda t: t[0]))
        args = tuple(args)
        res = self.canon_call(callee, args, kwargs, n)
        self.emit("call", n, value=res, target=callee, extra={"args": args, "kwargs": kwargs})
        if self.fwd:
            self._fwd_kill(bases={a.key() for a in args} | {v.key() for _, v in kwargs})
        return res

    def canon_call(self, callee: P, args, kwargs, node) -> P:
        ca = callee.as_atom()
        name = ca[1] if ca and ca[0] == "name" else None
        if name in ("numpy.asarray", "numpy.asanyarray") and len(args) == 1 and not kwargs and args[0].as_atom() \
                and args[0].as_atom()[0] == "name" and args[0].as_atom()[1] in self.param_names:
            # x = np.asarray(x) of a parameter, no dtype: the same values, length and dtype - the parameter itself for every rule here
            return args[0]
        if name in ("tuple", "list") and len(args) == 1 and not kwargs and args[0].as_atom() and args[0].as_atom()[0] == "tuple":
            # tuple([a, b]) / list((a, b)) of a literal is the literal
            return args[0]
        if ca and ca[0] == "attr" and ca[2] == "group" and len(args) == 1 and not kwargs and args[0].const_value() is not None \
                and args[0].const_value().denominator == 1 and args[0].const_value() >= 1:
            # m.group(k) of a match object is m.groups()[k - 1]
            return self.subscript(P.atom(("call", P.atom(("attr", ca[1], "groups")), ())), (P.const(int(args[0].const_value()) - 1),))
        if ca and ca[0] == "attr" and ca[2] in ("findall", "finditer") and len(args) == 1 and not kwargs and ca[1].as_atom() \
                and ca[1].as_atom()[0] == "name" and ca[1].as_atom()[1].isupper() and ca[1].as_atom()[1] not in self.param_names:
            # CONSTANT_PATTERN.findall(s) is re.findall(CONSTANT_PATTERN, s) (an all-capitals module constant; .findall of other objects is left alone)
            return P.atom(("call", P.name("re." + ca[2]), (ca[1], args[0])))
        if ca and ca[0] == "attr" and ca[2] in ("match", "fullmatch", "search") and len(args) == 1 and not kwargs:
            # PATTERN.match(s) of a compiled pattern is re.match(PATTERN, s) (re.compile("...").match(s) is re.match("...", s))
            ba = ca[1].as_atom()
            if ba and ba[0] == "name" and ba[1] not in ("self", "cls") and "." not in ba[1] and ba[1] not in self.param_names:
                return P.atom(("call", P.name("re." + ca[2]), (ca[1], args[0])))
            if ba and ba[0] == "call" and (ba[1].as_atom() or ("",))[0] == "name" and ba[1].as_atom()[1] == "re.compile" and len(ba[2]) == 1 \
                    and not (len(ba) > 3 and ba[3]):
                return P.atom(("call", P.name("re." + ca[2]), (ba[2][0], args[0])))
        if name == "slice" and 1 <= len(args) <= 3 and not kwargs:
            # slice(a, b) bound to a local and used as a subscript is a[a:b]
            lo, hi, st = (NONE, args[0], NONE) if len(args) == 1 else (args[0], args[1], args[2] if len(args) == 3 else NONE)
            return P.atom(("slice", lo, hi, st))
        if name == "dict" and not args and kwargs:
            # dict(a=1, b=2) is the literal {"a": 1, "b": 2}
            return P.atom(("dict", tuple((P.atom(("str", k)), v) for k, v in kwargs)))
        if name is not None:
            canon = _CANON_CALL.get(name)
            if canon and not kwargs:
                if canon == "abs" and len(args) == 1:
                    return P.atom(("call", P.name("abs"), args))
                return P.atom(("call", P.name(canon), args))
            if name in ("numpy.dot", "numpy.matmul") and len(args) == 2 and not kwargs:
                return matmul(args[0], args[1])
            if name == "numpy.transpose" and len(args) == 1 and not kwargs:
                return transpose(args[0])
            if name == "numpy.square" and len(args) == 1:
                return args[0] * args[0]
            if name in ("numpy.power", "pow", "math.pow", "libc.math.pow") and len(args) == 2 and not kwargs:
                return self.binop("Pow", args[0], args[1])
            if name in ("numpy.add", "numpy.subtract", "numpy.multiply", "numpy.divide", "numpy.true_divide") \
                    and len(args) == 2 and not kwargs:
                return self.binop({"add": "Add", "subtract": "Sub", "multiply": "Mult", "divide": "Div",
                                   "true_divide": "Div"}[name.split(".")[1]], args[0], args[1])
            if name in ("float", "numpy.float64", "numpy.asarray", "numpy.asanyarray", "numpy.ascontiguousarray") \
                    and len(args) == 1 and not kwargs and name == "float":
                return args[0]
        elif ca and ca[0] == "attr":
            meth = ca[2]
            if meth == "dot" and len(args) == 1 and not kwargs:
                return matmul(ca[1], args[0])
            if meth == "transpose" and not args and not kwargs:
                return transpose(ca[1])
            if meth in ("min", "max", "sum", "mean", "prod", "any", "all", "argmin", "argmax", "std", "var", "cumsum", "cumprod") \
                    and ca[1].key() not in ("self", "cls") and not (ca[1].as_atom() or ("",))[0] == "str":
                # X.min(axis=0) is numpy.min(X, axis=0): one spelling for array reductions
                full = P.name("numpy." + meth)
                return P.atom(("call", full, (ca[1],) + tuple(args), kwargs)) if kwargs else P.atom(("call", full, (ca[1],) + tuple(args)))
        if self.call_hook is not None:
            r = self.call_hook(self, callee, args, kwargs, node)
            if r is not None:
                return r
        if kwargs:
            return P.atom(("call", callee, args, kwargs))
        return P.atom(("call", callee, args))

    def e_JoinedStr(self, n):
        parts = []
        for v in n.values:
            if isinstance(v, ast.Constant):
                parts.append(("lit", v.value))
            else:
                spec = None
                if v.format_spec is not None:
                    spec = self._fold_spec(v.format_spec)
                val = self.ev(v.value)
                va = val.as_atom()
                if spec is None and v.conversion == -1 and va and va[0] == "str":
                    parts.append(("lit", va[1]))
                    continue
                parts.append(("fmt", val, v.conversion, spec))
        # constant-only f-strings fold to a string
        if all(p[0] == "lit" for p in parts):
            return P.atom(("str", "".join(p[1] for p in parts)))
        return P.atom(("fstr", tuple(parts)))

    def _fold_spec(self, spec_node):
        """A format spec with nested fields that are module-level integer / string constants (f"{x:>{WIDTH}}") is the literal spec."""
        if isinstance(spec_node, ast.JoinedStr) and any(isinstance(v, ast.FormattedValue) for v in spec_node.values):
            out = []
            for v in spec_node.values:
                if isinstance(v, ast.Constant):
                    out.append(str(v.value))
                elif isinstance(v, ast.FormattedValue) and isinstance(v.value, ast.Name) and v.conversion == -1 and v.format_spec is None \
                        and v.value.id not in self.env and isinstance(self.mod.consts.get(v.value.id), ast.Constant) \
                        and type(self.mod.consts[v.value.id].value) in (int, str):
                    out.append(str(self.mod.consts[v.value.id].value))
                elif isinstance(v, ast.FormattedValue) and isinstance(v.value, ast.Constant) and type(v.value.value) in (int, str) \
                        and v.conversion == -1 and v.format_spec is None:
                    out.append(str(v.value.value))           # a constant already written in (sa/tablefold.py)
                else:
                    return self.ev(spec_node)
            return P.atom(("str", "".join(out)))
        return self.ev(spec_node)

    def e_FormattedValue(self, n):
        return P.atom(("fmt", self.ev(n.value), n.conversion, self.ev(n.format_spec) if n.format_spec else None))

    def e_Lambda(self, n):
        saved = dict(self.env)
        k = self.comp_counter
        self.comp_counter += 1
        names = [a.arg for a in n.args.posonlyargs + n.args.args + n.args.kwonlyargs]
        for i, a in enumerate(names):
            self.env[a] = P.atom(("larg", i, k))
        nev = len(self.events)
        body = self.ev(n.body)
        del self.events[nev:]
        self.env = saved
        res = P.atom(("lambda", len(names), body))
        if not (n.args.vararg or n.args.kwarg or n.args.defaults or n.args.kw_defaults or n.args.kwonlyargs):
            self._lambdas[res.key()] = n
        return res

    def _comp(self, n, elts):
        # a list/tuple comprehension over a short literal is unrolled into a tuple of its items
        if isinstance(n, (ast.ListComp, ast.GeneratorExp)) and len(n.generators) == 1 and not n.generators[0].ifs and self.unroll:
            lit = self._literal_iter(n.generators[0].iter)
            if lit is not None:
                saved = dict(self.env)
                items = []
                for v in lit:
                    self.assign(n.generators[0].target, v, n)
                    items.append(self.ev(elts[0]))
                self.env = saved
                return P.atom(("tuple", tuple(items)))
        if isinstance(n, (ast.ListComp, ast.GeneratorExp)) and len(n.generators) == 1 and not n.generators[0].ifs and self.unroll \
                and isinstance(n.generators[0].iter, ast.Name):
            itv = self.ev(n.generators[0].iter).as_atom()
            if itv and itv[0] == "tuple" and len(itv[1]) <= self.MAX_UNROLL and n.generators[0].iter.id in self.env:
                # a local bound to a literal tuple: the comprehension is the tuple of its elements
                saved = dict(self.env)
                items = []
                for v in itv[1]:
                    self.assign(n.generators[0].target, v, n)
                    items.append(self.ev(elts[0]))
                self.env = saved
                return P.atom(("tuple", tuple(items)))
        saved = dict(self.env)
        gens = []
        for g in n.generators:
            k = self.comp_counter
            self.comp_counter += 1
            it = self.ev(g.iter)
            lk = 1000 + k
            info = self._bind_loop(g.target, g.iter, it, lk, n)
            conds = tuple(self.ev(c) for c in g.ifs)
            gens.append((info.kind, it, conds))
        vals = tuple(self.ev(e) for e in elts)
        self.env = saved
        return P.atom(("comp", type(n).__name__) + vals + (tuple(gens),))

    def e_ListComp(self, n):
        return self._comp(n, [n.elt])

    e_SetComp = e_ListComp
    e_GeneratorExp = e_ListComp

    def e_DictComp(self, n):
        return self._comp(n, [n.key, n.value])

    def e_NamedExpr(self, n):
        v = self.ev(n.value)
        self.assign(n.target, v, n)
        return v

    def e_Yield(self, n):
        return P.atom(("yield", self.ev(n.value) if n.value else NONE))

    def e_Await(self, n):
        return self.ev(n.value)


_MODULE_ROOTS = {"numpy", "np", "math", "scipy", "os", "re", "json", "logging", "copy", "itertools", "collections",
                 "chmpy", "trimesh", "matplotlib", "libc", "cython", "fractions", "pathlib", "sys", "functools"}


def seq_items(v: P):
    """Items of a literal tuple/list term (also through numpy.array(literal))."""
    a = v.as_atom()
    if a and a[0] == "tuple":
        return a[1]
    if a and a[0] == "call":
        c = a[1].as_atom()
        if c and c[0] == "name" and c[1] in ("numpy.array", "numpy.asarray", "tuple", "list") and len(a[2]) >= 1:
            return seq_items(a[2][0])
    return None


def matrix_items(v: P):
    """Rows of a literal 2-D array term as a list of lists of P, or None."""
    rows = seq_items(v)
    if rows is None:
        return None
    out = []
    for r in rows:
        it = seq_items(r)
        if it is None:
            return None
        out.append(list(it))
    return out


def parity_of(cond: P):
    """If cond means 'x is odd' return x (a P), if 'x is even' return (x, False) ... -> (x, odd_when_true) or None."""
    a = cond.as_atom()
    if not a:
        return None
    if a[0] == "bin" and a[1] == "BitAnd" and a[3] == P.const(1):
        return a[2], True
    if a[0] == "bin" and a[1] == "BitAnd" and a[2] == P.const(1):
        return a[3], True
    if a[0] == "bin" and a[1] == "Mod" and a[3] == P.const(2):
        return a[2], True
    if a[0] in ("eq", "ne"):
        for x, y in ((a[1], a[2]), (a[2], a[1])):
            inner = parity_of(y)
            c = x.const_value()
            if inner is not None and inner[1] and c is not None and c in (0, 1):
                odd = (c == 1) == (a[0] == "eq")
                return inner[0], odd
    if a[0] == "not":
        inner = parity_of(a[1])
        if inner is not None:
            return inner[0], not inner[1]
    return None


def mk_ite(c: P, a: P, b: P) -> P:
    if a.key() == b.key():
        return a
    if c.key() in ("True", "False"):
        return a if c.key() == "True" else b         # a constant a helper's argument put there
    c, pol = canon_guard(c, True)
    if not pol:
        a, b = b, a
    par = parity_of(c)
    if par is not None:
        x, odd_true = par
        try:
            if (a + b).is_zero():
                S = P.atom(("parity", x))          # (-1)**x
                # value is a when the condition holds
                return (b * S) if odd_true else (a * S)
        except Exception:
            pass
    return P.atom(("ite", c, a, b))


def is_pyseq(v: P) -> bool:
    """Definitely a Python list/tuple/str (so that + is concatenation, not arithmetic)."""
    a = v.as_atom()
    if not a:
        return False
    if a[0] in ("tuple", "str", "fstr", "concat", "repeat"):
        return True
    if a[0] == "obj":
        return is_pyseq(a[3])
    if a[0] == "comp":
        return a[1] == "ListComp"
    if a[0] == "call":
        c = a[1].as_atom()
        if c and c[0] == "name" and c[1] in ("list", "tuple", "sorted", "str"):
            return True
        if c and c[0] == "attr" and c[2] in ("join", "format", "splitlines", "split", "strip", "lower", "upper"):
            return True
    return False


def concat(a: P, b: P) -> P:
    items = []
    for x in (a, b):
        xa = x.as_atom()
        if xa and xa[0] == "concat":
            items.extend(xa[1])
        else:
            items.append(x)
    # (a, b) + (c,) of literal tuples is the literal (a, b, c)
    if all(i.as_atom() and i.as_atom()[0] == "tuple" for i in items):
        return P.atom(("tuple", tuple(e for i in items for e in i.as_atom()[1])))
    return P.atom(("concat", tuple(items)))


def transpose(x: P) -> P:
    a = x.as_atom()
    if a and a[0] == "T":
        return a[1]
    if a and a[0] == "matmul":
        return matmul_list([transpose(f) for f in reversed(a[1])])
    return P.atom(("T", x))


def matmul_list(fs) -> P:
    flat = []
    for f in fs:
        a = f.as_atom()
        if a and a[0] == "matmul":
            flat.extend(a[1])
        else:
            flat.append(f)
    if len(flat) == 1:
        return flat[0]
    return P.atom(("matmul", tuple(flat)))


def matmul(a: P, b: P) -> P:
    return matmul_list([a, b])


def canon_guard(c: "P", pol: bool):
    """Canonical (condition, polarity) of a two-way test: explicit `not` is stripped and ne / not in / is not / <=
    are expressed through eq / in / is / < with the polarity flipped (a <= b  is  not (b < a))."""
    while True:
        a = c.as_atom()
        if a and a[0] == "not":
            c, pol = a[1], not pol
            continue
        if a and a[0] in ("ne", "notin", "isnot", "le"):
            c, pol = negate(c), not pol
        return c, pol


def split_guard(c: "P", pol: bool):
    """The atomic guards a compound condition stands for:  (a and b) holding is a holding and b holding;  (a or b) failing is a
    failing and b failing.  `if a or b: continue` therefore dominates what follows like `if a: continue` + `if b: continue`."""
    c, pol = canon_guard(c, pol)
    a = c.as_atom()
    if a and ((a[0] == "and" and pol) or (a[0] == "or" and not pol)):
        out = ()
        for item in a[1]:
            out = out + split_guard(item, pol)
        return out
    return ((c, pol),)


def negate(v: P) -> P:
    a = v.as_atom()
    if a:
        if a[0] == "not":
            return a[1]
        if a[0] == "const" and isinstance(a[1], bool):
            return P.atom(("const", not a[1]))
        flip = {"lt": "ge", "ge": "lt", "le": "gt", "gt": "le", "eq": "ne", "ne": "eq", "in": "notin",
                "notin": "in", "is": "isnot", "isnot": "is"}
        if a[0] in flip:
            return _mkcmp(flip[a[0]], a[1], a[2])
    return P.atom(("not", v))


def _mkcmp(tag, a, b):
    # canonical: gt/ge are rewritten to lt/le with swapped operands; eq/ne sorted
    if tag == "gt":
        tag, a, b = "lt", b, a
    elif tag == "ge":
        tag, a, b = "le", b, a
    if tag in ("eq", "ne", "is", "isnot") and a.key() > b.key():
        a, b = b, a
    return P.atom((tag, a, b))


def compare(opname, a, b):
    tag = {"Lt": "lt", "LtE": "le", "Gt": "gt", "GtE": "ge", "Eq": "eq", "NotEq": "ne", "In": "in",
           "NotIn": "notin", "Is": "is", "IsNot": "isnot"}[opname]
    return _mkcmp(tag, a, b)


def boolop(tag, vals):
    flat = []
    for v in vals:
        a = v.as_atom()
        if a and a[0] == tag:
            flat.extend(a[1])
        else:
            flat.append(v)
    seen = {}
    for v in flat:
        seen.setdefault(v.key(), v)
    items = tuple(seen[k] for k in sorted(seen))
    if len(items) == 1:
        return items[0]
    return P.atom((tag, items))


# ---------------------------------------------------------------- helpers for rules
def find_atoms(x, pred, out=None):
    """All atoms (recursively) satisfying pred."""
    if out is None:
        out = []
    seen = set()

    def rec(y):
        if isinstance(y, P):
            for a in y.atoms():
                rec_atom(a)
        elif isinstance(y, tuple):
            rec_atom(y)

    def rec_atom(a):
        try:
            if a in seen:
                return
            seen.add(a)
        except TypeError:
            pass
        if isinstance(a, tuple):
            if a and isinstance(a[0], str) and pred(a):
                out.append(a)
            for z in a:
                if isinstance(z, (P, tuple)):
                    rec(z)

    rec(x)
    return out


def call_name(atom):
    """Dotted callee name of a ('call', ...) atom, or 'attr:<method>' for method calls, else None."""
    if not (isinstance(atom, tuple) and atom and atom[0] == "call"):
        return None
    c = atom[1].as_atom() if isinstance(atom[1], P) else None
    if not c:
        return None
    if c[0] == "name":
        return c[1]
    if c[0] == "attr":
        return "." + c[2]
    return None


def guard_holds(guards, cond: "P") -> bool:
    """The condition (in any spelling) is one of the dominating guards (guards are stored in canonical orientation)."""
    c, pol = canon_guard(cond, True)
    return any(g.key() == c.key() and gp == pol for g, gp in guards)


def guard_implies(guards, pred) -> bool:
    """Some dominating guard (cond, polarity) satisfies pred(cond_atom_or_P, polarity)."""
    for c, pol in guards:
        if pred(c, pol):
            return True
    return False
