"""Role specifications (sa/roles.py) for the locals the rules refer to, per analysed function.

Each entry says how a local is recognised in the current source *whatever it is called*: by the API call, attribute or
literal it is bound from.  The canonical name (the key) is only the handle the rules use.
"""

T = "np\\.tile\\("

ROLES = {
    ("crystal/crystal.py", "Crystal.to_shelx_string"): {
        "shelx_data": r"^\{.*'CELL':",          # the literal is too long for a generated shape
    },
}
