"""A small abstract interpreter that decides "this integer helper never returns less than its first argument".

Used for the FFT-length helper of the spherical-harmonic transform: the number of longitudes must be at least 2 L + 1, and
the helper that rounds 2 L + 1 to a convenient FFT length may only round *up*.

Domain.  Every integer variable is either
  ("rel", c)      value >= n0 + c         (n0 = the first argument on entry; c may be -inf), with an `exact` flag when
                  value == n0 + c, or
  ("abs", lo, hi) an absolute interval.
n0 itself has a known absolute lower bound that guards refine (after `if n <= fmax: return n` with fmax = 7: n0 >= 8).
Other parameters are bound to their literal defaults (the analysed call sites pass none).  Loops: a `while` whose test is
decided true on entry runs at least once; a variable that the body only ever increases by positive constants keeps its
lower bound plus the smallest unconditional increase of one iteration; everything else assigned in a loop is unknown.
A called helper contributes a contract only if it is proved here as well (``while i < n: i *= 2; return i``).
Anything outside this fragment makes the analysis answer "not decided" (None) - never "holds".
"""
from __future__ import annotations

import ast

NEG = float("-inf")
POS = float("inf")


class NotDecided(Exception):
    pass


def rel(c, exact=False):
    return ("rel", c, exact)


def absv(lo, hi):
    return ("abs", lo, hi)


UNKNOWN = ("rel", NEG, False)


def proves_doubling_helper(fn: ast.FunctionDef) -> bool:
    """i = <positive const>; while i < n: i *= k (k >= 2); return i   =>  result >= n."""
    body = [s for s in fn.body if not (isinstance(s, ast.Expr) and isinstance(s.value, ast.Constant))]
    if len(body) != 3 or len(fn.args.args) != 1:
        return False
    a, w, r = body
    n = fn.args.args[0].arg
    tgt = a.targets[0] if isinstance(a, ast.Assign) and len(a.targets) == 1 else a.target if isinstance(a, ast.AnnAssign) else None
    if not (isinstance(tgt, ast.Name) and isinstance(a.value, ast.Constant) and isinstance(a.value.value, int) and a.value.value >= 1):
        return False
    i = tgt.id
    ok_test = False
    if isinstance(w, ast.While) and isinstance(w.test, ast.Compare) and len(w.test.ops) == 1 and not w.orelse \
            and not any(isinstance(x, ast.Break) for x in ast.walk(w)):
        le, op, ri = w.test.left, w.test.ops[0], w.test.comparators[0]
        if isinstance(op, ast.Gt):
            le, ri, op = ri, le, ast.Lt()
        ok_test = isinstance(op, ast.Lt) and isinstance(le, ast.Name) and le.id == i and isinstance(ri, ast.Name) and ri.id == n
    ok_ret = isinstance(r, ast.Return) and isinstance(r.value, ast.Name) and r.value.id == i
    only_grows = all(isinstance(s, ast.AugAssign) and isinstance(s.target, ast.Name) and s.target.id == i and isinstance(s.op, ast.Mult)
                     and isinstance(s.value, ast.Constant) and isinstance(s.value.value, int) and s.value.value >= 2 for s in (w.body if ok_test else [None]))
    return bool(ok_test and ok_ret and only_grows)


class LowerBound:
    def __init__(self, fn: ast.FunctionDef, helpers: dict):
        self.fn = fn
        self.helpers = helpers          # name -> True when the helper is proved to return >= its argument
        self.n0 = fn.args.args[0].arg
        self.n0_min = NEG
        self.returns = []               # (lineno, abstract value)

    # ---------------------------------------------------------------- expressions
    def abs_of(self, v):
        """absolute interval of a value (using the lower bound of n0 for relative values)"""
        if v[0] == "abs":
            return v[1], v[2]
        lo = self.n0_min + v[1] if v[1] != NEG and self.n0_min != NEG else NEG
        return lo, POS

    def ev(self, e, env):
        if isinstance(e, ast.Constant) and isinstance(e.value, (int, bool)):
            return absv(int(e.value), int(e.value))
        if isinstance(e, ast.Name):
            return env.get(e.id, UNKNOWN)
        if isinstance(e, ast.BinOp):
            a, b = self.ev(e.left, env), self.ev(e.right, env)
            if isinstance(e.op, ast.BitAnd) and b[0] == "abs" and b[1] == b[2] and b[1] >= 0:
                return absv(0, b[1])
            if isinstance(e.op, (ast.Add, ast.Sub)):
                sgn = 1 if isinstance(e.op, ast.Add) else -1
                if a[0] == "abs" and b[0] == "abs":
                    return absv(a[1] + sgn * (b[1] if sgn > 0 else b[2]), a[2] + sgn * (b[2] if sgn > 0 else b[1]))
                if a[0] == "rel" and b[0] == "abs":
                    low = b[1] if sgn > 0 else b[2]
                    return rel(a[1] + sgn * low if a[1] != NEG else NEG, a[2] and b[1] == b[2])
                if a[0] == "abs" and b[0] == "rel" and sgn > 0:
                    return rel(b[1] + a[1] if b[1] != NEG else NEG, b[2] and a[1] == a[2])
                return UNKNOWN
            if isinstance(e.op, ast.Mult) and a[0] == "abs" and b[0] == "abs" and a[1] >= 0 and b[1] >= 0:
                return absv(a[1] * b[1], a[2] * b[2])
            return UNKNOWN              # //, >>, %, * on relative values ... : no lower bound relative to the argument
        if isinstance(e, ast.Call) and isinstance(e.func, ast.Name) and len(e.args) == 1 and not e.keywords and self.helpers.get(e.func.id):
            a = self.ev(e.args[0], env)
            if a[0] == "rel":
                return rel(a[1], False)
            return absv(a[1], POS)
        return UNKNOWN

    def test(self, t, env):
        """True / False when the comparison is decided, else None."""
        if isinstance(t, ast.Compare) and len(t.ops) == 1:
            a, b = self.abs_of(self.ev(t.left, env)), self.abs_of(self.ev(t.comparators[0], env))
            op = t.ops[0]
            if isinstance(op, ast.Lt):
                return True if a[1] < b[0] else False if a[0] >= b[1] else None
            if isinstance(op, ast.LtE):
                return True if a[1] <= b[0] else False if a[0] > b[1] else None
            if isinstance(op, ast.Gt):
                return True if a[0] > b[1] else False if a[1] <= b[0] else None
            if isinstance(op, ast.GtE):
                return True if a[0] >= b[1] else False if a[1] < b[0] else None
            if isinstance(op, ast.Eq):
                return False if a[1] < b[0] or b[1] < a[0] else (True if a[0] == a[1] == b[0] == b[1] else None)
            if isinstance(op, ast.NotEq):
                return True if a[1] < b[0] or b[1] < a[0] else (False if a[0] == a[1] == b[0] == b[1] else None)
        return None

    def refine_false(self, t, env):
        """what the falsity of `n0 <= C` / `n0 < C` tells about n0"""
        if not (isinstance(t, ast.Compare) and len(t.ops) == 1):
            return          # no refinement (sound)
        va, vb, op = self.ev(t.left, env), self.ev(t.comparators[0], env), t.ops[0]

        def is_n0(v):
            return v[0] == "rel" and v[2] and v[1] == 0
        if is_n0(va) and vb[0] == "abs" and isinstance(op, (ast.LtE, ast.Lt)):
            # not (n0 <= C)  =>  n0 >= C + 1 ;  not (n0 < C)  =>  n0 >= C
            self.n0_min = max(self.n0_min, vb[1] + (1 if isinstance(op, ast.LtE) else 0))
        elif is_n0(vb) and va[0] == "abs" and isinstance(op, (ast.GtE, ast.Gt)):
            # not (C >= n0)  =>  n0 >= C + 1 ;  not (C > n0)  =>  n0 >= C
            self.n0_min = max(self.n0_min, va[1] + (1 if isinstance(op, ast.GtE) else 0))

    # ---------------------------------------------------------------- statements
    def block(self, stmts, env):
        """returns the environment at the end, or None when every path returned"""
        for st in stmts:
            if env is None:
                return None
            if isinstance(st, ast.Expr) and isinstance(st.value, ast.Constant):
                continue
            if isinstance(st, ast.Return) and isinstance(st.value, ast.IfExp):
                # return A if c else B   is   if c: return A  else: return B
                new = ast.If(st.value.test, [ast.copy_location(ast.Return(st.value.body), st)], [ast.copy_location(ast.Return(st.value.orelse), st)])
                ast.fix_missing_locations(ast.copy_location(new, st))
                return self.block([new], env)
            if isinstance(st, ast.Return):
                self.returns.append((st.lineno, self.ev(st.value, env) if st.value is not None else UNKNOWN))
                return None
            if isinstance(st, ast.Assign) and len(st.targets) == 1 and isinstance(st.targets[0], ast.Name):
                env = dict(env)
                env[st.targets[0].id] = self.ev(st.value, env)
            elif isinstance(st, ast.AnnAssign) and isinstance(st.target, ast.Name) and st.value is not None:
                env = dict(env)
                env[st.target.id] = self.ev(st.value, env)
            elif isinstance(st, ast.AugAssign) and isinstance(st.target, ast.Name):
                env = dict(env)
                env[st.target.id] = self.ev(ast.BinOp(ast.Name(st.target.id, ast.Load()), st.op, st.value), env)
            elif isinstance(st, ast.If):
                d = self.test(st.test, env)
                e1 = self.block(st.body, dict(env)) if d is not False else None
                if d is not True:
                    saved = self.n0_min
                    if d is None and e1 is None:
                        self.refine_false(st.test, env)     # the body returned on every path: below, the test is false
                    e2 = self.block(st.orelse, dict(env))
                    if not (d is None and e1 is None):
                        self.n0_min = saved
                else:
                    e2 = None
                    if d is True:
                        e2 = None
                envs = [x for x in (e1, e2 if d is not True else None) if x is not None]
                if d is True:
                    envs = [x for x in (e1,) if x is not None]
                if not envs:
                    return None
                env = self.join(envs)
            elif isinstance(st, ast.While):
                env = self.loop(st, env)
            elif isinstance(st, ast.Pass):
                continue
            else:
                raise NotDecided(f"statement {type(st).__name__} at line {st.lineno}")
        return env

    def join(self, envs):
        out = {}
        for k in set().union(*envs):
            vals = [e.get(k, UNKNOWN) for e in envs]
            if all(v[0] == "abs" for v in vals):
                out[k] = absv(min(v[1] for v in vals), max(v[2] for v in vals))
            elif all(v[0] == "rel" for v in vals):
                out[k] = rel(min(v[1] for v in vals), all(v[2] for v in vals) and len({v[1] for v in vals}) == 1)
            else:
                out[k] = UNKNOWN
        return out

    def loop(self, st, env):
        if st.orelse or any(isinstance(x, (ast.Break, ast.Return)) for x in ast.walk(st)):
            raise NotDecided(f"while loop with break/return/else at line {st.lineno}")
        first = self.test(st.test, env)
        assigned = {}
        for x in ast.walk(st):
            if isinstance(x, ast.AnnAssign) and isinstance(x.target, ast.Name):
                assigned.setdefault(x.target.id, []).append(x)
            if isinstance(x, ast.Assign):
                for t in x.targets:
                    for nm in ast.walk(t):
                        if isinstance(nm, ast.Name):
                            assigned.setdefault(nm.id, []).append(x)
            elif isinstance(x, ast.AugAssign) and isinstance(x.target, ast.Name):
                assigned.setdefault(x.target.id, []).append(x)
        out = dict(env)
        for name, sites in assigned.items():
            grows = all(isinstance(s, ast.AugAssign) and isinstance(s.op, ast.Add) and isinstance(s.value, ast.Constant)
                        and isinstance(s.value.value, int) and s.value.value > 0 for s in sites)
            v = env.get(name, UNKNOWN)
            if grows and v[0] == "rel":
                # unconditional increases of one iteration: augmented assignments that are direct statements of the loop body
                per_iter = sum(s.value.value for s in st.body if isinstance(s, ast.AugAssign) and isinstance(s.target, ast.Name) and s.target.id == name)
                out[name] = rel(v[1] + (per_iter if first is True else 0) if v[1] != NEG else NEG, False)
            elif grows and v[0] == "abs":
                out[name] = absv(v[1], POS)
            else:
                out[name] = UNKNOWN
        return out

    def run(self):
        env = {self.n0: rel(0, True)}
        args = self.fn.args
        pos = args.args
        for a, d in zip(pos[len(pos) - len(args.defaults):], args.defaults):
            if isinstance(d, ast.Constant) and isinstance(d.value, int):
                env[a.arg] = absv(d.value, d.value)
        end = self.block(self.fn.body, env)
        if end is not None:
            self.returns.append((self.fn.end_lineno, UNKNOWN))      # falls off the end: returns None
        return self.returns


def returns_at_least_argument(fn: ast.FunctionDef, module_funcs: dict):
    """(True/False, detail) or (None, reason) when the function is outside the decidable fragment."""
    helpers = {name: proves_doubling_helper(f) for name, f in module_funcs.items() if isinstance(f, ast.FunctionDef) and "." not in name}
    lb = LowerBound(fn, helpers)
    try:
        rets = lb.run()
    except NotDecided as e:
        return None, str(e)
    bad = [(ln, v) for ln, v in rets if not (v[0] == "rel" and v[1] >= 0)]
    if not rets:
        return None, "no return found"
    return (not bad), [f"line {ln}: result >= argument {('+ ' + str(v[1])) if v[0] == 'rel' and v[1] != NEG else 'is not established'}" for ln, v in (bad or rets)]
