"""Small tag classifiers over normal-form terms (DESIGN.md 3.3): coordinate space, lattice-length kind, angle unit.

Every classifier returns a definite tag or None (= unknown, never an alarm by itself).
"""
from __future__ import annotations

from .poly import P
from .symex import call_name, find_atoms, seq_items

DIRECT_ATTRS = {"lengths", "a", "b", "c"}
RECIP_ATTRS = {"a_star", "b_star", "c_star"}
RAD_ATTRS = {"angles", "alpha", "beta", "gamma"}
DEG_ATTRS = {"alpha_deg", "beta_deg", "gamma_deg"}


def _kw(a, name):
    if len(a) > 3:
        for k, v in a[3]:
            if k == name:
                return v
    return None


def length_kind(term: P, resolver=None):
    """'direct' | 'recip' | 'wrong-axis' | None for a per-axis length-like term."""
    a = term.as_atom()
    if not a:
        return None
    if a[0] == "attr":
        if a[2] in DIRECT_ATTRS:
            return "direct"
        if a[2] in RECIP_ATTRS:
            return "recip"
        if resolver is not None:
            return resolver(a[1], a[2], ())
        return None
    if a[0] == "tuple":
        kinds = {length_kind(x, resolver) for x in a[1]}
        return kinds.pop() if len(kinds) == 1 else None
    if a[0] == "call":
        cn = call_name(a)
        if cn in ("numpy.array", "numpy.asarray", "numpy.abs", "abs", "numpy.asanyarray", "numpy.ascontiguousarray", "tuple", "list") and a[2]:
            return length_kind(a[2][0], resolver)
        if cn == "numpy.linalg.norm" and a[2]:
            m = a[2][0].as_atom()
            axis = _kw(a, "axis")
            if axis is None and len(a[2]) > 2:
                axis = a[2][2]
            ax = axis.const_value() if axis is not None else None
            if m and m[0] == "attr" and ax is not None:
                if m[2] == "inverse":
                    return "recip" if ax == 0 else "wrong-axis"
                if m[2] == "reciprocal_lattice":
                    return "recip" if ax == 1 else "wrong-axis"
                if m[2] in ("direct", "lattice"):
                    return "direct" if ax == 1 else "wrong-axis"
            return None
        if cn == "sqrt" and a[2]:
            # sqrt(sum(M**2, axis=k))
            inner = a[2][0].as_atom()
            if inner and inner[0] == "call" and call_name(inner) in ("numpy.sum", ".sum"):
                arg = inner[2][0] if inner[2] else (inner[1].as_atom()[1] if inner[1].as_atom() else None)
                axis = _kw(inner, "axis")
                ax = axis.const_value() if axis is not None else None
                for m in find_atoms(arg, lambda t: t[0] == "attr" and t[2] in ("inverse", "reciprocal_lattice", "direct", "lattice")):
                    if m[2] == "inverse":
                        return "recip" if ax == 0 else "wrong-axis"
                    if m[2] == "reciprocal_lattice":
                        return "recip" if ax == 1 else "wrong-axis"
                    return "direct" if ax == 1 else "wrong-axis"
            return None
        c = a[1].as_atom()
        if c and c[0] == "attr" and resolver is not None:
            return resolver(c[1], c[2], a[2])
    return None


def space_of(term: P):
    """'frac' | 'cart' | None for a coordinate-valued term."""
    a = term.as_atom()
    if not a:
        # sums: all terms must agree
        kinds = set()
        if term.is_poly():
            for m, c in term.n.items():
                for at, e in m:
                    k = space_of(P.atom(at))
                    if k:
                        kinds.add(k)
        return kinds.pop() if len(kinds) == 1 else None
    if a[0] == "call":
        cn = call_name(a)
        if cn == ".to_fractional":
            return "frac"
        if cn == ".to_cartesian":
            return "cart"
        if cn in ("numpy.array", "numpy.asarray", "numpy.atleast_2d", "numpy.atleast_1d", "numpy.ascontiguousarray", "numpy.asanyarray",
                  "numpy.max", "numpy.min", "numpy.amax", "numpy.amin", "numpy.vstack", "numpy.copy") and a[2]:
            return space_of(a[2][0])
        if cn in (".max", ".min", ".copy", ".reshape", ".astype") and isinstance(a[1], P) and a[1].as_atom() and a[1].as_atom()[0] == "attr":
            return space_of(a[1].as_atom()[1])      # reductions / copies stay in the space of what they are taken of
        return None
    if a[0] == "attr":
        if a[2] == "positions":
            owner = a[1].key()
            if "asymmetric_unit" in owner or owner.endswith(".asym"):
                return "frac"
            return "cart"
        if a[2] in ("site_positions",):
            return "frac"
        if a[2] in ("center_of_mass", "centroid"):
            return "cart"
        return None
    if a[0] == "sub":
        base = a[1]
        if len(a[2]) == 1:
            s = a[2][0].as_atom()
            if s and s[0] == "str":
                if s[1] == "frac_pos":
                    return "frac"
                if s[1] == "cart_pos":
                    return "cart"
                return None
        return space_of(base)
    if a[0] == "obj":
        return space_of(a[3])
    return None


def angle_unit(term: P):
    """'rad' | 'deg' | None."""
    a = term.as_atom()
    if not a:
        # expression in pi -> radians ; numeric literal > 2 pi -> degrees
        c = term.const_value()
        if c is not None:
            return "deg" if c > 7 else None
        if any(at == ("name", "pi") for at in term.atoms()):
            return "rad"
        return None
    if a[0] == "attr":
        if a[2] in RAD_ATTRS:
            return "rad"
        if a[2] in DEG_ATTRS:
            return "deg"
        return None
    if a[0] == "call":
        cn = call_name(a)
        if cn == "radians":
            return "rad"
        if cn == "degrees":
            return "deg"
        if cn in ("numpy.array", "numpy.asarray", "tuple", "list") and a[2]:
            return angle_unit(a[2][0])
        return None
    if a[0] == "tuple":
        kinds = {angle_unit(x) for x in a[1]}
        kinds.discard(None)
        return kinds.pop() if len(kinds) == 1 else None
    if a[0] == "repeat":
        return angle_unit(a[1])
    if a[0] == "sub":
        base = a[1].as_atom()
        if base and base[0] == "attr" and base[2] == "parameters":
            s = a[2][0].as_atom() if len(a[2]) == 1 else None
            if s and s[0] == "slice" and s[1] == P.const(3):
                return "deg"
            c = a[2][0].const_value() if len(a[2]) == 1 else None
            if c is not None and c >= 3:
                return "deg"
            return None
        return angle_unit(a[1])
    if a[0] == "name" and a[1] == "pi":
        return "rad"
    return None
