"""Obligations, verdict protocol, evidence and replay files."""
from __future__ import annotations

import json
import os
import time

from .core import AnalysisError, Repo

VERIF = os.path.dirname(os.path.dirname(os.path.abspath(__file__)))


class Obligation:
    __slots__ = ("rule", "module", "function", "line", "what", "ok", "fingerprint", "expected", "found", "nontrivial")

    def __init__(self, rule, module, function, line, what, ok, fingerprint, expected, found, nontrivial=True):
        self.rule, self.module, self.function, self.line = rule, module, function, line
        self.what, self.ok, self.fingerprint = what, bool(ok), fingerprint
        self.expected, self.found = expected, found
        self.nontrivial = nontrivial

    def key(self):
        return (self.rule, self.module, self.function, self.fingerprint)

    def as_dict(self):
        d = {"rule": self.rule, "site": f"{self.module}:{self.function}" + (f" (line {self.line})" if self.line else ""),
             "obligation": self.what, "verdict": "discharged" if self.ok else "VIOLATED"}
        if self.expected is not None:
            d["expected"] = _short(self.expected)
        if self.found is not None:
            d["found"] = _short(self.found)
        return d


def _short(x, n=400):
    s = x if isinstance(x, str) else str(x)
    return s if len(s) <= n else s[: n - 3] + "..."


class Check:
    def __init__(self, pid, tier="quick", repo_root="/repo", only_rule=None):
        self.pid = pid
        self.tier = tier
        self.repo = Repo(repo_root)
        self.only_rule = only_rule
        self.obs: list[Obligation] = []
        self.assumptions: list[str] = []
        self.analysed: dict = {"functions": [], "tables": {}, "notes": []}
        self.rules: dict[str, str] = {}
        self.floors: dict[str, int] = {}
        self.t0 = time.time()
        self.seed = int(os.environ.get("VERIF_SEED", "0") or 0)
        self.explanation = ""

    # ------------------------------------------------------------------ API for rules
    def rule(self, rid, text, floor=1):
        """Declare a rule with the minimum number of obligations it must produce."""
        self.rules[rid] = text
        self.floors[rid] = floor

    def want(self, rid):
        return self.only_rule is None or self.only_rule == rid

    def ob(self, rule, module, function, what, ok, *, node=None, line=None, fingerprint=None, expected=None,
           found=None, nontrivial=True):
        if line is None and node is not None:
            line = getattr(node, "lineno", None)
        if fingerprint is None:
            fingerprint = what
        o = Obligation(rule, module, function, line, what, ok, fingerprint, expected, found, nontrivial)
        self.obs.append(o)
        return o.ok

    def need(self, cond, msg):
        if not cond:
            raise AnalysisError(msg)

    def saw(self, module, function):
        s = f"{module}:{function}"
        if s not in self.analysed["functions"]:
            self.analysed["functions"].append(s)

    def table(self, name, rows):
        self.analysed["tables"][name] = rows

    def assume(self, text):
        if text not in self.assumptions:
            self.assumptions.append(text)

    # ------------------------------------------------------------------ verdict
    def finish(self, ignore_floors=False) -> int:
        # instance floors: a rule matching fewer sites than confirmed by hand is an analysis error
        counts: dict[str, int] = {}
        short: list[str] = []
        for o in self.obs:
            counts[o.rule] = counts.get(o.rule, 0) + 1
        for rid, floor in self.floors.items():
            if not self.want(rid):
                continue
            if counts.get(rid, 0) < floor:
                short.append(f"rule {rid} produced {counts.get(rid, 0)} obligations, floor is {floor} "
                             f"(a rule that matches nothing passes vacuously)")
        known = load_known()
        open_keys = {}
        for k in known:
            if k.get("status") == "open" and k.get("property") == self.pid:
                open_keys[(k["rule"], k["module"], k["function"], k["fingerprint"])] = k
        violations = []
        known_hits = []
        for o in self.obs:
            if o.ok:
                continue
            if o.key() in open_keys:
                known_hits.append(o)
            else:
                violations.append(o)
        if short and not violations and not ignore_floors:
            # a shortfall alone is an analysis error; next to a concrete violation it is only reported
            raise AnalysisError("; ".join(short))
        os.makedirs(os.path.join(VERIF, "replay"), exist_ok=True)
        lines = [f"note: {x}" for x in short]
        for o in known_hits:
            lines.append(f"KNOWN-FINDING: property={self.pid} {o.rule} {o.module}:{o.function} {o.what}")
        seen = set()
        n = 0
        for o in violations:
            if o.key() in seen:
                continue
            seen.add(o.key())
            n += 1
            rp = os.path.join(VERIF, "replay", f"{self.pid}-{o.rule}-{n}.json")
            if os.environ.get("VERIF_NO_EVIDENCE"):
                rp = os.devnull
            with open(rp, "w") as f:
                json.dump({"property": self.pid, "rule": o.rule, "rule_text": self.rules.get(o.rule, ""),
                           "module": o.module, "function": o.function, "line": o.line, "obligation": o.what,
                           "fingerprint": o.fingerprint, "expected": _short(o.expected, 2000) if o.expected is not None else None,
                           "found": _short(o.found, 2000) if o.found is not None else None,
                           "rerun": f"/venv/bin/python /verif/check {self.pid} --tier {self.tier} --rule {o.rule}"},
                          f, indent=1)
            lines.append(f"src/chmpy/{o.module}:{o.function}" + (f" (line {o.line})" if o.line else "") +
                         f": {o.rule} [{self.rules.get(o.rule, '')}] {o.what}" +
                         (f" | expected: {_short(o.expected, 300)}" if o.expected is not None else "") +
                         (f" | found: {_short(o.found, 300)}" if o.found is not None else ""))
            lines.append(f"VIOLATION property={self.pid} replay={rp}")
        self.write_evidence(len(violations), known_hits)
        total = len(self.obs)
        good = sum(1 for o in self.obs if o.ok)
        print(f"[{self.pid}] tier={self.tier} rules={len([r for r in self.rules if self.want(r)])} "
              f"obligations={total} discharged={good} known-findings={len(known_hits)} "
              f"violations={len(violations)} wall={time.time() - self.t0:.2f}s")
        for ln in lines:
            print(ln)
        return 1 if violations else 0

    def write_evidence(self, nviol, known_hits):
        if os.environ.get("VERIF_NO_EVIDENCE"):
            return
        total = len(self.obs)
        good = sum(1 for o in self.obs if o.ok)
        distinct = len({o.key() for o in self.obs if o.nontrivial})
        per_rule = {}
        for o in self.obs:
            r = per_rule.setdefault(o.rule, {"text": self.rules.get(o.rule, ""), "obligations": 0, "discharged": 0})
            r["obligations"] += 1
            r["discharged"] += 1 if o.ok else 0
        # which constructs carry the obligations: {module:function: {rule: count}}
        sites: dict[str, dict] = {}
        for o in self.obs:
            d = sites.setdefault(f"{o.module}:{o.function}", {})
            d[o.rule] = d.get(o.rule, 0) + 1
        # samples: violated first, then a seed-rotated spread over rules
        samples = [o.as_dict() for o in self.obs if not o.ok][:10]
        by_rule: dict[str, list] = {}
        for o in self.obs:
            if o.ok:
                by_rule.setdefault(o.rule, []).append(o)
        for rid in sorted(by_rule):
            lst = by_rule[rid]
            for j in range(min(2, len(lst))):
                samples.append(lst[(self.seed + j * 7) % len(lst)].as_dict())
        ev = {
            "property_id": self.pid, "tier": self.tier, "seed": self.seed, "level": "other",
            "coverage": {
                "explanation": self.explanation or "clause-level static decision over the current source tree",
                "obligations": total, "discharged": good,
                "evaluations": total, "distinct_nontrivial": distinct,
                "rule": "one obligation per (rule, construct) instance found in the current source or table row; "
                        "non-trivial = carries a check that could fail; distinct by (rule, module, function, fingerprint)",
                "samples": samples[:40],
                "exhaustive": True,
                "per_rule": per_rule,
                "obligation_sites": sites,
                "analysed": {"files": sorted(self.repo.read_log), "functions": self.analysed["functions"],
                             "tables": self.analysed["tables"], "notes": self.analysed["notes"],
                             "source_digest": self.repo.digest()},
                "known_findings_hit": [o.as_dict() for o in known_hits],
                "checker_cmd": f"/venv/bin/python /verif/check {self.pid} --tier {self.tier}",
                "trusted_base": ["CPython ast", "sa/poly.py", "sa/symex.py", "sa/pyxfront.py", "library contracts listed in DESIGN.md 7.1"],
            },
            "assumptions": self.assumptions,
            "wall_s": round(time.time() - self.t0, 3),
            "violations": nviol,
        }
        os.makedirs(os.path.join(VERIF, "evidence"), exist_ok=True)
        with open(os.path.join(VERIF, "evidence", f"{self.pid}.json"), "w") as f:
            json.dump(ev, f, indent=1, default=str)


def load_known():
    p = os.path.join(VERIF, "known_findings.json")
    if not os.path.exists(p):
        return []
    with open(p) as f:
        data = json.load(f)
    return data.get("findings", data) if isinstance(data, dict) else data
