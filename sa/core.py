"""Loader and resolver for the chmpy source tree (never imports chmpy)."""
from __future__ import annotations

import ast
import warnings
warnings.filterwarnings("ignore", category=SyntaxWarning)
import hashlib
import json
import os

from .symex import ModuleCtx, Ev


class AnalysisError(Exception):
    """The analysis itself could not be carried out (exit code 2)."""


class Module:
    def __init__(self, repo, rel, path, text, tree, kind="py", ctypes=None):
        self.repo = repo
        self.rel = rel              # e.g. 'crystal/crystal.py'
        self.path = path
        self.text = text
        self.tree = tree
        self.kind = kind
        self.ctypes = ctypes or {}
        name = rel[:-3] if rel.endswith(".py") else rel.rsplit(".", 1)[0]
        self.modname = "chmpy." + name.replace("/", ".")
        self.ctx = ModuleCtx(tree, self.modname)
        self._funcs = None
        self._classes = None

    # qualified name -> FunctionDef
    @property
    def funcs(self):
        if self._funcs is None:
            self._funcs = {}
            self._classes = {}

            def rec(body, prefix):
                for st in body:
                    if isinstance(st, (ast.FunctionDef, ast.AsyncFunctionDef)):
                        self._funcs.setdefault(prefix + st.name, st)
                        # property setters share the name: keep all under a list too
                    elif isinstance(st, ast.ClassDef):
                        self._classes[prefix + st.name] = st
                        rec(st.body, prefix + st.name + ".")
                    elif isinstance(st, (ast.If, ast.Try, ast.With)):
                        for fld in ("body", "orelse", "finalbody"):
                            rec(getattr(st, fld, []) or [], prefix)
                        for h in getattr(st, "handlers", []) or []:
                            rec(h.body, prefix)
            rec(self.tree.body, "")
        return self._funcs

    @property
    def classes(self):
        self.funcs
        return self._classes

    def func(self, qual) -> ast.FunctionDef:
        f = self.funcs.get(qual)
        if f is None:
            raise AnalysisError(f"anchor vanished: function {qual} not found in {self.rel}")
        return f

    def cls(self, name) -> ast.ClassDef:
        c = self.classes.get(name)
        if c is None:
            raise AnalysisError(f"anchor vanished: class {name} not found in {self.rel}")
        return c

    def methods(self, clsname):
        """The methods of a class as the analyses should read them: tables and helpers that a refactoring introduced are expanded
        (sa/tablefold.py, sa/inline.py), so that the class-level analyses (memo discipline, effects) see the statements where they were."""
        c = self.cls(clsname)
        return [self.expanded(f"{clsname}.{st.name}", st) for st in c.body if isinstance(st, (ast.FunctionDef, ast.AsyncFunctionDef))]

    def expanded(self, qual, fn):
        if self.rel.endswith(".pyx"):
            return fn
        cache = self.__dict__.setdefault("_expanded", {})
        if qual not in cache:
            from .inline import inline_new_helpers
            from .tablefold import fold_tables
            f2, _ = fold_tables(self, qual, fn)
            f2, exp = inline_new_helpers(self, qual, f2)
            if exp:
                from .normalise import FoldConstantComp
                f2 = FoldConstantComp().visit(f2)
                f2, _ = fold_tables(self, qual, f2)
            cache[qual] = f2
        return cache[qual]

    def is_property(self, fn) -> bool:
        for d in fn.decorator_list:
            if isinstance(d, ast.Name) and d.id in ("property", "cached_property"):
                return True
            if isinstance(d, ast.Attribute) and d.attr in ("cached_property",):
                return True
        return False

    def toplevel_assign(self, name):
        """Value node of the last module-level assignment to ``name``."""
        val = None
        for st in self.tree.body:
            if isinstance(st, ast.Assign):
                for t in st.targets:
                    if isinstance(t, ast.Name) and t.id == name:
                        val = st.value
            elif isinstance(st, ast.AnnAssign) and isinstance(st.target, ast.Name) and st.target.id == name:
                val = st.value
        if val is None:
            raise AnalysisError(f"anchor vanished: module-level name {name} not found in {self.rel}")
        return val

    def ev(self, qual, roles=None, post=None, **kw) -> Ev:
        """Evaluate a function.  ``roles`` ({canonical local name: role specification}, sa/roles.py) lets the caller refer to
        locals by canonical names whatever the source calls them."""
        fn = self.func(qual)
        ct = self.ctypes.get(qual)
        inlined = False
        expanded = []
        if not self.rel.endswith(".pyx"):
            from .inline import inline_new_helpers
            from .tablefold import fold_tables
            fn, folded = fold_tables(self, qual, fn)
            fn, expanded = inline_new_helpers(self, qual, fn)
            if expanded:
                from .normalise import FoldConstantComp
                fn = FoldConstantComp().visit(fn)
                fn, folded2 = fold_tables(self, qual, fn)
                if folded2:
                    # a helper named by a table row is only visible now
                    fn, more = inline_new_helpers(self, qual, fn)
                    expanded = list(expanded) + list(more)
                    folded = True
            inlined = bool(expanded) or folded
            if post is not None:
                # a rule-specific normal form (sa/normalise.py), applied to the expanded function
                fn = post(fn)
                inlined = True
        if roles is None:
            from .rolespecs import ROLES
            try:
                from .rolespecs_auto import AUTO
            except ImportError:
                AUTO = {}
            roles = {**AUTO.get((self.rel, qual), {}), **ROLES.get((self.rel, qual), {})}
        if roles and not self.rel.endswith(".pyx"):
            from .roles import canonicalise
            fn, _ = canonicalise(self.text, fn, roles, synthetic=inlined)
        ev = Ev(fn, self.ctx, ctypes=ct, **kw).run()
        ev.inlined_helpers = list(expanded)      # helpers (new to the rule set) whose bodies were expanded into this function
        ev.fn = fn                                # the syntax tree that was evaluated (after expansion and role renaming)
        return ev

    def seg(self, node) -> str:
        try:
            return ast.get_source_segment(self.text, node) or ""
        except Exception:
            return ""


class Repo:
    def __init__(self, root="/repo"):
        self.root = os.path.abspath(root)
        self.src = os.path.join(self.root, "src", "chmpy")
        if not os.path.isdir(self.src):
            raise AnalysisError(f"source tree not found: {self.src}")
        self._mods: dict[str, Module] = {}
        self.read_log: list[str] = []

    def path(self, rel):
        return os.path.join(self.src, rel)

    def exists(self, rel):
        return os.path.exists(self.path(rel))

    def text(self, rel) -> str:
        p = self.path(rel)
        if not os.path.exists(p):
            raise AnalysisError(f"anchor vanished: file src/chmpy/{rel} not found")
        if rel not in self.read_log:
            self.read_log.append(rel)
        with open(p, encoding="utf-8") as f:
            return f.read()

    def module(self, rel) -> Module:
        m = self._mods.get(rel)
        if m is not None:
            return m
        text = self.text(rel)
        if rel.endswith(".pyx"):
            from . import pyxfront
            try:
                pytext, ctypes = pyxfront.convert(text)
                tree = ast.parse(pytext, filename=rel)
            except SyntaxError as e:
                raise AnalysisError(f"pyx front end cannot convert {rel}: {e}")
            pyxfront.validate(text, tree, rel)
            m = Module(self, rel, self.path(rel), text, tree, "pyx", ctypes)
        else:
            try:
                tree = ast.parse(text, filename=rel)
            except SyntaxError as e:
                raise AnalysisError(f"cannot parse {rel}: {e}")
            from .normalise import normalise
            tree = normalise(tree)
            m = Module(self, rel, self.path(rel), text, tree)
        self._mods[rel] = m
        return m

    def all_py(self, include_tests=False):
        out = []
        for d, dirs, files in os.walk(self.src):
            dirs.sort()
            if not include_tests and os.path.basename(d) == "tests":
                dirs[:] = []
                continue
            for f in sorted(files):
                if f.endswith(".py"):
                    out.append(os.path.relpath(os.path.join(d, f), self.src))
        return out

    def all_pyx(self):
        out = []
        for d, dirs, files in os.walk(self.src):
            dirs.sort()
            for f in sorted(files):
                if f.endswith(".pyx"):
                    out.append(os.path.relpath(os.path.join(d, f), self.src))
        return out

    def json(self, rel):
        try:
            return json.loads(self.text(rel))
        except json.JSONDecodeError as e:
            raise AnalysisError(f"cannot parse {rel}: {e}")

    def modname_to_rel(self, modname):
        """'chmpy.crystal.unit_cell' -> 'crystal/unit_cell.py' if it exists."""
        if not modname.startswith("chmpy"):
            return None
        parts = modname.split(".")[1:]
        cand = "/".join(parts) + ".py"
        if parts and self.exists(cand):
            return cand
        cand = "/".join(parts + ["__init__.py"])
        if self.exists(cand):
            return cand
        cand = "/".join(parts) + ".pyx"
        if parts and self.exists(cand):
            return cand
        return None

    def resolve_symbol(self, full, depth=0):
        """'chmpy.crystal.unit_cell.UnitCell' -> (Module, 'UnitCell') following re-exports."""
        if depth > 6 or not full.startswith("chmpy"):
            return None
        parts = full.split(".")
        for cut in range(len(parts), 0, -1):
            rel = self.modname_to_rel(".".join(parts[:cut]))
            if rel is None:
                continue
            m = self.module(rel)
            rest = parts[cut:]
            if not rest:
                return m, ""
            head = rest[0]
            if head in m.funcs or head in m.classes or ".".join(rest) in m.funcs:
                return m, ".".join(rest)
            tgt = m.ctx.alias.get(head)
            if tgt and tgt.startswith("chmpy"):
                return self.resolve_symbol(".".join([tgt] + rest[1:]), depth + 1)
            if head in m.ctx.consts:
                return m, ".".join(rest)
            return None
        return None

    def digest(self):
        h = hashlib.sha256()
        for rel in sorted(self.read_log):
            try:
                with open(self.path(rel), "rb") as f:
                    h.update(rel.encode())
                    h.update(f.read())
            except OSError:
                pass
        return h.hexdigest()[:16]
