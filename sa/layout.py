"""Column layout of f-string / str.format writers and of table-driven readers."""
from __future__ import annotations

import re

from .poly import P

_SPEC = re.compile(r"^(?:(?P<fill>.)?(?P<align>[<>=^]))?(?P<sign>[-+ ])?(?P<z>z)?(?P<alt>#)?(?P<zero>0)?"
                   r"(?P<width>\d+)?(?P<group>[_,])?(?:\.(?P<prec>\d+))?(?P<type>[bcdeEfFgGnosxX%])?$")


class Spec:
    def __init__(self, text):
        self.text = text or ""
        m = _SPEC.match(self.text)
        self.valid = m is not None
        g = m.groupdict() if m else {}
        self.width = int(g["width"]) if g.get("width") else None
        self.prec = int(g["prec"]) if g.get("prec") else None
        self.type = g.get("type")
        self.sign = g.get("sign")
        self.align = g.get("align")
        self.fill = g.get("fill")
        self.group = g.get("group")

    def __repr__(self):
        return f"Spec({self.text!r})"


class Piece:
    """One piece of a template: literal text or a formatted value."""

    def __init__(self, kind, text=None, value=None, spec=None):
        self.kind = kind      # 'lit' | 'fmt'
        self.text = text
        self.value = value    # P
        self.spec = spec      # Spec
        self.conv = None      # 'r' | 's' | 'a' conversion of an f-string field

    @property
    def width(self):
        if self.kind == "lit":
            return len(self.text)
        return self.spec.width

    def __repr__(self):
        return f"lit({self.text!r})" if self.kind == "lit" else f"fmt({self.value}:{self.spec.text})"


def pieces_of(term: P):
    """Pieces of an f-string term (or a constant string), flattening concatenations. None if not a template."""
    a = term.as_atom()
    if a is None:
        # concatenation of strings shows up as a polynomial sum: not supported
        return None
    if a[0] == "str":
        return [Piece("lit", text=a[1])]
    if a[0] == "fstr":
        out = []
        for p in a[1]:
            if p[0] == "lit":
                if out and out[-1].kind == "lit":
                    out[-1] = Piece("lit", text=out[-1].text + p[1])
                else:
                    out.append(Piece("lit", text=p[1]))
            else:
                spec = p[3]
                stext = ""
                if spec is not None:
                    sa = spec.as_atom()
                    if sa and sa[0] == "str":
                        stext = sa[1]
                    else:
                        stext = None
                pc = Piece("fmt", value=p[1], spec=Spec(stext) if stext is not None else Spec("?"))
                pc.conv = {114: "r", 115: "s", 97: "a"}.get(p[2]) if isinstance(p[2], int) else None
                out.append(pc)
        return out
    return None


def column_map(pieces):
    """[(piece, start, width)] for pieces with known widths; start None after a variable-width piece."""
    out = []
    pos = 0
    for p in pieces:
        w = p.width
        out.append((p, pos, w))
        if pos is not None:
            pos = pos + w if w is not None else None
    return out


def float_roundtrips(piece) -> bool:
    """The field writes a float so that it reads back to the same float: repr (shortest round trip) or >= 17 significant digits."""
    if piece.kind != "fmt":
        return False
    if piece.conv == "r":
        # the text of repr is then formatted as a string: a precision truncates it (the longest repr of a float has 24 characters)
        return piece.spec.prec is None or piece.spec.prec >= 24
    sp = piece.spec
    if sp.type in ("e", "E", "g", "G") and (sp.prec or 0) >= 17:
        return True
    return False
