"""C06 — isosurfaces: import resolution on the wrapper paths, lookup-table wiring, switch/table agreement,
local closedness of every tiling, axis order / winding, bounding box, wrapper plumbing."""
from __future__ import annotations

import ast

from ..core import AnalysisError
from ..poly import P
from ..symex import Ev, find_atoms, call_name, seq_items, obj_init
from ..imports import resolve_external
from ..tables import mclut
from .generic import string_value, dict_items, column_of

MC = "mc/_mc.py"
PYX = "mc/_mc_lewiner.pyx"
LUT = "mc/lookup_tables.py"
SF = "surface.py"
DP = "interpolate/density.py"
CR = "crystal/crystal.py"
MOL = "core/molecule.py"
COL = "util/color.py"


def run(chk):
    repo = chk.repo
    chk.explanation = ("marching cubes and surface wrappers: every import executed on the paths from the surface entry points is "
                       "resolved against chmpy and the installed distributions' stubs/sources; the 51 LutProvider arguments "
                       "against its parameters; every add_triangles call of the switch against the decoded tables; all tilings "
                       "selectable for each of the 256 indices are checked, with cube geometry extracted from the code, to use "
                       "only straddling edges, to be edge-manifold inside the cube and to leave one consistently oriented "
                       "matching on every cube face; axis permutations, winding flip, origin shift, bounding box.")
    chk.rule("R06.1", "every import on a call path from the surface entry points resolves (chmpy modules, installed third-party stubs/sources)", 8)
    chk.rule("R06.2", "lookup-table wiring: positional arguments of LutProvider(...) match its parameters name for name; each parameter is stored under its own name", 100)
    chk.rule("R06.3", "switch/table agreement: every add_triangles call names a table whose row length is 3*nt; every case and sub-configuration has a branch; test tables are indexed within their shape", 88)
    chk.rule("T06.4", "every tiling selectable for an index uses straddling edges only, is edge-manifold inside the cube and leaves one consistently oriented matching on each cube face", 256)
    chk.rule("R06.5", "axis order and winding: vertices/normals flipped once, spacing after the flip, faces flipped for exactly one gradient direction; surface.py permutes (1,0,2) once and adds the box origin once", 10)
    chk.rule("R06.6", "the sampling box is min(pos - extra) .. max(pos + extra) with extra = vdW radius + buffer", 4)
    chk.rule("R06.7", "the wrappers hand vertices, faces and normals of one isosurface object to the mesh and colour by a property of that object", 4)
    if chk.want("R06.1"):
        r06_1(chk, repo)
    tables = None
    if chk.want("R06.2") or chk.want("R06.3") or chk.want("T06.4"):
        lut = repo.module(LUT)
        try:
            tables = mclut.decode_tables(lut.tree)
        except Exception as e:
            raise AnalysisError(f"{LUT}: cannot decode tables: {e}")
        chk.table(LUT, len(tables))
    if chk.want("R06.2"):
        r06_2(chk, repo, tables)
    calls = None
    if chk.want("R06.3") or chk.want("T06.4"):
        calls = switch_calls(chk, repo)
    if chk.want("R06.3"):
        r06_3(chk, repo, tables, calls)
    if chk.want("T06.4"):
        t06_4(chk, repo, tables, calls)
    if chk.want("R06.5"):
        r06_5(chk, repo)
    if chk.want("R06.6"):
        r06_6(chk, repo)
    if chk.want("R06.7"):
        r06_7(chk, repo)
    chk.rule("R06.10", "the field the Hirshfeld mesher samples is the stockholder weight at every grid point: the Python wrappers forward points and "
                       "background unchanged (= C05 R05.2)", 4)
    if chk.want("R06.10"):
        from ..inherit import inherit
        inherit(chk, "R06.10", "c05", ["R05.2"])
    chk.rule("R06.11", "functions evaluated on the surface vertices (property callbacks, d_norm, density and weight wrappers) do not modify the vertex "
                       "array in place: the vertices handed to the mesh are those the mesher produced", 6)
    if chk.want("R06.11"):
        r06_11(chk, repo)
    chk.assume("closedness for arbitrary fields additionally needs neighbouring cells to resolve ambiguous faces identically (run-time test_face) "
               "and the shared-vertex face layers; convergence of volume / isovalue and enclosure of atoms are not decided")
    chk.assume("the installed _mc_lewiner .so may lag the .pyx source (Cython is not available to rebuild)")


# ------------------------------------------------------------------------------------------------ R06.1
ENTRY = [(CR, "Crystal.hirshfeld_surfaces"), (CR, "Crystal.promolecule_density_isosurfaces"), (MOL, "Molecule.promolecule_density_isosurface"),
         (SF, "promolecule_density_isosurface"), (SF, "stockholder_weight_isosurface"), (MC, "marching_cubes")]


def r06_1(chk, repo):
    seen = set()
    work = list(ENTRY)
    checked = 0
    while work:
        rel, q = work.pop()
        if (rel, q) in seen:
            continue
        seen.add((rel, q))
        mod = repo.module(rel)
        if q not in mod.funcs:
            continue
        chk.saw(rel, q)
        ev = Ev(mod.funcs[q], mod.ctx).run()
        # group imports by try/except ImportError alternatives
        groups = {}
        for e in ev.events:
            if e.kind != "import":
                continue
            conditional = [c for c, pol in e.guards if (c.as_atom() or ("",))[0] not in ("try", "except")]
            if any(is_optional_path(c, pol) for c, pol in e.guards):
                continue
            tr = [c.as_atom() for c, pol in e.guards if (c.as_atom() or ("",))[0] == "try" and "ImportError" in " ".join(c.as_atom()[2])]
            ex = [c.as_atom() for c, pol in e.guards if (c.as_atom() or ("",))[0] == "except" and "ImportError" in c.key()]
            gid = ("try", tr[-1][1]) if tr else (("try", ex[-1][2]) if ex else ("plain", id(e)))
            groups.setdefault(gid, []).append(e)
        for gid, evs in groups.items():
            results = []
            for e in evs:
                m, sym = e.extra["module"], e.extra["symbol"]
                if m.startswith("chmpy"):
                    ok = repo.modname_to_rel(m) is not None
                    if ok and sym:
                        target = repo.module(repo.modname_to_rel(m)) if not repo.modname_to_rel(m).endswith(".pyx") or True else None
                        ok = sym in target.funcs or sym in target.classes or sym in target.ctx.alias or sym in target.ctx.consts \
                            or repo.modname_to_rel(m + "." + sym) is not None or _binds(target, sym)
                    res = ok
                else:
                    res = resolve_external(m, sym)
                results.append((e, res))
            if gid[0] == "try":
                ok = any(r is not False for _, r in results)
                e0 = results[0][0]
                checked += 1
                chk.ob("R06.1", rel, q, "an import guarded by try/except ImportError has an alternative that resolves", ok, node=e0.node,
                       fingerprint=f"import-alt:{[x.name for x, _ in results]}", found=[(x.name, r) for x, r in results])
            else:
                for e, res in results:
                    checked += 1
                    chk.ob("R06.1", rel, q, f"'{e.name}' can be imported", res is not False, node=e.node, fingerprint=f"import:{e.name}",
                           expected="a name bound by the module (installed stub / source) or a submodule",
                           found="not bound by the installed module" if res is False else "resolves" if res else "unknown (dynamic module)",
                           nontrivial=res is not None)
        # follow calls into chmpy
        for e in ev.events:
            if e.kind != "call":
                continue
            cn = call_name(e.value.as_atom() or ())
            if not cn:
                continue
            if cn.startswith("chmpy"):
                r = repo.resolve_symbol(cn)
                if r and r[1]:
                    tm, tq = r
                    if tq in tm.classes:
                        tq = tq + ".__init__"
                    work.append((tm.rel, tq))
            elif cn.startswith(".") and e.target is not None:
                r0 = (e.target.as_atom() or (None, None))[1]
                recv = r0.key() if isinstance(r0, P) else ""
                meth = cn[1:]
                if recv == "self":
                    cls = q.split(".")[0]
                    work.append((rel, f"{cls}.{meth}"))
                elif meth in ("promolecule_density_isosurface",):
                    work.append((MOL, f"Molecule.{meth}"))
            elif cn in mod.funcs:
                work.append((rel, cn))
    chk.need(checked >= 8, f"expected >= 8 import statements on the surface paths, found {checked}")


def _binds(mod, name):
    for st in ast.walk(mod.tree):
        if isinstance(st, ast.Assign):
            for t in st.targets:
                if isinstance(t, ast.Name) and t.id == name:
                    return True
    return False


def is_optional_path(c, pol):
    """Imports under feature switches that the property's entry points do not take by default (progress bars, subdivision...)."""
    k = c.key()
    return pol and (k in ("progress",) or "kwargs.get('subdivide'" in k or "kwargs.get('axes'" in k)


# ------------------------------------------------------------------------------------------------ R06.2
def r06_2(chk, repo, tables):
    mc = repo.module(MC)
    pyx = repo.module(PYX)
    ev = mc.ev("_get_lookup_tables")
    chk.saw(MC, "_get_lookup_tables")
    call = [e for e in ev.events if e.kind == "call" and (call_name(e.value.as_atom() or ()) or "").endswith("LutProvider")]
    chk.need(len(call) == 1, "_get_lookup_tables: LutProvider(...) call not found")
    args = call[0].extra["args"]
    fn = pyx.func("LutProvider.__init__")
    params = [a.arg for a in fn.args.args][1:]
    chk.ob("R06.2", MC, "_get_lookup_tables", f"LutProvider receives one positional argument per parameter ({len(params)})",
           len(args) == len(params) and not call[0].extra["kwargs"], expected=len(params), found=len(args))
    edge_names = {"EDGESRELX": "EDGETORELATIVEPOSX", "EDGESRELY": "EDGETORELATIVEPOSY", "EDGESRELZ": "EDGETORELATIVEPOSZ"}
    for pname, a in zip(params, args):
        k = a.key()
        if pname in edge_names:
            ok = k == edge_names[pname] or k.startswith("numpy.array(") and False
            # module-level constant is inlined by name
            ok = ok or edge_names[pname] in k
            want = edge_names[pname]
        else:
            want = f"_to_array(chmpy.mc.lookup_tables.{pname})"
            ok = k == want
        chk.ob("R06.2", MC, "_get_lookup_tables", f"argument for parameter {pname} is the table of that name", ok,
               fingerprint=f"arg:{pname}", expected=want, found=k[:80])
        if pname not in edge_names:
            chk.ob("R06.2", LUT, pname, f"table {pname} exists and decodes to its declared shape", pname in tables, fingerprint=f"table:{pname}")
    iv = pyx.ev("LutProvider.__init__")
    chk.saw(PYX, "LutProvider.__init__")
    stores = {e.target.key(): e.value.key() for e in iv.events if e.kind == "store"}
    for pname in params:
        chk.ob("R06.2", PYX, "LutProvider.__init__", f"self.{pname} = Lut({pname})", stores.get(f"self.{pname}") == f"Lut({pname})",
               fingerprint=f"store:{pname}", found=stores.get(f"self.{pname}"))
    # _to_array: int8 with the declared shape
    tv = mc.ev("_to_array")
    okt = any(e.kind == "assign" and "numpy.frombuffer(" in obj_init(e.value).key() and "dtype='int8'" in obj_init(e.value).key() for e in tv.events) \
        and any(e.kind == "store" and e.target.key().endswith(".shape") and e.value.key() == f"{tv.param_names[0]}[0]" for e in tv.events)
    chk.ob("R06.2", MC, "_to_array", "tables are decoded as int8 and reshaped to their declared shape", okt)
    # Lut.get2 / get3 strides
    for nm, want in (("Lut.get2", "self.VALUES[i1 + i0*self.L1]"), ("Lut.get3", "self.VALUES[i2 + i1*self.L2 + i0*self.L1*self.L2]")):
        gv = pyx.ev(nm)
        chk.ob("R06.2", PYX, nm, f"{nm} addresses the flattened table row-major", gv.returns[0].value.key() == want, expected=want,
               found=gv.returns[0].value.key())


# ------------------------------------------------------------------------------------------------ switch
def switch_calls(chk, repo):
    """[(case, table name, kind, k or None, nt, guards, node)] for every add_triangles/add_triangles2 in the_big_switch."""
    pyx = repo.module(PYX)
    ev = pyx.ev("the_big_switch")
    chk.saw(PYX, "the_big_switch")
    out = []
    for e in ev.events:
        if e.kind != "call":
            continue
        cn = call_name(e.value.as_atom() or ())
        if cn not in (".add_triangles", ".add_triangles2"):
            continue
        a = e.extra["args"]
        tname = a[0].as_atom()[2] if a[0].as_atom() and a[0].as_atom()[0] == "attr" else None
        case = None
        sub = None
        for c, pol in e.guards:
            ca = c.as_atom()
            if ca and ca[0] == "eq" and pol:
                names = {ca[1].key(), ca[2].key()}
                if "case" in names:
                    case = int((ca[1] if ca[2].key() == "case" else ca[2]).const_value())
        if cn == ".add_triangles":
            nt = a[2].const_value()
            out.append((case, tname, 2, None, int(nt) if nt is not None else None, e.guards, e.node, a[1].key()))
        else:
            k, nt = a[2].const_value(), a[3].const_value()
            out.append((case, tname, 3, int(k) if k is not None else None, int(nt) if nt is not None else None, e.guards, e.node, a[1].key()))
    chk.need(len(out) >= 83, f"the_big_switch: expected >= 83 add_triangles call sites, found {len(out)}")
    return out


def r06_3(chk, repo, tables, calls):
    cases_tab = tables.get("CASES")
    chk.need(cases_tab is not None and cases_tab[0] == (256, 2), "CASES table missing or not 256 x 2")
    for (case, tname, nd, k, nt, guards, node, cfg) in calls:
        t = tables.get(tname)
        ok = t is not None and case is not None and nt is not None and cfg == "config"
        detail = None
        if ok:
            shape = t[0]
            if nd == 2:
                ok = len(shape) == 2 and shape[1] == 3 * nt
            else:
                ok = len(shape) == 3 and k is not None and 0 <= k < shape[1] and shape[2] == 3 * nt
            # number of configurations of that case
            nconf = max((mclut.get(cases_tab, i, 1) for i in range(256) if mclut.get(cases_tab, i, 0) == case), default=-1) + 1
            ok = ok and shape[0] >= nconf
            detail = f"shape {shape}, case {case} has {nconf} configurations"
        chk.ob("R06.3", PYX, "the_big_switch", f"case {case}: {tname}{'' if k is None else '[.., %d]' % k} holds {nt} triangles per configuration",
               bool(ok), node=node, fingerprint=f"call:{case}:{tname}:{k}:{nt}", expected=f"row length {3 * (nt or 0)}", found=detail)
    present = {c[0] for c in calls}
    used_cases = sorted({mclut.get(cases_tab, i, 0) for i in range(256)} - {0})
    for c in used_cases:
        chk.ob("R06.3", PYX, "the_big_switch", f"case {c} (occurs in CASES) has a branch", c in present, fingerprint=f"case:{c}")
    # SUBCONFIG13 values have branches
    sub13 = tables.get("SUBCONFIG13")
    if sub13:
        vals = sorted(set(sub13[1]) - {-1})
        branches = set()
        for (case, tname, nd, k, nt, guards, node, cfg) in calls:
            if case != 13:
                continue
            for c, pol in guards:
                ca = c.as_atom()
                if ca and ca[0] == "eq" and pol and "SUBCONFIG13" in c.key():
                    v = (ca[1] if ca[1].const_value() is not None else ca[2]).const_value()
                    if v is not None:
                        branches.add(int(v))
        chk.ob("R06.3", PYX, "the_big_switch", "every value of SUBCONFIG13 except the impossible marker -1 has a branch",
               set(vals) <= branches, fingerprint="subconfig13", found=f"missing {sorted(set(vals) - branches)}")
        chk.ob("R06.3", LUT, "SUBCONFIG13", "SUBCONFIG13 has one entry per combination of the six face tests", sub13[0] == (64,), found=sub13[0])
    # test tables indexed within shape
    pyx = repo.module(PYX)
    ev = pyx.ev("the_big_switch")
    seen = set()
    for e in ev.events:
        for val in (e.value,):
            if val is None:
                continue
            for a in find_atoms(val, lambda a: a[0] == "call" and call_name(a) in (".get1", ".get2", ".get3")):
                owner = a[1].as_atom()[1].as_atom()
                if not (owner and owner[0] == "attr" and owner[2].startswith("TEST")):
                    continue
                tname = owner[2]
                idx = [x.const_value() for x in a[2][1:]]
                sig = (tname, tuple(idx))
                if sig in seen or None in idx:
                    continue
                seen.add(sig)
                t = tables.get(tname)
                ok = t is not None and len(t[0]) == len(a[2]) and all(0 <= int(i) < s for i, s in zip(idx, t[0][1:]))
                chk.ob("R06.3", PYX, "the_big_switch", f"{tname} is read at column {tuple(int(i) for i in idx)} inside its shape", bool(ok),
                       fingerprint=f"test:{tname}:{idx}", found=t[0] if t else None)
    # the driver reads (case, config) from CASES[index] columns 0 and 1 and calls the switch for case > 0
    dv = pyx.ev("marching_cubes", opaque={"cell"})
    chk.saw(PYX, "marching_cubes")
    okd = any(e.kind == "call" and call_name(e.value.as_atom() or ()) == "the_big_switch" and
              e.extra["args"][2].key() == "luts.CASES.get2($cell.index, 0)" and e.extra["args"][3].key() == "luts.CASES.get2($cell.index, 1)"
              and any(pol and c.key() == "(lt 0 luts.CASES.get2($cell.index, 0))" for c, pol in e.guards)
              for e in dv.events)
    chk.ob("R06.3", PYX, "marching_cubes", "the driver passes CASES[index][0] as case and CASES[index][1] as configuration", okd)


# ------------------------------------------------------------------------------------------------ T06.4
def extract_geometry(chk, repo):
    pyx = repo.module(PYX)
    mc = repo.module(MC)
    # bit k of the index <-> self.v<k> > 0
    ev = pyx.ev("Cell.set_cube")
    chk.saw(PYX, "Cell.set_cube")
    bits = {}
    for e in ev.events:
        if e.kind == "assign" and e.name == "index" and e.extra.get("aug") == "Add":
            d = e.extra["delta"].const_value()
            g = e.guards[-1][0].as_atom()
            if d is not None and g and g[0] == "lt" and g[1] == P.const(0) and g[2].key().startswith("self.v"):
                bits[int(d).bit_length() - 1] = g[2].key()[len("self."):]
    chk.need(sorted(bits) == list(range(8)) and sorted(bits.values()) == [f"v{k}" for k in range(8)],
             f"Cell.set_cube: the 8 bits of the index are not one 'v_k > 0' test each: {bits}")
    # corner positions: driver passes im[z+dz, y+dy, x+dx] for v0..v7
    dv = pyx.ev("marching_cubes")
    sc = [e for e in dv.events if e.kind == "call" and call_name(e.value.as_atom() or ()) == ".set_cube"]
    chk.need(len(sc) == 1, "marching_cubes: set_cube call not found")
    args = sc[0].extra["args"]
    chk.need(len(args) == 13, "set_cube call does not pass 5 + 8 arguments")
    params = [a.arg for a in pyx.func("Cell.set_cube").args.args][1:]
    chk.need(params[5:] == [f"v{k}" for k in range(8)], f"set_cube parameters are not v0..v7: {params}")
    x, y, z = args[1], args[2], args[3]
    step = args[4]
    corner_pos = []
    for a in args[5:]:
        at = a.as_atom()
        chk.need(at and at[0] == "sub" and len(at[2]) == 3, f"corner value is not im[z, y, x]: {a}")
        iz, iy, ix = at[2]
        pos = []
        for got, base in ((ix, x), (iy, y), (iz, z)):
            d = got - base
            if d.is_zero():
                pos.append(0)
            elif d == step:
                pos.append(1)
            else:
                raise AnalysisError(f"corner offset not 0 or step: {d}")
        corner_pos.append(tuple(pos))
    # corner_pos is indexed by the v-number; re-index it by the bit that carries that corner's sign
    by_v = list(corner_pos)
    corner_pos = [by_v[int(bits[b][1:])] for b in range(8)]
    # edges from EDGETORELATIVEPOS*
    rel = {}
    for ax, nm in enumerate(("EDGETORELATIVEPOSX", "EDGETORELATIVEPOSY", "EDGETORELATIVEPOSZ")):
        node = mc.toplevel_assign(nm)
        chk.need(isinstance(node, ast.Call) and node.args, f"{nm} is not np.array(literal)")
        rel[ax] = ast.literal_eval(node.args[0])
        chk.need(len(rel[ax]) == 12 and all(len(r) == 2 for r in rel[ax]), f"{nm} is not 12 x 2")
    edge_ends = []
    for e in range(12):
        pa = tuple(rel[ax][e][0] for ax in range(3))
        pb = tuple(rel[ax][e][1] for ax in range(3))
        edge_ends.append((pa, pb))
    # the corner permutation vv[dz*4+dy*2+dx]
    pv = pyx.ev("Cell.prepare_for_adding_triangles")
    vv = {}
    for e in pv.events:
        if e.kind == "store" and e.target.key().startswith("self.vv["):
            i = e.target.as_atom()[2][0].const_value()
            if i is not None and e.value.key().startswith("self.v"):
                vv[int(i)] = int(e.value.key()[len("self.v"):])
    ok_perm = all(by_v[vv[i]] == (i & 1, (i >> 1) & 1, (i >> 2) & 1) for i in range(8)) if len(vv) == 8 else False
    return corner_pos, edge_ends, ok_perm, vv


def geometry_obligations(chk, repo):
    """What the table checks take for granted about the cell and the driver: the corner gradients are differences along the cube's own
    edges, the extreme values are taken over all eight corners, and the driver visits every cell of the volume exactly once, reading the
    array axes (z, y, x) it sizes its loops by."""
    pyx = repo.module(PYX)
    # corner coordinates of v0..v7 as the driver passes them
    dv = pyx.ev("marching_cubes")
    sc = [e for e in dv.events if e.kind == "call" and call_name(e.value.as_atom() or ()) == ".set_cube"][0]
    args = sc.extra["args"]
    x, y, z, step = args[1], args[2], args[3], args[4]
    by_v = []
    for a in args[5:]:
        iz, iy, ix = a.as_atom()[2]
        by_v.append(tuple(0 if (g - b).is_zero() else 1 for g, b in ((ix, x), (iy, y), (iz, z))))
    where = {c: k for k, c in enumerate(by_v)}
    pv = pyx.ev("Cell.prepare_for_adding_triangles")
    grads = {}
    for e in pv.events:
        if e.kind == "store" and e.target.key().startswith("self.vg[") and e.target.as_atom()[2][0].const_value() is not None:
            grads[int(e.target.as_atom()[2][0].const_value())] = e.value
    V = lambda k: P.atom(("attr", P.name("self"), f"v{k}"))
    bad = []
    for c in range(8):
        for d in range(3):
            lo = list(by_v[c])
            hi = list(by_v[c])
            lo[d], hi[d] = 0, 1
            want = V(where[tuple(lo)]) - V(where[tuple(hi)])
            got = grads.get(c * 3 + d)
            if got is None or got != want:
                bad.append(f"vg[{c}*3+{d}] = {got} (edge through corner {c} along axis {d}: {want})")
    chk.ob("T06.4", PYX, "Cell.prepare_for_adding_triangles", "the gradient stored for corner c and axis d is the value difference along the cube edge through c in "
           "direction d, taken low end minus high end for every corner alike (24 entries)", len(grads) == 24 and not bad, fingerprint="corner-gradients",
           found=bad[:2] or f"{len(grads)} entries")
    rng = [l for l in pv.all_loops if l.kind in ("range", "literal")]
    tests = [e for e in pv.events if e.kind == "test" and "self.vv[" in e.value.key()]
    idxs = {int(a[2][0].const_value()) for e in tests for a in find_atoms(e.value, lambda a: a[0] == "sub" and a[1].key() == "self.vv" and a[2][0].const_value() is not None)}
    chk.ob("T06.4", PYX, "Cell.prepare_for_adding_triangles", "the largest and the smallest corner value are taken over all eight corners", idxs == set(range(8)) or
           any(l.kind == "range" and l.lo == P.const(0) and l.hi == P.const(8) for l in rng), fingerprint="extremes-all-corners", found=sorted(idxs))
    # the driver: sizes from the axes it indexes by, and every cell once
    names = {"x": 2, "y": 1, "z": 0}          # im[z, y, x]
    sizes = {}
    for nm, ax in names.items():
        lps = [l for l in dv.all_loops if l.kind == "while" and l.iter.as_atom() and l.iter.as_atom()[0] == "lt"
               and find_atoms(l.iter.as_atom()[1], lambda a: a[0] == "lc" and a[1] == nm)]
        ok = False
        desc = None
        if len(lps) == 1:
            l = lps[0]
            lc = find_atoms(l.iter.as_atom()[1], lambda a: a[0] == "lc" and a[1] == nm)[0]
            start = lc[3]
            bound = l.iter.as_atom()[2]
            body = [e for e in dv.events if e.loops and e.loops[-1].k == l.k]
            base_g = min((len(e.guards) for e in body), default=0)
            steps = [e for e in body if e.kind == "assign" and e.name == nm and len(e.guards) == base_g]
            first_is_step = bool(body) and body[0].kind == "assign" and body[0].name == nm
            st_ = P.name(dv.param_names[3])
            N = P.atom(("sub", P.atom(("attr", P.name(dv.param_names[0]), "shape")), (P.const(ax),)))
            ok = l.iter.as_atom()[1].key() == P.atom(lc).key() and start == -st_ and bound == N - 2 * st_ and len(steps) == 1 \
                and steps[0].value == P.atom(lc) + st_ and first_is_step
            desc = f"start {start}, while {nm} < {bound}, step {[str(e.value) for e in steps]}"
        chk.ob("T06.4", PYX, "marching_cubes", f"the {nm} loop visits the cells {nm} = 0, st, 2 st, ... with {nm} + st <= N - 1 exactly once: start -st, advance by st "
               f"first, continue while {nm} < N - 2 st, N the length of array axis {ax} (the axis {nm} indexes)", ok, fingerprint=f"driver-loop:{nm}", found=desc)


def t06_4(chk, repo, tables, calls):
    corner_pos, edge_ends, ok_perm, vv = extract_geometry(chk, repo)
    chk.ob("T06.4", PYX, "Cell.prepare_for_adding_triangles", "vv[dz*4 + dy*2 + dx] holds the value of the corner at (dx, dy, dz)", ok_perm,
           found=str(vv))
    geometry_obligations(chk, repo)
    cube = mclut.Cube(corner_pos, edge_ends)
    cases_tab = tables["CASES"]
    by_case = {}
    for c in calls:
        by_case.setdefault(c[0], []).append(c)
    orient = set()
    ntil = nseg = 0
    for index in range(256):
        case, config = mclut.get(cases_tab, index, 0), mclut.get(cases_tab, index, 1)
        problems = []
        if case == 0:
            if any(cube.crossing(index, e) for e in range(12)):
                problems.append("case 0 (no triangles) but some edges straddle the level")
        else:
            sel = by_case.get(case, [])
            if not sel:
                problems.append(f"no branch for case {case}")
            for (_, tname, nd, k, nt, guards, node, cfg) in sel:
                t = tables.get(tname)
                if t is None or nt is None:
                    problems.append(f"table {tname} missing")
                    continue
                try:
                    r = mclut.row(t, config) if nd == 2 else mclut.row(t, config, k)
                except IndexError as ex:
                    problems.append(f"{tname}: {ex}")
                    continue
                tri = r[: 3 * nt]
                pr, segs = mclut.check_tiling(cube, index, tri)
                ntil += 1
                nseg += len(segs)
                problems.extend(f"{tname}[{config}{'' if k is None else ',' + str(k)}]: {p}" for p in pr)
                orient.update(o for (_, _, _, o) in segs)
        chk.ob("T06.4", LUT, f"index {index}", f"all tilings selectable for cube index {index} (case {case}, configuration {config}) are locally closed "
               "and lie on the level set", not problems, fingerprint=f"index:{index}", found=problems[:3])
    chk.ob("T06.4", LUT, "all tilings", f"one constant orientation sign over all face segments ({nseg} segments in {ntil} tilings)",
           len(orient) == 1, fingerprint="orientation", found=sorted(orient))
    chk.analysed["notes"].append(f"T06.4: {ntil} tilings, {nseg} face segments, orientation signs {sorted(orient)}")
    # classic table is consistent too (used with classic=1)
    cl = tables.get("CASESCLASSIC")
    if cl:
        bad = []
        for index in range(256):
            r = mclut.row(cl, index)
            tri = []
            for v in r:
                if v == -1:
                    break
                tri.append(v)
            if len(tri) % 3:
                bad.append(index)
                continue
            pr, _ = mclut.check_tiling(cube, index, tri) if tri else ([], [])
            if any("straddle" in p or "not an edge" in p for p in pr):
                bad.append(index)
        chk.ob("T06.4", LUT, "CASESCLASSIC", "the classic table uses straddling edges only and whole triangles", not bad, found=bad[:5])


# ------------------------------------------------------------------------------------------------ R06.5
def r06_5(chk, repo):
    mc = repo.module(MC)
    q = "marching_cubes"
    ev = mc.ev(q, opaque={"func"})
    chk.saw(MC, q)
    hist = {}
    for e in ev.events:
        if e.kind == "assign" and e.name in ("vertices", "normals", "faces"):
            hist.setdefault(e.name, []).append(e)
    def steps(name):
        """[(event, operation)] : how each reassignment relates to the previous value."""
        out = []
        prev = None
        for e in hist.get(name, []):
            val = obj_init(e.value)
            op = "init"
            if prev is not None:
                a = val.as_atom()
                if a and call_name(a) == "numpy.fliplr" and a[2][0].key() == prev.key():
                    op = "fliplr"
                elif val.is_poly() and prev.key() in val.key() and "spacing" in val.key():
                    try:
                        r = val / prev
                        op = "scale:" + r.key()
                    except Exception:
                        op = "other"
                else:
                    op = "other"
            out.append((e, op))
            prev = e.value
        return out
    sv = steps("vertices")
    chk.need(len(sv) >= 2, f"{q}: vertex post-processing not found")
    ops = [o for _, o in sv]
    chk.ob("R06.5", MC, q, "vertices are flipped to array-axis order exactly once", ops.count("fliplr") == 1 and "other" not in ops,
           fingerprint="flip:vertices", found=ops)
    on = [o for _, o in steps("normals")]
    chk.ob("R06.5", MC, q, "normals are flipped exactly once, like the vertices", on.count("fliplr") == 1 and "other" not in on,
           fingerprint="flip:normals", found=on)
    scale = [o for o in ops if o.startswith("scale:")]
    chk.ob("R06.5", MC, q, "the spacing multiplies the vertices after the flip (array-axis order)",
           len(scale) == 1 and scale[0] == "scale:numpy.r_[spacing]" and ops.index(scale[0]) > ops.index("fliplr") if "fliplr" in ops and scale else False,
           fingerprint="spacing", found=ops)
    sf_ = steps("faces")
    ff = [e for e, o in sf_ if o == "fliplr"]
    okf = len(ff) == 1 and any(pol and c.key() == "(eq 'descent' gradient_direction)" for c, pol in ff[0].guards) and "other" not in [o for _, o in sf_]
    chk.ob("R06.5", MC, q, "the face winding is flipped for gradient_direction == 'descent' only", okf, fingerprint="winding",
           found=[o for _, o in sf_])
    rs = [e for e in ev.events if e.kind == "raise" and "gradient_direction" in e.value.key()]
    okr = bool(rs) and any(not pol and c.key() == "(eq 'descent' gradient_direction)" for c, pol in rs[0].guards) and \
        any(not pol and c.key() == "(eq 'ascent' gradient_direction)" for c, pol in rs[0].guards)
    chk.ob("R06.5", MC, q, "any other gradient_direction raises", okr, fingerprint="direction-raise")
    # faces are triangles; the unit spacing (1, 1, 1), and only that, may skip the scaling
    shp = [e for e in ev.events if e.kind == "store" and e.target.key().endswith(".shape") and "faces" in e.target.key()]
    chk.ob("R06.5", MC, q, "the face index array is shaped into triangles (-1, 3)", bool(shp) and all(e.value.key() == "(tuple (-1 3))" for e in shp),
           fingerprint="triangles", found=[str(e.value) for e in shp])
    sc = [e for e, o in sv if o.startswith("scale:")]
    skip = [c for e in sc for c, pol in e.guards if "array_equal" in c.key()]
    chk.ob("R06.5", MC, q, "the scaling by the spacing is skipped for the unit spacing (1, 1, 1) only", bool(sc) and
           all(any(c.key() == "numpy.array_equal(spacing, (tuple (1 1 1)))" and not pol for c, pol in e.guards) or not any("array_equal" in c.key() for c, _ in e.guards)
               for e in sc), fingerprint="unit-spacing", found=[str(c)[:80] for c in skip])
    # fmt/cube.py: the other caller of the mesher with a spacing of its own -- voxel step k is the length of grid axis k, i.e. of ROW k of the basis
    if repo.exists("fmt/cube.py"):
        cb = repo.module("fmt/cube.py")
        if "CubeData.isosurface" in cb.funcs:
            cev = cb.ev("CubeData.isosurface")
            chk.saw("fmt/cube.py", "CubeData.isosurface")
            mcs = [e for e in cev.events if e.kind == "call" and (call_name(e.value.as_atom() or ()) or "").endswith("marching_cubes")]
            sp = dict(mcs[0].extra["kwargs"]).get("spacing") if mcs else None
            oksp = False
            if sp is not None:
                it_ = seq_items(sp)
                if it_ and len(it_) == 3:
                    oksp = [x.key() for x in it_] == [f"numpy.linalg.norm(self.{ax}_basis)" for ax in "xyz"] or \
                        [x.key() for x in it_] == [f"numpy.linalg.norm(self.basis[{k}])" for k in range(3)]
                else:
                    oksp = sp.key() in ("numpy.linalg.norm(self.basis, axis=1)", "numpy.sqrt(numpy.sum(self.basis**2, axis=1))")
                    # the three norms as a comprehension over (x_basis, y_basis, z_basis) (or over the rows of the basis)
                    import re as _re
                    ca_ = sp.as_atom()
                    if ca_ and ca_[0] == "call" and call_name(ca_) in ("tuple", "list", "numpy.array", "numpy.asarray") and len(ca_[2]) == 1:
                        ca_ = ca_[2][0].as_atom()
                    if not oksp and ca_ and ca_[0] == "comp" and len(ca_) == 4 and len(ca_[3]) == 1 and not ca_[3][0][2]:
                        src_ = ca_[3][0][1].key()
                        elt_ = _re.sub(r"_it#\d+", "_it", ca_[2].key())
                        oksp = src_ in ("(tuple (self.x_basis self.y_basis self.z_basis))", "self.basis") and elt_ == f"numpy.linalg.norm({src_}[_it])"
            chk.ob("R06.5", "fmt/cube.py", "CubeData.isosurface", "the spacing handed to the mesher lists the lengths of the grid axes in array-axis order "
                   "(the rows x_basis, y_basis, z_basis of the basis; its columns are Cartesian components)", oksp, fingerprint="cube:spacing",
                   node=mcs[0].node if mcs else None, expected="(|x_basis|, |y_basis|, |z_basis|) = norm(basis, axis=1)", found=str(sp)[:160])
    # surface.py
    sf = repo.module(SF)
    if "smooth_laplacian" in sf.funcs:
        # the smoothing helper moves vertices; it hands back every vertex and every face it was given (dropping sheets of the level set
        # leaves atoms of the molecule outside the surface)
        evs_ = sf.ev("smooth_laplacian")
        chk.saw(SF, "smooth_laplacian")
        vp, fp = evs_.param_names[0], evs_.param_names[1]
        def is_whole(t):
            a = t.as_atom() if t is not None else None
            if not (a and a[0] == "call" and (call_name(a) or "").split(".")[-1] == "Trimesh"):
                return False
            kw = dict(a[3]) if len(a) > 3 and a[3] else {}
            va = a[2][0] if len(a[2]) > 0 else kw.get("vertices")
            fa = a[2][1] if len(a[2]) > 1 else kw.get("faces")
            return va is not None and fa is not None and va.key() == vp and fa.key() == fp

        def attr_of(t, name):
            a = t.as_atom() if t is not None else None
            return a[1] if a and a[0] == "attr" and a[2] == name else None
        okw = bool(evs_.returns)
        foundw = None
        for re_ in evs_.returns:
            it = seq_items(re_.value) if re_.value is not None else None
            if not (it and len(it) == 2 and is_whole(attr_of(it[0], "vertices")) and is_whole(attr_of(it[1], "faces"))
                    and attr_of(it[0], "vertices").key() == attr_of(it[1], "faces").key()):
                okw, foundw = False, foundw or str(re_.value)[:200]
        filt = [e for e in evs_.events if e.kind == "call" and (call_name(e.value.as_atom() or ()) or "").startswith("trimesh.smoothing.filter_")]
        okf = bool(filt) and all(e.extra["args"] and is_whole(e.extra["args"][0]) for e in filt)
        chk.ob("R06.5", SF, "smooth_laplacian", "the mesh that is smoothed and handed back is the whole mesh it was given (all vertices, all faces: "
               "no component, face or vertex is dropped)", okw and okf, fingerprint="smooth:whole-mesh",
               expected=f"mesh = Trimesh({vp}, {fp}); filter(mesh); return mesh.vertices, mesh.faces",
               found=foundw or [str(e.extra['args'][0])[:120] for e in filt if e.extra["args"]])
    for q2 in ("promolecule_density_isosurface", "stockholder_weight_isosurface"):
        ev2 = sf.ev(q2, opaque={"l", "u", "verts", "faces", "pts", "d", "weights", "x", "y", "z"})
        chk.saw(SF, q2)
        grids = {}
        gdt = {}
        for e in ev2.events:
            if e.kind == "assign" and e.name in ("x_grid", "y_grid", "z_grid"):
                a = e.value.as_atom()
                if a and call_name(a) == "numpy.arange":
                    kwd = dict(a[3]) if len(a) > 3 and a[3] else {}
                    if len(a[2]) > 3:
                        kwd.setdefault("dtype", a[2][3])
                    gdt[e.name] = kwd["dtype"].key() if "dtype" in kwd else None
                grids[e.name] = (a[2][0].key(), a[2][1].key(), a[2][2].key()) if a and call_name(a) == "numpy.arange" and len(a[2]) >= 3 else None
        okg = all(grids.get(f"{ax}_grid") == (f"$l[{k}]", f"$u[{k}]", "sep") for k, ax in enumerate("xyz"))
        chk.ob("R06.5", SF, q2, "grid axis k runs from l[k] to u[k] with the separation", okg, fingerprint=f"{q2}:grid", found=str(grids))
        FLOATS = {"numpy.float32", "numpy.float64", "numpy.double", "numpy.single", "float", "'float32'", "'float64'", "'f4'", "'f8'", "numpy.float_"}
        badd = {k: v for k, v in gdt.items() if v is not None and v not in FLOATS}
        chk.ob("R06.5", SF, q2, "the grid coordinates are floating point whatever the type of the separation: np.arange gets no dtype or a constant "
               "floating dtype (a dtype taken from the separation truncates the coordinates for an integer separation, while the vertices are "
               "still shifted by the untruncated box origin)", not badd, fingerprint=f"{q2}:grid-dtype", expected="dtype=np.float32", found=str(badd or gdt))
        vs = [e for e in ev2.events if e.kind == "assign" and e.name == "verts"]
        L0 = P.atom(("local", "l", 0))
        kinds = []
        for e in vs:
            v = e.value
            d = v - L0
            a = d.as_atom()
            if a and a[0] == "sub" and a[1].key() == "numpy.c_":
                cols = [column_of(x) for x in a[2]]
                same = len({c[0].key() for c in cols if c}) == 1 and all(c and (c[0].key().startswith("$verts") or (c[0].key().startswith("(ite ") and "$verts" in c[0].key())) for c in cols)
                kinds.append("permute(%s)+origin" % ",".join(str(c[1]) if c else "?" for c in cols) if same else "other")
            elif "marching_cubes(" in v.key():
                kinds.append("mesh")
            elif "smooth_laplacian($verts" in v.key():
                kinds.append("smooth")
            else:
                kinds.append("other")
        okp = kinds.count("permute(1,0,2)+origin") == 1 and "other" not in kinds and kinds[0] == "mesh" and not any(k.startswith("permute(") and k != "permute(1,0,2)+origin" for k in kinds)
        chk.ob("R06.5", SF, q2, "vertex columns are permuted (1, 0, 2) exactly once (the field comes from an 'xy' meshgrid) and the box origin is added once",
               okp, fingerprint=f"{q2}:perm", found=kinds)
        last = [k for k in ev2.defs if k[1] == "verts"]
        nver = len(last)
        # every exit of the function (a shortcut that skips the property evaluation included) hands out the mesh in the Cartesian frame
        final_all, okn_all, rk_bad, nk_bad, bad_node = True, True, "", "", None
        for re_ in ev2.returns:
            ret = re_.value.as_atom() if re_.value is not None else None
            if not (ret and ret[0] == "call"):
                ret = None
            okret = bool(ret and len(ret[2]) == 4 and "$verts" in ret[2][0].key() and "$faces" in ret[2][1].key())
            rk = ret[2][0].key() if okret else str(re_.value)[:80]
            final_ok = okret and (rk == f"$verts'{nver - 1}" or (rk.startswith("(ite ") and f"$verts'{nver - 1}" in rk))
            if not final_ok:
                final_all, rk_bad, bad_node = False, rk_bad or rk, bad_node or re_.node
            # the normals array of the returned mesh is in the frame of the vertices: permuted the same way, not shifted
            nr = ret[2][2] if ret and len(ret[2]) == 4 else None
            nk = nr.key() if nr is not None else ""
            okn = False
            if nr is not None:
                na = nr.as_atom()
                if na and na[0] == "sub" and na[1].key() == "numpy.c_":
                    cols = [column_of(x) for x in na[2]]
                    okn = all(cols) and [c[1] for c in cols] == [1, 0, 2] and len({c[0].key() for c in cols}) == 1 and "marching_cubes(" in cols[0][0].key()
            if not okn:
                okn_all, nk_bad = False, nk_bad or nk or "?"
        chk.ob("R06.5", SF, q2, "the returned mesh carries the final (permuted, shifted) vertices on every exit", bool(ev2.returns) and final_all,
               fingerprint=f"{q2}:return", found=rk_bad, node=bad_node)
        chk.ob("R06.5", SF, q2, "the normals returned with the mesh are permuted (1, 0, 2) like the vertices (same Cartesian frame), and not shifted",
               bool(ev2.returns) and okn_all, fingerprint=f"{q2}:normals", expected="numpy.c_[n[:, 1], n[:, 0], n[:, 2]] of the mesher's normals", found=nk_bad[:140])
        mg = [e for e in ev2.events if e.kind == "call" and call_name(e.value.as_atom() or ()) == "numpy.meshgrid"]
        okm = bool(mg) and dict(mg[0].extra["kwargs"]).get("indexing") is None and [a.key()[-7:] for a in mg[0].extra["args"]] and len(mg[0].extra["args"]) == 3
        chk.ob("R06.5", SF, q2, "the field is sampled on a default ('xy') meshgrid of the x, y, z grids", okm, fingerprint=f"{q2}:meshgrid")
        # ... given in the order x, y, z, unpacked in that order, and the sample points list (x, y, z) columns in that order
        okorder = bool(mg) and len(mg[0].extra["args"]) == 3 and all(
            call_name(a.as_atom() or ()) == "numpy.arange" and len(a.as_atom()[2]) >= 2 and a.as_atom()[2][0].key() == f"$l[{k}]" and a.as_atom()[2][1].key() == f"$u[{k}]"
            for k, a in enumerate(mg[0].extra["args"]))
        xyz = [ev2.defs.get(("local", nm, 0)) for nm in "xyz"]
        okunpack = bool(mg) and all(v is not None and v.as_atom() and v.as_atom()[0] == "sub" and v.as_atom()[2] == (P.const(k),)
                                    and call_name(v.as_atom()[1].as_atom() or ()) == "numpy.meshgrid" for k, v in enumerate(xyz))
        pv = ev2.defs.get(("local", "pts", 0))
        okpts = pv is not None and pv.key() in ("numpy.c_[$x.ravel(), $y.ravel(), $z.ravel()]", "numpy.c_[$x.flatten(), $y.flatten(), $z.flatten()]",
                                                "numpy.column_stack((tuple ($x.ravel() $y.ravel() $z.ravel())))")
        chk.ob("R06.5", SF, q2, "the meshgrid is given the x, y, z axes in that order, unpacked as x, y, z, and the sample points are the (x, y, z) columns",
               okorder and okunpack and okpts, fingerprint=f"{q2}:axis-order", found=f"args {okorder} unpack {okunpack} points {str(pv)[:80]}")
        sm = [e for e in vs if "smooth_laplacian(" in e.value.key()]
        chk.ob("R06.5", SF, q2, "the mesh is smoothed only when smoothing == 'laplacian' is asked for (the smoothed vertices leave the level set)",
               all(any(c.key() == "(eq 'laplacian' smoothing)" and pol for c, pol in e.guards) for e in sm), fingerprint=f"{q2}:smoothing",
               found=[str(e.guards[-1][0]) if e.guards else "unconditional" for e in sm])
        call = [e for e in ev2.events if e.kind == "call" and (call_name(e.value.as_atom() or ()) or "").endswith("marching_cubes")]
        okc = bool(call) and dict(call[0].extra["kwargs"]).get("gradient_direction") is not None and \
            string_value(dict(call[0].extra["kwargs"])["gradient_direction"]) == "descent" and \
            (call[0].extra["args"][1] if len(call[0].extra["args"]) > 1 else dict(call[0].extra["kwargs"]).get("level", P.const(-1))).key() == "isovalue"
        chk.ob("R06.5", SF, q2, "the mesher is run at the requested isovalue with descent orientation (density / weight is larger inside)", okc,
               fingerprint=f"{q2}:call")
        # the field is the density / weight at EVERY grid point: one evaluation over the whole grid, reshaped (a field filled only where a
        # pre-filter says so puts the level set on the filter's boundary wherever the true level set lies outside it)
        fld = call[0].extra["args"][0] if call else None
        fdefs = {k: v for k, v in ev2.defs.items() if k[0] == "local" and k[1] in ("d", "weights")}
        chain = []
        cur = fld
        for _ in range(4):
            a = cur.as_atom() if cur is not None else None
            if a and a[0] == "local" and a in fdefs:
                cur = fdefs[a]
                chain.append(str(cur)[:60])
                continue
            break
        ck = cur.key() if cur is not None else ""
        full = bool(ck) and (".rho($pts" in ck or ".weights($pts" in ck) and ck.endswith(".reshape(x.shape)") | ck.endswith(".reshape(shape)") | ck.endswith(".reshape($x.shape)") \
            and "[" not in ck.split("(", 1)[1].split(")")[0]
        masked = [e for e in ev2.events if e.kind in ("store", "aug") and e.target.key().startswith(("$d[", "$weights[", "$d'", "$weights'"))]
        chk.ob("R06.5", SF, q2, "the field handed to the mesher is the density / weight evaluated at every grid point (one call over the whole grid, "
               "reshaped to the grid)", full and not masked, node=(masked[0].node if masked else (call[0].node if call else None)),
               fingerprint=f"{q2}:field-complete", expected="<density>.rho(pts).reshape(shape)", found=(f"partial fill {str(masked[0].target)[:50]} = {str(masked[0].value)[:60]}" if masked else ck[:140]))


def r06_6(chk, repo):
    dp = repo.module(DP)
    for q, pos, rad in (("PromoleculeDensity.bb", "self.positions", "self.vdw_radii"), ("StockholderWeight.bb", "self.dens_a.positions", "self.dens_a.vdw_radii")):
        ev = dp.ev(q, opaque={"extra"})
        chk.saw(DP, q)
        ex = [v for k, v in ev.defs.items() if k[1] == "extra"]
        col = (f"{rad}[(slice None None None), numpy.newaxis]", f"{rad}[(slice None None None), None]", f"{rad}.reshape(-1, 1)",
               f"{rad}.reshape((tuple (-1 1)))")      # the (N,) radii as an (N, 1) column, in any spelling
        oke = bool(ex) and any(ex[0].key() in (f"{ev.param_names[1]} + {c}", f"{c} + {ev.param_names[1]}") for c in col)
        chk.ob("R06.6", DP, q, "extra = vdW radius (per atom) + buffer", oke, fingerprint=f"{q}:extra", found=str(ex[0]) if ex else None)
        it = seq_items(ev.returns[0].value)
        okb = bool(it) and len(it) == 2 and it[0].key() == f"numpy.min(-$extra + {pos}, axis=0)" and it[1].key() == f"numpy.max($extra + {pos}, axis=0)"
        chk.ob("R06.6", DP, q, "box = (min over atoms of pos - extra, max over atoms of pos + extra)", okb, fingerprint=f"{q}:box",
               found=str(ev.returns[0].value))


def r06_7(chk, repo):
    for rel, q in ((CR, "Crystal.stockholder_weight_isosurfaces"), (MOL, "Molecule.promolecule_density_isosurface")):
        mod = repo.module(rel)
        ev = mod.ev(q, opaque={"iso", "prop", "color"})
        chk.saw(rel, q)
        tm = [e for e in ev.events if e.kind == "call" and (call_name(e.value.as_atom() or ()) or "").endswith("Trimesh")]
        chk.need(tm, f"{q}: Trimesh construction not found")
        kw = dict(tm[-1].extra["kwargs"])
        owners = set()
        okk = True
        # the fields of the isosurface record, by name or by their position in the namedtuple (iso.vertices == iso[0])
        try:
            nt = repo.module(SF).toplevel_assign("IsosurfaceMesh")
            fields = nt.args[1].value.split() if isinstance(nt, ast.Call) and len(nt.args) > 1 and isinstance(nt.args[1], ast.Constant) else []
        except Exception:      # noqa: BLE001
            fields = []

        def field_of(v):
            a = v.as_atom() if v is not None else None
            if a and a[0] == "attr":
                return a[2], a[1]
            if a and a[0] == "sub" and len(a[2]) == 1 and a[2][0].const_value() is not None and 0 <= int(a[2][0].const_value()) < len(fields):
                return fields[int(a[2][0].const_value())], a[1]
            return None, None
        for k in ("vertices", "faces", "normals"):
            fname, owner = field_of(kw.get(k))
            if fname != k:
                okk = False
            else:
                owners.add(owner.key())
        chk.ob("R06.7", rel, q, "vertices, faces and normals of one and the same isosurface object go into the mesh", okk and len(owners) == 1,
               fingerprint="same-iso", found={k: str(v) for k, v in kw.items()})
        prop = [v for k, v in ev.defs.items() if k[1] == "prop"]
        col = [v for k, v in ev.defs.items() if k[1] == "color"]
        own = next(iter(owners)) if owners else "?"
        vp = [f"{own}.vertex_prop["] + ([f"{own}[{fields.index('vertex_prop')}]["] if "vertex_prop" in fields else [])
        okc = bool(prop) and bool(owners) and prop[-1].key().startswith(tuple(vp)) and bool(col) and \
            "property_to_color($prop" in col[-1].key() and kw.get("vertex_colors") is not None and kw["vertex_colors"].key() == "$color" + ("" if len(col) == 1 else f"'{len(col) - 1}")
        if not okc and bool(owners) and bool(col) and kw.get("vertex_colors") is not None and kw["vertex_colors"].key() == "$color" + ("" if len(col) == 1 else f"'{len(col) - 1}"):
            # the property handed to the colour map without a local of its own
            ca_ = col[-1].as_atom()
            okc = bool(ca_ and ca_[0] == "call" and (call_name(ca_) or "").endswith("property_to_color") and ca_[2] and ca_[2][0].key().startswith(tuple(vp)))
        chk.ob("R06.7", rel, q, "vertex colours are computed from a vertex property of that same object", okc, fingerprint="colour",
               found=f"prop={prop[-1] if prop else None} colour={kw.get('vertex_colors')}")


# ------------------------------------------------------------------------------------------------ R06.11
def r06_11(chk, repo):
    from ..effects import param_mutations
    sites = [(MOL, "Molecule.electrostatic_potential"), (MOL, "Molecule.electrostatic_potential_from_cube"), (CR, "_nearest_molecule_idx"),
             (DP, "PromoleculeDensity.rho"), (DP, "PromoleculeDensity.d_norm"), (DP, "StockholderWeight.weights"), (DP, "StockholderWeight.d_norm"),
             (SF, "promolecule_density_isosurface"), (SF, "stockholder_weight_isosurface")]
    n = 0
    for rel, q in sites:
        m = repo.module(rel)
        if q not in m.funcs:
            continue
        n += 1
        chk.saw(rel, q)
        mut = {k: v for k, v in param_mutations(repo, m, q).items() if k not in ("self", "cls")}
        chk.ob("R06.11", rel, q, "does not modify its array arguments in place", not mut, node=m.funcs[q], fingerprint=f"mutates:{q}",
               found=str({k: v[:2] for k, v in mut.items()})[:300])
    chk.need(n >= 6, f"R06.11: only {n} of the vertex-consuming functions were found")
