"""C16 — XYZ / SDF writers and readers agree with each other and with the V2000 layout."""
from __future__ import annotations

import ast

from ..core import AnalysisError
from ..poly import P
from ..symex import Ev, find_atoms, call_name, seq_items, obj_init
from ..layout import pieces_of, column_map
from .generic import axis_of, column_of, dict_items, string_value

MOL = "core/molecule.py"
SDF = "fmt/sdf.py"
XYZ = "fmt/xyz_file.py"

# MDL V2000 fixed-column reference (ctfile specification): name -> (start, width)
V2000_ATOM = [("x", 0, 10), ("y", 10, 10), ("z", 20, 10), ("space", 30, 1), ("symbol", 31, 3),
              ("mass_difference", 34, 2), ("charge", 36, 3), ("stereo", 39, 3), ("hydrogen_count", 42, 3),
              ("stereo_care_box", 45, 3), ("valence", 48, 3), ("h0_designator", 51, 3), ("not_used1", 54, 3),
              ("not_used2", 57, 3), ("mapping", 60, 3), ("inversion", 63, 3), ("exact_exchange", 66, 3)]
V2000_BOND = [("left", 0, 3), ("right", 3, 3), ("type", 6, 3), ("stereo", 9, 3), ("not_used", 12, 3),
              ("topology", 15, 3), ("center_status", 18, 3)]
V2000_COUNTS = [("atoms", 0, 3), ("bonds", 3, 3), ("atom_list", 6, 3), ("obselete", 9, 3), ("chiral", 12, 3),
                ("stext", 15, 3), ("obselete1", 18, 3), ("obselete2", 21, 3), ("obselete3", 24, 3),
                ("obselete4", 27, 3), ("additional", 30, 3), ("version", 33, None)]


def field_table(chk, mod, name):
    """[(field, has_parser, width)] of a reader table, with column starts."""
    node = mod.toplevel_assign(name)
    chk.need(isinstance(node, (ast.Tuple, ast.List)), f"{name} is no longer a literal table")
    out = []
    pos = 0
    for row in node.elts:
        chk.need(isinstance(row, (ast.Tuple, ast.List)) and len(row.elts) == 3 and isinstance(row.elts[0], ast.Constant),
                 f"{name}: row is not (name, parser, width)")
        fname = row.elts[0].value
        parser = row.elts[1]
        has_parser = not (isinstance(parser, ast.Constant) and parser.value is None)
        pname = mod.seg(parser)
        w = row.elts[2].value if isinstance(row.elts[2], ast.Constant) else "?"
        out.append((fname, has_parser, pos, w, pname))
        if isinstance(w, int) and pos is not None:
            pos += w
        else:
            pos = None
    return out


def run(chk):
    repo = chk.repo
    mol = repo.module(MOL)
    sdf = repo.module(SDF)
    xyz = repo.module(XYZ)
    chk.explanation = ("writers vs readers of .xyz and .sdf: axis/column agreement of coordinate fields, the column "
                       "map of the three SDF line writers (parsed from their f-strings with the exact format-spec "
                       "grammar) against the reader's field tables and the V2000 reference, record/section structure "
                       "against the reader's line offsets, boundedness of index-advance loops, XYZ token order, dispatch maps.")
    chk.rule("R16.1", "coordinate entries named x, y, z take columns 0, 1, 2 (writer) and are stacked in that order (reader)", 3)
    chk.rule("R16.2", "SDF column map: writer f-strings = reader field tables = V2000 reference; writer parameters = field names", 40)
    chk.rule("R16.3", "SDF record structure: writer sections = reader offsets; no blank section; index-advance loops bounded; records in order", 8)
    chk.rule("R16.4", "XYZ: writer tokens (symbol, x, y, z) = reader token indices; header lines; blank-run tolerant split", 8)
    chk.rule("R16.5", "save/load dispatch: every saved extension has a loader of the same format; identical extension normalisation", 4)
    chk.rule("R16.6", "serialising does not change the molecule: the fmt writers do not modify the arrays they are handed (views of the molecule's "
                      "positions), and the Molecule.to_* methods write to none of elements / positions", 4)
    if chk.want("R16.1"):
        r16_1(chk, mol)
    if chk.want("R16.2"):
        r16_2(chk, sdf)
    if chk.want("R16.3"):
        r16_3(chk, sdf, mol)
    if chk.want("R16.4"):
        r16_4(chk, mol, xyz)
    if chk.want("R16.5"):
        r16_5(chk, mol)
    if chk.want("R16.6"):
        r16_6(chk, repo, mol)
    chk.rule("R16.7", "how a number is written does not depend on its run-time Python type: no writer selects the float format by "
                      "isinstance(v, float) alone (numpy float32 and integer coordinates are not instances of float and would fall to another format)", 1)
    if chk.want("R16.7"):
        r16_7(chk, sdf, xyz)
    chk.rule("R16.8", "the element symbols of a file come back as the elements that were written: the lookup both readers go through resolves a "
                      "symbol by its whole normalised text, and the tables behind it are consistent (= C17 R17.2, R17.4, R17.5)", 10)
    if chk.want("R16.8"):
        from ..inherit import inherit
        inherit(chk, "R16.8", "c17", ["R17.2", "R17.4", "R17.5"])
    chk.assume("values fit their fixed-width fields (the property restricts coordinates to the representable range)")
    chk.assume("bond perception, numeric rounding to the written precision are not decided")


# ------------------------------------------------------------------------------------------------
def float_only_type_tests(tree):
    """isinstance(v, float) / isinstance(v, (float, int)) / type(v) is float  tests that leave numpy floating types out."""
    out = []
    for n in ast.walk(tree):
        if isinstance(n, ast.Call) and isinstance(n.func, ast.Name) and n.func.id == "isinstance" and len(n.args) == 2:
            t = n.args[1]
            names = [ast.unparse(x) for x in (t.elts if isinstance(t, ast.Tuple) else [t])]
            if "float" in names and not any(x.endswith(("floating", "Real", "Number", "number", "inexact", "generic")) for x in names):
                out.append(n)
        if isinstance(n, ast.Compare) and len(n.ops) == 1 and isinstance(n.ops[0], (ast.Is, ast.Eq)) and isinstance(n.left, ast.Call) \
                and isinstance(n.left.func, ast.Name) and n.left.func.id == "type" and isinstance(n.comparators[0], ast.Name) \
                and n.comparators[0].id == "float":
            out.append(n)
    return out


def r16_7(chk, sdf, xyz):
    import textwrap
    probe = ast.parse(textwrap.dedent("""
        def w(v, n):
            if isinstance(v, float):
                return f"{v:{n}.4f}"
            return f"{int(v):{n}d}"
    """))
    chk.need(len(float_only_type_tests(probe)) == 1, "R16.7 self-check: the embedded float-only type test was not recognised")
    chk.ob("R16.7", SDF, "(self-check)", "the rule recognises an isinstance(v, float) format switch in its embedded example", True, nontrivial=False)
    for rel, mod in ((SDF, sdf), (XYZ, xyz)):
        for qual, fn in mod.funcs.items():
            if qual.startswith(("parse_", "_parse")) or "pars" in qual:
                continue            # readers convert text, their values are Python objects
            for n in float_only_type_tests(fn):
                chk.ob("R16.7", rel, qual, "the number format is not selected by a test for the Python type float alone", False, node=n,
                       fingerprint=f"float-type-test:{ast.unparse(n)[:40]}", expected="a format applied to every real number (or a test that includes numpy.floating)",
                       found=ast.unparse(n))
        chk.ob("R16.7", rel, "(module)", f"no writer of {rel} switches its number format on isinstance(v, float)", True, fingerprint=f"scanned:{rel}")


def r16_1(chk, mol):
    q = "Molecule.to_sdf_string"
    ev = mol.ev(q)
    chk.saw(MOL, q)
    found = 0
    for e in ev.events:
        if e.value is None:
            continue
        for a in find_atoms(e.value, lambda a: a[0] == "dict"):
            items = dict_items(P.atom(a))
            axes = [(k, v) for k, _, v in items if k in ("x", "y", "z")]
            if len(axes) < 3:
                continue
            found += 1
            bases = set()
            for k, v in axes:
                col = column_of(v)
                ok = col is not None and col[1] == axis_of(k) and col[2] == "col"
                if col:
                    bases.add(col[0].key())
                chk.ob("R16.1", MOL, q, f"entry '{k}' takes column {axis_of(k)} of the position array", ok, node=e.node,
                       fingerprint=f"axis:{k}", expected=f"<positions>[:, {axis_of(k)}]", found=str(v))
            chk.ob("R16.1", MOL, q, "x, y, z are columns of one and the same array", len(bases) == 1, node=e.node,
                   found=sorted(bases))
            break
        if found:
            break
    chk.need(found, f"{q}: no dictionary with x, y, z entries found")
    # reader: np.c_[atoms['x'], atoms['y'], atoms['z']]
    q = "Molecule.from_sdf_dict"
    ev = mol.ev(q)
    chk.saw(MOL, q)
    stacked = None
    for e in ev.events:
        if e.kind == "assign" and e.value is not None:
            for a in find_atoms(e.value, lambda a: a[0] == "sub" and a[1].key() in ("numpy.c_", "numpy.r_")):
                stacked = (a, e)
            for a in find_atoms(e.value, lambda a: a[0] == "call" and call_name(a) in
                                ("numpy.column_stack", "numpy.stack", "numpy.vstack", "numpy.array", "numpy.hstack")):
                its = seq_items(a[2][0]) if a[2] else None
                if its and len(its) == 3 and stacked is None:
                    stacked = (("sub", None, tuple(its), call_name(a)), e)
    chk.need(stacked is not None, f"{q}: stacking of the x, y, z columns not found")
    a, e = stacked
    keys = []
    for it in a[2]:
        ia = it.as_atom()
        keys.append(string_value(ia[2][0]) if ia and ia[0] == "sub" and len(ia[2]) == 1 else None)
    col_major = a[1] is None or a[1].key() == "numpy.c_" or (len(a) > 3 and a[3] in ("numpy.column_stack",))
    chk.ob("R16.1", MOL, q, "the reader stacks the columns in the order x, y, z (as columns)",
           keys == ["x", "y", "z"] and (a[1] is not None and a[1].key() == "numpy.c_" or (len(a) > 3 and a[3] == "numpy.column_stack")),
           node=e.node, expected=["x", "y", "z"], found=keys)
    # elements from the symbol column, same dict
    els = [ev2 for ev2 in ev.events if ev2.kind == "assign" and ev2.value is not None and
           find_atoms(ev2.value, lambda t: t[0] == "sub" and t[1].key().endswith("Element"))]
    ok = False
    for ev2 in els:
        for t in find_atoms(ev2.value, lambda t: t[0] == "sub" and t[1].key().endswith("Element")):
            src = t[2][0].as_atom()
            if src and src[0] == "sub":
                inner = src[1].as_atom()
                if inner and inner[0] == "sub" and string_value(inner[2][0]) == "symbol":
                    ok = True
    chk.ob("R16.1", MOL, q, "elements are looked up from the 'symbol' column through Element[...]", ok)


# ------------------------------------------------------------------------------------------------
def writer_map(chk, sdf, q):
    ev = sdf.ev(q)
    chk.saw(SDF, q)
    chk.need(len(ev.returns) == 1, f"{q}: expected a single return")
    pieces = pieces_of(ev.returns[0].value)
    if pieces is None:
        raise AnalysisError(f"{SDF}:{q}: the returned line is not an f-string template: {ev.returns[0].value}")
    return ev, column_map(pieces)


def r16_2(chk, sdf):
    for q, table, ref in (("to_atom_line", "_ATOM_FIELDS", V2000_ATOM), ("to_bond_line", "_BOND_FIELDS", V2000_BOND),
                          ("to_counts_line", "_COUNTS_FIELDS", V2000_COUNTS)):
        ev, cmap = writer_map(chk, sdf, q)
        fields = field_table(chk, sdf, table)
        chk.table(f"{SDF}:{table}", len(fields))
        params = set(ev.param_names)
        fn = sdf.func(q)
        # reader table vs reference
        refd = {n: (s, w) for n, s, w in ref}
        for (fname, has_parser, start, w, pname) in fields:
            exp = refd.get(fname)
            chk.ob("R16.2", SDF, table, f"reader field '{fname}' sits at the V2000 columns",
                   exp is not None and exp[0] == start and (exp[1] == w or (exp[1] is None and w is None)),
                   fingerprint=f"reader:{table}:{fname}", expected=exp, found=(start, w))
            chk.ob("R16.2", SDF, q, f"writer accepts field '{fname}' as a keyword parameter", fname in params,
                   node=fn, fingerprint=f"param:{q}:{fname}")
        # writer pieces vs reader table
        wpos = {}
        for piece, start, w in cmap:
            if piece.kind == "fmt":
                name = piece.value.as_atom()
                pname = name[1] if name and name[0] == "name" else str(piece.value)
                wpos[pname] = (start, w, piece)
        rd = {f[0]: f for f in fields}
        for pname, (start, w, piece) in wpos.items():
            f = rd.get(pname)
            if f is None:
                chk.ob("R16.2", SDF, q, f"writer field '{pname}' exists in the reader table", False,
                       fingerprint=f"unknown:{q}:{pname}")
                continue
            _, has_parser, rstart, rw, parser_name = f
            ok = start == rstart and (w == rw or (rw is None))
            if rw is None and start is not None and rstart is not None and start > rstart:
                # trailing, stripped field: leading blank literals belong to it (V2000 version field is ' V2000')
                gap = [pc for pc, st, ww in cmap if pc.kind == "lit" and st is not None and rstart <= st < start]
                ok = sum(len(pc.text) for pc in gap) == start - rstart and all(pc.text.strip() == "" for pc in gap)
            chk.ob("R16.2", SDF, q, f"writer field '{pname}' occupies the reader's columns [{rstart}, {rstart}+{rw})",
                   ok, node=fn, fingerprint=f"col:{q}:{pname}", expected=(rstart, rw), found=(start, w))
            # the presentation type must be parseable by the reader's parser
            t = piece.spec.type
            if parser_name == "float":
                chk.ob("R16.2", SDF, q, f"'{pname}' is written fixed-point with >= 4 decimals (V2000: 10.4f)",
                       t in ("f", "F") and (piece.spec.prec or 0) >= 4, node=fn, fingerprint=f"fmt:{q}:{pname}",
                       found=piece.spec.text)
            elif parser_name in ("int", "bool"):
                chk.ob("R16.2", SDF, q, f"'{pname}' is written as an integer", t == "d", node=fn,
                       fingerprint=f"fmt:{q}:{pname}", found=piece.spec.text)
                # a ' ' or '+' sign flag reserves a column: the field then holds only width-1 digits and a value with `width` digits
                # (100 atoms in a 3-column counts field) pushes every later field one column to the right
                chk.ob("R16.2", SDF, q, f"'{pname}' can use all {w} columns of its field for digits (no sign flag on a non-negative count/code)",
                       piece.spec.sign not in (" ", "+"), node=fn, fingerprint=f"signflag:{q}:{pname}", expected=f"{{{pname}:{w}d}}",
                       found=f"{{{pname}:{piece.spec.text}}}")
        # literal pieces may only cover reader fields without a parser (or pad before the trailing version field)
        for piece, start, w in cmap:
            if piece.kind != "lit":
                continue
            ok = start is not None and piece.text.strip() == ""
            if ok:
                covered = [f for f in fields if f[2] is not None and isinstance(f[3], int)
                           and f[2] < start + w and start < f[2] + f[3]]
                trailing = [f for f in fields if f[3] is None and f[2] is not None and f[2] <= start]
                ok = all(not f[1] for f in covered) and (bool(covered) or bool(trailing))
                if covered:
                    ok = ok and min(f[2] for f in covered) == start and max(f[2] + f[3] for f in covered) == start + w
            chk.ob("R16.2", SDF, q, f"blank literal at column {start} (width {w}) covers exactly unparsed reader fields",
                   ok, node=fn, fingerprint=f"lit:{q}:{start}:{w}", found=repr(piece.text))
        # every parsed reader field that has no default-free writer piece must still be written (columns exist)
        missing = [f[0] for f in fields if f[1] and f[0] not in wpos]
        chk.ob("R16.2", SDF, q, "every field the reader parses is written", not missing, node=fn, found=missing)

    # readers slice with the running offset n : n + length, advancing n by length for every field
    for q, table in (("parse_atom_lines", "_ATOM_FIELDS"), ("parse_bond_lines", "_BOND_FIELDS"), ("parse_counts_line", "_COUNTS_FIELDS")):
        ev = sdf.ev(q)
        chk.saw(SDF, q)
        # parsed text fields keep their length: a numpy array allocated with dtype=str (one character per item) or 'U1' / 'S1' truncates
        # 'Cl' to 'C' on assignment without an error
        narrow = []
        for node in ast.walk(sdf.func(q)):
            if isinstance(node, ast.Call) and isinstance(node.func, ast.Attribute) and node.func.attr in ("empty", "zeros", "full", "empty_like", "zeros_like", "ndarray", "chararray"):
                for k in node.keywords:
                    if k.arg == "dtype":
                        for sub in ast.walk(k.value):
                            if (isinstance(sub, ast.Name) and sub.id in ("str", "bytes")) or (isinstance(sub, ast.Attribute) and sub.attr in ("str_", "bytes_", "unicode_")) \
                                    or (isinstance(sub, ast.Constant) and isinstance(sub.value, str) and sub.value.lstrip("<>=|")[:1] in ("U", "S", "a")):
                                narrow.append(ast.unparse(node)[:100])
        chk.ob("R16.2", SDF, q, "text fields are collected at full length (no preallocated fixed-width string array: dtype=str is one character wide)",
               not narrow, fingerprint=f"full-width:{q}", expected="python lists (or dtype=object) for text columns", found=narrow[:1])
        ok_slice = ok_adv = False
        bad_arg = []
        for e in ev.events:
            if e.kind == "call" and e.extra["args"]:
                # the table's parser (element 1 of the row) is applied to exactly the field's columns, for every field alike
                is_parser = e.target is not None and e.target.as_atom() and e.target.as_atom()[0] == "sub" and table in e.target.key() \
                    and e.target.as_atom()[2] and e.target.as_atom()[2][0] == P.const(1)
                aa = e.extra["args"][0].as_atom()
                whole = bool(aa and aa[0] == "sub" and len(aa[2]) == 1 and aa[2][0].as_atom() and aa[2][0].as_atom()[0] == "slice")
                if not whole and aa and aa[0] == "call" and call_name(aa) == ".strip" and not aa[2]:
                    # the last field of a table (width None) is the rest of the line, stripped
                    ra = aa[1].as_atom()[1].as_atom()
                    whole = bool(ra and ra[0] == "sub" and len(ra[2]) == 1 and ra[2][0].as_atom() and ra[2][0].as_atom()[0] == "slice"
                                 and ra[2][0].as_atom()[2].key() == "None")
                for a in find_atoms(e.extra["args"][0], lambda a: a[0] == "slice"):
                    lo, hi = a[1], a[2]
                    d = hi - lo if hi.key() != "None" else None
                    if d is not None and d.as_atom() and d.as_atom()[0] == "sub" and d.as_atom()[1].as_atom() \
                            and d.as_atom()[1].as_atom()[1].key() == table:
                        ok_slice = True
                if is_parser and not whole:
                    bad_arg.append(str(e.extra["args"][0])[:100])
            if e.kind == "assign" and e.extra.get("aug") == "Add":
                d = e.extra["delta"].as_atom()
                if d and d[0] == "sub" and d[1].as_atom() and d[1].as_atom()[1].key() == table \
                        and d[2][0] == P.const(2):
                    # must not be nested under the 'parser is not None' test
                    skip_guard = any("None" in c.key() and (c.as_atom() or ("",))[0] in ("is", "isnot")
                                     and "[1]" in c.key() for c, _ in e.guards)
                    ok_adv = not skip_guard
        if not ok_slice and not ok_adv:
            # form B: the columns were worked out beforehand (a table of slices computed from the field table and written out by the
            # evaluator, sa/miniinterp.py + sa/tablefold.py): every parsed field is read once, from exactly its own columns
            fields = field_table(chk, sdf, table)
            reads = {}
            for e in ev.events:
                key = val = None
                if e.kind == "call" and e.target is not None and e.target.key().endswith(".append") and e.extra.get("args"):
                    ta = e.target.as_atom()[1].as_atom()
                    if ta and ta[0] == "sub" and len(ta[2]) == 1 and string_value(ta[2][0]) is not None:
                        key, val = string_value(ta[2][0]), e.extra["args"][0]
                elif e.kind == "store" and e.target.as_atom() and e.target.as_atom()[0] == "sub" and len(e.target.as_atom()[2]) == 1 \
                        and string_value(e.target.as_atom()[2][0]) is not None:
                    key, val = string_value(e.target.as_atom()[2][0]), e.value
                if key is None or val is None:
                    continue
                for a in find_atoms(val, lambda a: a[0] == "slice"):
                    lo = 0 if a[1].key() == "None" else a[1].const_value()
                    hi = None if a[2].key() == "None" else a[2].const_value()
                    reads.setdefault(key, []).append((None if lo is None else int(lo), None if hi is None else int(hi)))
            want = {f[0]: (f[2], None if f[3] is None else f[2] + f[3]) for f in fields if f[1]}
            if reads:
                okb = all(reads.get(k) == [v] for k, v in want.items()) and set(reads) <= set(want)
                wrong = {k: (reads.get(k), v) for k, v in want.items() if reads.get(k) != [v]}
                chk.ob("R16.2", SDF, q, f"each field is read from line[n : n + width] with width from {table}", okb,
                       expected="every parsed field once, from [start, start + width) of its row in the table", found=str(wrong)[:200] or None)
                chk.ob("R16.2", SDF, q, "the offset advances by the field width for every field, parsed or not", okb)
                continue
        chk.ob("R16.2", SDF, q, f"each field is read from line[n : n + width] with width from {table}", ok_slice and not bad_arg, found=bad_arg[:2] or None)
        chk.ob("R16.2", SDF, q, "the offset advances by the field width for every field, parsed or not", ok_adv)


# ------------------------------------------------------------------------------------------------
def _fill_lengths(chk, sdf):
    """to_sdf_string pads missing columns of a block with [fill] * N and then writes range(M) lines of that block: N and M are the same count
    (the atom count for the atom block, the bond count for the bond block -- one copied from the other block indexes past the padding)."""
    fn = sdf.funcs.get("to_sdf_string")
    if fn is None:
        return
    pads = {}
    for st in ast.walk(fn):
        if isinstance(st, ast.Assign) and len(st.targets) == 1 and isinstance(st.targets[0], ast.Name) and isinstance(st.value, ast.DictComp):
            for c in ast.walk(st.value.value):
                if isinstance(c, ast.Call) and isinstance(c.func, ast.Attribute) and c.func.attr == "get" and len(c.args) == 2 \
                        and isinstance(c.args[1], ast.BinOp) and isinstance(c.args[1].op, ast.Mult):
                    n = c.args[1].right if isinstance(c.args[1].left, ast.List) else c.args[1].left
                    pads[st.targets[0].id] = ast.unparse(n)
    n_ = 0
    for st in ast.walk(fn):
        if isinstance(st, ast.For) and isinstance(st.iter, ast.Call) and isinstance(st.iter.func, ast.Name) and st.iter.func.id == "range" and len(st.iter.args) == 1:
            used = {x.id for x in ast.walk(st) if isinstance(x, ast.Name) and x.id in pads}
            for f in sorted(used):
                n_ += 1
                chk.ob("R16.3", SDF, "to_sdf_string", f"the padding of `{f}` has as many entries as lines are written from it", pads[f] == ast.unparse(st.iter.args[0]),
                       node=st, fingerprint=f"fill-length:{f}", expected=f"[fill] * {ast.unparse(st.iter.args[0])}", found=f"[fill] * {pads[f]}")


def r16_3(chk, sdf, mol):
    _fill_lengths(chk, sdf)
    # a chunk of blank lines only (after the last $$$$) must be skipped before lines[3] is read
    pc = sdf.ev("parse_sdf_contents")
    use = [e for e in pc.events if e.kind == "call" and call_name(e.value.as_atom() or ()) == "parse_counts_line"]
    chk.need(use, "parse_sdf_contents: parse_counts_line call not found")
    # guards are canonical: `if not compound.strip(): continue` leaves (compound.strip(), True) on the path that goes on
    # (a test on the number of lines, `len(lines) < 4` / `len(lines) <= 3`, is canonically not (len < 4) / (3 < len))
    gk = [c.key() for c, pol in use[0].guards if pol]
    gn = [c.key() for c, pol in use[0].guards if not pol]
    skip_blank = any(".strip()" in k and not k.startswith("(") for k in gk) or any(k.startswith("(lt len(") for k in gn) \
        or any(k.startswith("(lt ") and " len(" in k and not k.startswith("(lt len(") for k in gk)
    chk.ob("R16.3", SDF, "parse_sdf_contents", "a chunk that holds nothing but blank lines is skipped before its counts line is read "
           "(testing len(lines) == 0 lets a trailing blank line through)", skip_blank, node=use[0].node, fingerprint="skip-blank-chunk",
           expected="if not compound.strip(): continue", found=gk[:3])
    q = "to_sdf_string"
    ev = sdf.ev(q)
    chk.saw(SDF, q)
    chk.need(len(ev.returns) >= 1, f"{q}: no return")
    ret = ev.returns[-1]          # an exit in front of it with another value is reported by R16.19 (sa/rules/exits.py)
    # appended content of the list objects
    appended = {}
    for e in ev.events:
        if e.kind == "call" and e.target is not None:
            t = e.target.as_atom()
            if t and t[0] == "attr" and t[2] == "append" and t[1].as_atom() and t[1].as_atom()[0] == "obj":
                appended.setdefault(t[1].key(), []).append(e)

    def classify(term):
        """-> list of sections: ('lines', key, callee) | ('line', callee/str) | ('header',) """
        a = term.as_atom()
        if a is None:
            return None
        if a[0] == "obj" and a[1:3] and term.key() in appended:
            ap = appended[term.key()]
            callee = call_name(ap[0].extra["args"][0].as_atom() or ())
            return [("lines", callee, ap[0])]
        if a[0] == "obj":
            return classify(a[3])
        if a[0] == "comp" and a[1] in ("ListComp", "GeneratorExp") and len(a) == 4 and a[2].as_atom() and a[2].as_atom()[0] == "call":
            # [to_atom_line(...) for i in range(n)]: one line per iteration, the same block as an append loop
            g = a[3][0] if len(a[3]) == 1 else None
            hi = None
            if g and g[0] == "range" and not g[2] and g[1].as_atom() and call_name(g[1].as_atom()) == "range" and len(g[1].as_atom()[2]) == 1:
                hi = g[1].as_atom()[2][0]
            return [("lines", call_name(a[2].as_atom()), ("count", hi))]
        if a[0] == "concat":
            out = []
            for x in a[1]:
                c = classify(x)
                if c is None:
                    return None
                out.extend(c)
            return out
        if a[0] == "tuple":
            out = []
            for x in a[1]:
                xa = x.as_atom()
                if xa and xa[0] == "str":
                    out.append(("line", xa[1]))
                elif xa and xa[0] == "call":
                    out.append(("line", call_name(xa)))
                else:
                    out.append(("line", x.key()))
            return out
        if a[0] == "call" and call_name(a) in ("list", "tuple") and len(a[2]) == 1:
            return classify(a[2][0])
        if a[0] == "call" and call_name(a) == ".get" and a[2] and string_value(a[2][0]) == "header":
            return [("header", seq_items(a[2][1]) if len(a[2]) > 1 else None)]
        if a[0] == "call":
            return [("line", call_name(a))]
        return None

    def join_arg(term):
        a = term.as_atom()
        if a and a[0] == "call" and call_name(a) == ".join":
            sep = a[1].as_atom()[1]
            if string_value(sep) == "\n":
                return a[2][0]
        return None

    sections = None
    blank_risk = []
    ja = join_arg(ret.value)
    if ja is not None:
        sections = classify(ja)
    else:
        pieces = pieces_of(ret.value)
        if pieces is not None:
            sections = []
            for i, p in enumerate(pieces):
                if p.kind == "lit":
                    txt = p.text
                    if txt.strip("\n") and txt.strip("\n") != txt and False:
                        pass
                    for j, part in enumerate(txt.split("\n")):
                        if part:
                            sections.append(("line", part))
                    # separators must be single newlines
                    if "\n\n" in txt:
                        blank_risk.append(("literal", repr(txt)))
                else:
                    inner = join_arg(p.value)
                    if inner is not None:
                        c = classify(inner)
                        if c is None:
                            sections = None
                            break
                        sections.extend(c)
                        if any(s[0] == "lines" for s in c):
                            # a joined, possibly empty list placed between fixed newlines leaves a blank line
                            blank_risk.append(("possibly empty section", [s[1] for s in c if s[0] == "lines"]))
                    else:
                        c = classify(p.value)
                        if c is None:
                            sections = None
                            break
                        sections.extend(c)
    if sections is None:
        raise AnalysisError(f"{SDF}:{q}: cannot recognise the structure of the returned text: {ret.value}")
    kinds = [(s[0], s[1] if s[0] != "header" else None) for s in sections]
    exp = [("header", None), ("line", "to_counts_line"), ("lines", "to_atom_line"), ("lines", "to_bond_line"), ("line", "M  END")]
    chk.ob("R16.3", SDF, q, "sections are written in the order header, counts, atoms, bonds, 'M  END'", kinds == exp,
           node=ret.node, expected=exp, found=kinds)
    chk.ob("R16.3", SDF, q, "an empty atom or bond block leaves no blank line in the record", not blank_risk,
           node=ret.node, fingerprint="blank-section", expected="sections joined without fixed separators around "
           "possibly empty blocks", found=blank_risk)
    # header default has 3 lines and the molecule passes 3
    hdr = [s for s in sections if s[0] == "header"]
    nhdr = len(hdr[0][1]) if hdr and hdr[0][1] is not None else None
    mev = mol.ev("Molecule.to_sdf_string")
    mh = None
    for e in mev.events:
        if e.value is None:
            continue
        for a in find_atoms(e.value, lambda a: a[0] == "dict"):
            for k, _, v in dict_items(P.atom(a)):
                if k == "header":
                    it = seq_items(v)
                    mh = len(it) if it is not None else None
    # counts: number of atom lines == atoms count written
    rq = "parse_sdf_contents"
    rev = sdf.ev(rq)
    chk.saw(SDF, rq)
    lines_atom = None
    for e in rev.events:
        if e.kind == "assign" and e.name == "lines":
            lines_atom = e.value
    chk.need(lines_atom is not None, f"{rq}: variable 'lines' not found")
    # the line numbers of a record are counted from the start of its chunk: `lines` is the chunk split into lines and nothing else (a
    # strip() / lstrip() first swallows a blank title line and shifts every block by one)
    la_ = lines_atom.as_atom()
    piece = la_[1].as_atom()[1] if la_ and la_[0] == "call" and call_name(la_) in (".splitlines", ".split") else None
    raw = piece is not None and not find_atoms(piece, lambda t: t[0] == "call" and call_name(t) in (".strip", ".lstrip", ".rstrip", ".replace", "re.sub")) \
        and (call_name(la_) == ".splitlines" or (la_[2] and string_value(la_[2][0]) == "\n"))
    chk.ob("R16.3", SDF, rq, "the lines of a record are the lines of its chunk as written (line k of the record is lines[k]): the chunk is not stripped "
           "or rewritten before it is split", bool(raw), fingerprint="raw-lines", expected="compound.splitlines()", found=str(lines_atom)[-80:])
    LN = P.name("LINES")
    sub = {lines_atom.as_atom(): LN}

    def val(name):
        vs = [e.value.subs(sub) for e in rev.events if e.kind == "assign" and e.name == name]
        return vs

    def slice_of(term):
        a = term.as_atom()
        if a and a[0] == "sub" and a[1].key() == "LINES" and len(a[2]) == 1:
            s = a[2][0].as_atom()
            if s and s[0] == "slice":
                return s[1], s[2]
        return None

    hs = [slice_of(v) for v in val("header")]
    counts_v = val("counts")
    cidx = None
    COUNTS = P.name("COUNTS")
    if counts_v:
        ca = counts_v[0].as_atom()
        if ca and ca[0] == "call" and call_name(ca) == "parse_counts_line":
            arg = ca[2][0].as_atom()
            if arg and arg[0] == "sub" and arg[1].key() == "LINES":
                cidx = arg[2][0].const_value()
        sub2 = dict(sub)
        sub2[counts_v[0].as_atom()] = COUNTS
    chk.need(counts_v and cidx is not None, f"{rq}: counts line index not recognised")
    chk.ob("R16.3", SDF, rq, "reader header = lines[:k] and counts = lines[k] with k = number of header lines written",
           bool(hs) and hs[0] is not None and hs[0][0].key() == "None" and hs[0][1] == P.const(cidx)
           and nhdr == cidx and mh == cidx, expected=f"3 header lines (writer default {nhdr}, molecule {mh})",
           found=f"header slice {hs}, counts index {cidx}")
    A = P.atom(("sub", COUNTS, (P.atom(("str", "atoms")),)))
    B = P.atom(("sub", COUNTS, (P.atom(("str", "bonds")),)))
    lines2 = lines_atom.as_atom()

    def val2(name):
        return [e.value.subs({lines2: LN}).subs({counts_v[0].as_atom(): COUNTS}) for e in rev.events
                if e.kind == "assign" and e.name == name]
    # the blocks are what the block parsers are handed (whatever the slices are called on the way)
    def handed(parser):
        return [e.extra["args"][0].subs({lines2: LN}).subs({counts_v[0].as_atom(): COUNTS}) for e in rev.events
                if e.kind == "call" and call_name(e.value.as_atom() or ()) == parser and e.extra.get("args")]
    al = [slice_of(v) for v in handed("parse_atom_lines")]
    bl = [slice_of(v) for v in handed("parse_bond_lines")]
    first = P.const(cidx + 1)
    chk.ob("R16.3", SDF, rq, "atom block = lines[k+1 : k+1+atoms]",
           bool(al) and al[0] is not None and al[0][0] == first and al[0][1] == first + A,
           expected=f"[{first}, {first + A})", found=str(al))
    chk.ob("R16.3", SDF, rq, "bond block starts where the atom block ends and has 'bonds' lines",
           bool(bl) and bl[0] is not None and bl[0][0] == first + A and bl[0][1] == first + A + B,
           expected=f"[{first + A}, {first + A + B})", found=str(bl))
    # the writer's counts come from the same lists whose lengths drive the loops
    wcounts = [e for e in ev.events if e.kind == "call" and call_name(e.value.as_atom() or ()) == "to_counts_line"]
    okc = False
    if wcounts:
        kw = dict(wcounts[0].extra["kwargs"])
        # number of lines of each block: the bound of the range loop that appends them / of the comprehension that builds them
        written = {}
        for key, aps in appended.items():
            callee = call_name(aps[0].extra["args"][0].as_atom() or ())
            loop = aps[0].loops[-1] if aps[0].loops else None
            written[callee] = loop.hi.key() if loop is not None and loop.kind == "range" and loop.hi is not None else None
        for sct in sections:
            if sct[0] == "lines" and isinstance(sct[2], tuple) and sct[2][0] == "count":
                written[sct[1]] = sct[2][1].key() if sct[2][1] is not None else None
        okc = "atoms" in kw and "bonds" in kw and kw["atoms"].key() != kw["bonds"].key() \
            and written.get("to_atom_line") == kw["atoms"].key() and written.get("to_bond_line") == kw["bonds"].key()
    chk.ob("R16.3", SDF, q, "the counts line carries the numbers of atom and bond lines actually written", okc,
           found=str(wcounts[0].value) if wcounts else None)
    # index-advance loops are bounded
    nwhile = 0
    for l in rev.all_loops:
        if l.kind != "while":
            continue
        subs_in_test = find_atoms(l.iter, lambda a: a[0] == "sub" and len(a[2]) == 1 and
                                  a[2][0].as_atom() and a[2][0].as_atom()[0] == "lc")
        if not subs_in_test:
            continue
        nwhile += 1
        for s in subs_in_test:
            idx = s[2][0]
            base = s[1]
            # a conjunct  idx < len(base)
            bounded = False
            ta = l.iter.as_atom()
            conj = ta[1] if ta and ta[0] == "and" else (l.iter,)
            for c in conj:
                ca = c.as_atom()
                if ca and ca[0] == "lt" and ca[1].key() == idx.key():
                    r = ca[2].as_atom()
                    if r and r[0] == "call" and call_name(r) == "len" and r[2][0].key() == base.key():
                        bounded = True
            # ... and it does advance: the index grows by a positive constant in every pass (or the loop never ends)
            body = [e for e in rev.events if e.loops and e.loops[-1].k == l.k]
            base_g = min((len(e.guards) for e in body), default=0)
            name = idx.as_atom()[1]
            steps = [e for e in body if e.kind == "assign" and e.name == name and e.extra.get("aug") == "Add" and e.extra.get("delta") is not None
                     and e.extra["delta"].const_value() is not None and e.extra["delta"].const_value() >= 1 and len(e.guards) == base_g]
            chk.ob("R16.3", SDF, rq, "a loop that advances an index into the record's lines moves it forward in every pass", bool(steps), node=l.node,
                   fingerprint="while-progress", expected=f"{name} += 1 inside the loop, unconditionally", found=[str(e.value)[:60] for e in body if e.kind == "assign" and e.name == name][:2])
            chk.ob("R16.3", SDF, rq, "a loop that advances an index into the record's lines is bounded by their number",
                   bounded, node=l.node, fingerprint="while-bound", expected="while idx < len(lines) and lines[idx]...",
                   found=str(l.iter.subs({lines2: LN}))[:200])
    chk.need(nwhile >= 1, f"{rq}: the property-block loop was not found")
    # only what is not V2000 is refused
    vr = [e for e in rev.events if e.kind == "raise" and e.guards and "V2000" in e.guards[-1][0].key()]
    chk.ob("R16.3", SDF, rq, "a record is refused exactly when its version tag is not 'V2000'", len(vr) == 1 and
           (vr[0].guards[-1][0].as_atom() or ("",))[0] == "eq" and not vr[0].guards[-1][1] and "['version']" in vr[0].guards[-1][0].key(),
           fingerprint="version-test", expected="raise if counts['version'] != 'V2000'",
           found=[f"{'' if e.guards[-1][1] else 'not '}{e.guards[-1][0]}"[:100] for e in vr])
    # records: split on the terminator and appended in order inside the loop over the pieces
    comp = [e for e in rev.events if e.kind == "assign" and e.name == "compounds"]
    okrec = False
    if comp:
        a = comp[0].value.as_atom()
        okrec = bool(a and a[0] == "call" and call_name(a) == ".split" and a[2] and
                     (string_value(a[2][0]) or "").startswith("$$$$"))
    chk.ob("R16.3", SDF, rq, "records are split on the '$$$$' terminator", okrec,
           found=str(comp[0].value) if comp else None)
    app = [e for e in rev.events if e.kind == "call" and e.target is not None and e.target.key().endswith(".append")
           and e.target.as_atom()[1].as_atom() and e.target.as_atom()[1].as_atom()[0] == "obj"
           and e.target.as_atom()[1].as_atom()[1] == "results"]
    okapp = len(app) == 1 and len(app[0].loops) == 1 and app[0].loops[0].kind == "iter" and \
        rev.returns and rev.returns[-1].value.key() == app[0].target.as_atom()[1].key()
    chk.ob("R16.3", SDF, rq, "one result per record is appended in file order and that list is returned", bool(okapp))


# ------------------------------------------------------------------------------------------------
def r16_4(chk, mol, xyz):
    q = "Molecule.to_xyz_string"
    ev = mol.ev(q)
    chk.saw(MOL, q)
    line = line_text = None
    for e in ev.events:
        if e.kind == "call" and e.target is not None and e.target.key().endswith(".append") and e.loops:
            line, line_text = e, e.extra["args"][0]
        elif e.kind == "call" and e.target is not None and e.target.key().endswith(".extend") and e.extra.get("args"):
            # lines.extend(f"..." for el, (x, y, z) in zip(...)): one line per atom, the loop written as a comprehension
            ca = e.extra["args"][0].as_atom()
            if ca and ca[0] == "comp" and ca[1] in ("ListComp", "GeneratorExp") and len(ca) == 4 and not any(g[2] for g in ca[3]):
                line, line_text = e, ca[2]
    chk.need(line is not None, f"{q}: atom line append not found")
    pieces = pieces_of(line_text)
    chk.need(pieces is not None, f"{q}: atom line is not an f-string")
    fm = [p for p in pieces if p.kind == "fmt"]
    lits = [p for p in pieces if p.kind == "lit"]
    chk.ob("R16.4", MOL, q, "an atom line has four values separated by blanks only",
           len(fm) == 4 and all(p.text.strip() == "" and p.text for p in lits) and len(lits) == 3
           and pieces[0].kind == "fmt", node=line.node, found=[repr(p) for p in pieces])
    if len(fm) == 4:
        el = fm[0].value.as_atom()
        okel = bool(el and el[0] == "sub" and el[1].key() == "self.elements")
        idx = el[2][0] if okel else None
        chk.ob("R16.4", MOL, q, "the first token is the element of the same atom", okel, node=line.node, found=str(fm[0].value))
        for k, p in enumerate(fm[1:]):
            col = column_of(p.value)
            ok = False
            if col and col[1] == k:
                row = col[0].as_atom()
                ok = bool(row and row[0] == "sub" and row[1].key() == "self.positions" and idx is not None
                          and row[2][0].key() == idx.key())
            chk.ob("R16.4", MOL, q, f"token {k + 1} is coordinate {k} ({'xyz'[k]}) of the same atom", ok, node=line.node,
                   fingerprint=f"xyz-token:{k}", expected=f"self.positions[i][{k}]", found=str(p.value))
            chk.ob("R16.4", MOL, q, f"coordinate {k} is written fixed-point with at least 8 decimals",
                   p.spec.type in ("f", "F", "e", "E", "g") and (p.spec.prec or 0) >= 8, node=line.node,
                   fingerprint=f"xyz-prec:{k}", found=p.spec.text)
    # header: two lines when header is on
    init = None
    for e in ev.events:
        if e.kind == "assign" and e.guards and e.guards[-1][1] and seq_items(obj_init(e.value)) and "len(self)" in seq_items(obj_init(e.value))[0].key():
            init = obj_init(e.value)             # the header lines, under whatever name they are collected
        elif e.kind == "assign" and e.name == "lines" and not e.guards:
            # lines = [count, comment] if header else []
            ia = obj_init(e.value).as_atom()
            if ia and ia[0] == "ite" and seq_items(obj_init(ia[2])) is not None and seq_items(obj_init(ia[3])) == ():
                init = obj_init(ia[2])
    if init is None:
        # lines = []; if header: lines.append(count); lines.append(comment)   - the header lines appended one by one under the switch
        hp = [p_ for p_ in ev.param_names if p_ == "header"]
        happ = [e for e in ev.events if e.kind == "call" and e.target is not None and e.target.key().endswith(".append") and not e.loops
                and e.extra.get("args") and e.guards and e.guards[-1][1] and hp and e.guards[-1][0].key() == hp[0]]
        if happ and len({e.target.key() for e in happ}) == 1 and line is not None and line.target.key().rsplit(".", 1)[0] == happ[0].target.key().rsplit(".", 1)[0]:
            init = P.atom(("tuple", tuple(e.extra["args"][0] for e in happ)))
    nh = len(seq_items(init)) if init is not None and seq_items(init) is not None else None
    first_is_count = False
    if nh:
        f0 = seq_items(init)[0]
        first_is_count = "len(self)" in f0.key()
    rq = "parse_xyz_string"
    from ..normalise import pipeline_to_loops
    rev = xyz.ev(rq, post=pipeline_to_loops)         # a reader written as a pipeline of comprehensions is read as the loops it abbreviates
    chk.saw(XYZ, rq)
    start = None
    for l in rev.all_loops:
        if l.kind == "iter" and l.iter is not None:
            a = l.iter.as_atom()
            if a and a[0] == "sub":
                s = a[2][0].as_atom()
                if s and s[0] == "slice":
                    start = s[1].const_value()
    chk.ob("R16.4", XYZ, rq, "the reader skips exactly the header lines the writer emits (count, comment)",
           nh is not None and start == nh and first_is_count, expected=f"lines[{nh}:]", found=f"lines[{start}:]")
    # tokens
    tok_el = tok_xyz = None
    split_ok = None
    same_loop = set()
    import re as _re

    def walk_of(e):
        """which lines an append sees: the sequences its loops run over and the conditions on the way (two loops over the same lines
        under the same conditions collect line by line the same as one loop does)"""
        return (tuple(_re.sub(r"#\d+", "#", l.iter.key()) if l.iter is not None else str(l.k) for l in e.loops),
                tuple(sorted((_re.sub(r"#\d+", "#", c.key()), pol) for c, pol in e.guards)))
    for e in rev.events:
        if e.kind != "call" or e.target is None or not e.target.key().endswith(".append"):
            continue
        arg = e.extra["args"][0]
        for a in find_atoms(arg, lambda a: a[0] == "sub" and a[1].key().endswith("Element")):
            t = a[2][0].as_atom()
            if t and t[0] == "sub":
                tok_el = t[2][0].const_value()
                sp = t[1].as_atom()
                split_ok = bool(sp and sp[0] == "call" and call_name(sp) == ".split" and not sp[2])
                same_loop.add(walk_of(e))
        for a in find_atoms(arg, lambda a: a[0] == "slice"):
            lo, hi = a[1].const_value(), a[2].const_value()
            if lo is not None and hi is not None:
                tok_xyz = (int(lo), int(hi))
                same_loop.add(walk_of(e))
    chk.ob("R16.4", XYZ, rq, "token 0 is the element symbol (through Element[...]), tokens 1:4 are x, y, z",
           tok_el == 0 and tok_xyz == (1, 4), expected="tokens[0], tokens[1:4]", found=f"tokens[{tok_el}], tokens{tok_xyz}")
    chk.ob("R16.4", XYZ, rq, "fields are split on any run of blanks (split() without a separator)", bool(split_ok))
    chk.ob("R16.4", XYZ, rq, "element and position of a line are appended in the same iteration", len(same_loop) == 1,
           found=sorted(same_loop))
    # the coordinates returned are the parsed numbers themselves, and the header is skipped by position in the raw line list
    rv = rev.returns[-1].value
    it = seq_items(rv)
    okret = False
    if it and len(it) == 2:
        e_ok = it[0].as_atom() and it[0].as_atom()[0] == "obj"
        pa = it[1].as_atom()
        p_ok = bool(pa and pa[0] == "call" and call_name(pa) in ("numpy.asarray", "numpy.array") and pa[2] and pa[2][0].as_atom()
                    and pa[2][0].as_atom()[0] == "obj")
        okret = bool(e_ok and p_ok)
    chk.ob("R16.4", XYZ, rq, "the reader returns the collected elements and the parsed coordinates unchanged (no rescaling, no reordering)", okret,
           node=rev.returns[-1].node, fingerprint="xyz-return", expected="(elements, numpy.asarray(positions))", found=str(rv)[:160])
    lp = [l for l in rev.all_loops if l.kind == "iter" and l.iter is not None and l.iter.as_atom() and l.iter.as_atom()[0] == "sub"]
    raw = False
    if lp:
        base = lp[0].iter.as_atom()[1].as_atom()
        raw = bool(base and base[0] == "call" and call_name(base) in (".splitlines", ".split") and base[1].as_atom()[1].key() == rev.param_names[0])
    chk.ob("R16.4", XYZ, rq, "header lines are skipped by their position in the unfiltered list of lines (the comment line may be empty)", raw,
           fingerprint="xyz-raw-lines", expected="contents.splitlines()[2:]", found=str(lp[0].iter)[:120] if lp else None)
    fl = [e for e in rev.events if e.kind == "call" and e.target is not None and e.target.key().endswith(".append") and "positions" in e.target.key()]
    okf = False
    if fl:
        a0 = fl[0].extra["args"][0].as_atom()
        okf = bool(a0 and call_name(a0) == "tuple" and a0[2] and a0[2][0].as_atom() and a0[2][0].as_atom()[0] == "comp"
                   and "(slice 1 4 None)" in a0[2][0].as_atom()[2].key() and a0[2][0].as_atom()[2].key().count("*") == 0)
    chk.ob("R16.4", XYZ, rq, "each coordinate is float(token) of tokens 1..3, unscaled", okf, fingerprint="xyz-float",
           found=str(fl[0].extra["args"][0])[:160] if fl else None)
    q2 = "Molecule.from_xyz_string"
    ev2 = mol.ev(q2)
    ok = False
    for e in ev2.returns:
        a = e.value.as_atom()
        if a and a[0] == "call" and a[1].key() == "cls" and len(a[2]) >= 2:
            e0, p0 = a[2][0].as_atom(), a[2][1]
            # positions: the parser's (N, 3) array as it is (np.asarray / np.array of it at most); squeeze / ravel / reshape change the
            # shape for one atom or none
            pa = p0.as_atom()
            while pa and pa[0] == "call" and call_name(pa) in ("numpy.asarray", "numpy.array", "numpy.ascontiguousarray") and pa[2]:
                p0 = pa[2][0]
                pa = p0.as_atom()
            ok = bool(e0 and e0[0] == "sub" and e0[2][0] == P.const(0) and pa and pa[0] == "sub" and pa[2] and pa[2][0] == P.const(1)
                      and pa[1].key() == e0[1].key() and "parse_xyz_string" in e0[1].key())
    chk.ob("R16.4", MOL, q2, "from_xyz_string passes (elements, positions) of the parser to the constructor in that order, the (N, 3) array "
           "as parsed", ok, found=[str(e.value)[:140] for e in ev2.returns][:1])


# ------------------------------------------------------------------------------------------------
def _map_dict(mol, q):
    ev = mol.ev(q)
    for e in ev.returns:
        items = dict_items(e.value)
        if items is not None:
            out = {}
            for k, _, v in items:
                va = v.as_atom()
                out[k] = va[2] if va and va[0] == "attr" else str(v)
            return out
    raise AnalysisError(f"{MOL}:{q}: does not return a literal dictionary")


def r16_5(chk, mol):
    save = _map_dict(mol, "Molecule._ext_save_map")
    load = _map_dict(mol, "Molecule._ext_load_map")
    for ext, meth in save.items():
        fmt = meth[3:-5] if meth.startswith("to_") and meth.endswith("_file") else None
        lm = load.get(ext)
        chk.ob("R16.5", MOL, "Molecule._ext_save_map", f"extension {ext}: saved by {meth}, loaded by from_{fmt}_file",
               fmt is not None and lm == f"from_{fmt}_file" and ext == "." + fmt, fingerprint=f"ext:{ext}",
               expected=f"from_{fmt}_file", found=lm)
        # the file writer writes the string writer's text; the file reader reads the string reader's
        w = mol.ev(f"Molecule.{meth}")
        okw = any(e.kind == "call" and call_name(e.value.as_atom() or ()) == f".to_{fmt}_string" for e in w.events)
        chk.ob("R16.5", MOL, f"Molecule.{meth}", f"{meth} writes the text of to_{fmt}_string", okw)
    for need in (".xyz", ".sdf"):
        chk.ob("R16.5", MOL, "Molecule._ext_save_map", f"{need} can be saved and loaded", need in save and need in load,
               fingerprint=f"has:{need}")
    # same normalisation of the extension in save and load
    def ext_term(q):
        ev = mol.ev(q)
        fname = ev.param_names[1]
        for e in ev.returns:
            for a in find_atoms(e.value, lambda a: a[0] == "sub" and "_ext_" in a[1].key()):
                return a[2][0].subs({("name", fname): P.name("FILENAME"), ("name", "self"): P.name("OBJ"),
                                     ("name", "cls"): P.name("OBJ")})
        raise AnalysisError(f"{MOL}:{q}: extension lookup not found")
    a, b = ext_term("Molecule.save"), ext_term("Molecule.load")
    chk.ob("R16.5", MOL, "Molecule.save", "save and load normalise the extension / fmt= argument identically",
           a.key() == b.key(), expected=str(b), found=str(a))


# ------------------------------------------------------------------------------------------------ R16.6
def r16_6(chk, repo, mol):
    from ..effects import param_mutations, Effects
    for rel, q in (("fmt/sdf.py", "to_sdf_string"), ("fmt/sdf.py", "to_atom_line"), ("fmt/sdf.py", "to_sdf_file")):
        m = repo.module(rel)
        if q not in m.funcs:
            continue
        chk.saw(rel, q)
        mut = param_mutations(repo, m, q)
        chk.ob("R16.6", rel, q, "the writer does not modify its arguments in place (they are views of the molecule's arrays)", not mut,
               node=m.funcs[q], fingerprint=f"mutates:{q}", found=str({k: v[:2] for k, v in mut.items()})[:300])
    fx = Effects(repo)
    for meth in ("to_sdf_string", "to_xyz_string", "to_sdf_file", "to_xyz_file", "save"):
        if f"Molecule.{meth}" not in mol.funcs:
            continue
        ws = [w for w in fx.method_writes(MOL, "Molecule", meth) if w.attr in ("positions", "elements")]
        chk.saw(MOL, f"Molecule.{meth}")
        chk.ob("R16.6", MOL, f"Molecule.{meth}", "saving writes to neither the elements nor the positions of the molecule", not ws,
               fingerprint=f"writes:{meth}", found=[w.how for w in ws][:3])
