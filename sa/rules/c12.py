"""C12 — unit-cell geometry: closed-form matrices as polynomial identities, accessor/axis agreement, angle units."""
from __future__ import annotations

import ast

from ..core import AnalysisError
from ..poly import P
from ..symex import Ev, find_atoms, call_name, seq_items, matrix_items, matmul, transpose
from ..effects import property_hook, single_return
from ..tags import angle_unit
from .generic import string_value, axis_of

UC = "crystal/unit_cell.py"
CR = "crystal/crystal.py"


def sin_rules(*terms):
    """rewrite relations sin(t)^2 -> 1 - cos(t)^2 for every sin atom found."""
    rules = {}
    for t in terms:
        for a in find_atoms(t, lambda a: a[0] == "call" and call_name(a) == "sin" and len(a[2]) == 1):
            rules[a] = 1 - P.atom(("call", P.name("cos"), a[2])) ** 2
    return rules


def is_zero_mod(p: P, rules) -> bool:
    if p.is_zero():
        return True
    num = P(p.n).rewrite(rules)
    return num.is_zero()


from .generic import computed_return


def volume_hook(mod):
    """inline self.volume() and single-return properties of UnitCell."""
    fn = mod.func("UnitCell.volume")

    def hook(ev, callee, args, kwargs, node):
        ca = callee.as_atom()
        if ca and ca[0] == "attr" and ca[1].key() == "self" and ca[2] == "volume" and not args:
            sub = Ev(fn, mod.ctx, attr_hook=property_hook(mod, "UnitCell")).run()
            from .generic import computed_return
            return computed_return(sub).value
        # other zero-argument helper methods with a single return (e.g. a closed-form inverse factored out of the setter)
        if ca and ca[0] == "attr" and ca[1].key() == "self" and not args and not kwargs and ca[2] not in ("_set_cell_type",):
            f2 = mod.funcs.get(f"UnitCell.{ca[2]}")
            if f2 is not None and len([n for n in ast.walk(f2) if isinstance(n, ast.Return)]) == 1 and len(f2.args.args) == 1:
                sub = Ev(f2, mod.ctx, attr_hook=property_hook(mod, "UnitCell"), call_hook=hook).run()
                if sub.returns and sub.returns[0].value is not None and not any(e.kind in ("store", "aug") for e in sub.events):
                    return sub.returns[0].value
        return None
    return hook


def _copies_of(p):
    return {f"list({p})", f"tuple({p})", f"numpy.array({p})", f"numpy.array({p}, dtype=numpy.float64)", f"numpy.array({p}, dtype=float)", f"numpy.copy({p})",
            f"{p}.copy()"}


def run(chk):
    repo = chk.repo
    uc = repo.module(UC)
    chk.explanation = ("unit_cell.py: the direct and inverse matrices are read from the array literals of set_lengths_and_angles and "
                       "multiplied in an exact polynomial domain (sin^2 = 1 - cos^2, sqrt(x)^2 = x): direct.inverse = I, det = V, row "
                       "norms and dot products, starred lengths and angles against the inverse's columns; accessor names against "
                       "indices; angle-unit tags at every construction site; matrix words of the coordinate transforms.")
    chk.rule("R12.1", "direct . inverse = I; det(direct) = volume; row norms and row dot products reproduce a, b, c and the angles", 17)
    chk.rule("R12.2", "starred lengths are the column norms of the inverse; starred angles are the angles between those columns", 6)
    chk.rule("R12.3", "set_vectors pairs alpha-(b,c), beta-(c,a), gamma-(a,b); accessors use the ordinal of the axis they are named after", 20)
    chk.rule("R12.4", "angle units: every path into set_lengths_and_angles delivers radians; call sites agree with their unit=", 10)
    chk.rule("R12.5", "to_cartesian / to_fractional are right-multiplications by direct / inverse; reciprocal_lattice = inverse^T", 4)
    chk.rule("R12.6", "who may write the geometry: lengths, angles, direct and inverse are written only by set_lengths_and_angles and set_vectors "
                      "(classification and accessors write none of them)", 4)
    if chk.want("R12.6"):
        r12_6(chk, uc)
    chk.rule("R12.7", "the reported parameter vector is (lengths, angles in degrees) of this cell; its snapping of nearly equal entries compares like "
                      "with like (lengths are overwritten by lengths under a comparison of lengths, angles by angles under a comparison of angles)", 3)
    if chk.want("R12.7") and "UnitCell.parameters" in uc.funcs:
        r12_7(chk, uc)
    if chk.want("R12.3"):
        r12_unique(chk, uc)
    hook = volume_hook(uc)
    ev = uc.ev("UnitCell.set_lengths_and_angles", call_hook=hook, attr_hook=property_hook(uc, "UnitCell"))
    chk.saw(UC, "UnitCell.set_lengths_and_angles")
    paths = {}
    for e in ev.events:
        if e.kind == "store" and e.target.key() in ("self.direct", "self.inverse"):
            m = matrix_items(e.value)
            if m is None or len(m) != 3 or any(len(r) != 3 for r in m):
                raise AnalysisError(f"set_lengths_and_angles: {e.target} is not a 3x3 array literal")
            gk = tuple((c.key(), pol) for c, pol in e.guards)
            paths.setdefault(gk, {"guards": e.guards, "node": e.node})[e.target.key().split(".")[1]] = m
    paths = {k: v for k, v in paths.items() if "direct" in v or "inverse" in v}
    chk.need(paths and all("direct" in v and "inverse" in v for v in paths.values()),
             "set_lengths_and_angles: direct / inverse literals not found (or not stored together on every path)")
    L = P.atom(("attr", P.name("self"), "lengths"))
    A = P.atom(("attr", P.name("self"), "angles"))
    a, b, c = [P.atom(("sub", L, (P.const(k),))) for k in range(3)]
    al, be, ga = [P.atom(("sub", A, (P.const(k),))) for k in range(3)]
    cos = lambda t: P.atom(("call", P.name("cos"), (t,)))
    sin = lambda t: P.atom(("call", P.name("sin"), (t,)))
    ca, cb, cg = cos(al), cos(be), cos(ga)
    Vsq = a * a * b * b * c * c * (1 - ca * ca - cb * cb - cg * cg + 2 * ca * cb * cg)
    V = P.atom(("call", P.name("sqrt"), (1 - ca * ca - cb * cb - cg * cg + 2 * ca * cb * cg,))) * a * b * c

    def special(guards):
        """Rewrite rules a path's guards give: an angle tested equal/close to pi/2 has cosine 0 and sine 1.  None = not recognised."""
        extra = {}
        for cnd, pol in guards:
            hit = False
            for ang in (al, be, ga):
                k = cnd.key()
                if pol and ang.key() in k and ("(pi)/2" in k or "1/2*pi" in k or "numpy.pi/2" in k or "pi/2" in k) and \
                        (k.startswith(("close(", "numpy.isclose(", "numpy.allclose(", "isclose(", "math.isclose(")) or k.startswith("(eq ") or k.startswith("(lt abs(")):
                    extra[cos(ang).as_atom()] = P.const(0)
                    extra[sin(ang).as_atom()] = P.const(1)
                    hit = True
            if not hit and pol is not None:
                # a guard that says nothing about the angles on the general path (the negation of a fast-path test) is fine
                if not pol:
                    continue
                return None
        return extra
    general = [k for k in paths if not any(pol for _, pol in k)]
    for gk, pv in paths.items():
        D, I = pv["direct"], pv["inverse"]
        allterms = [x for row in D + I for x in row]
        rules = sin_rules(*allterms, sin(al), sin(be), sin(ga))
        ex = special(pv["guards"])
        if ex is None:
            raise AnalysisError(f"set_lengths_and_angles: matrices stored under a condition that is not recognised: {[str(c)[:60] for c, _ in pv['guards']]}")
        tag = "" if not ex else "@" + ",".join(sorted(str(P.atom(k)) for k in ex))
        syms = (a, b, c, ca, cb, cg, V)
        if ex:
            # specialise both sides to the path: substitute inside nested terms too (the volume's square root)
            D = [[x.subs(ex) for x in row] for row in D]
            I = [[x.subs(ex) for x in row] for row in I]
            syms = tuple(x.subs(ex) for x in syms)
            rules = sin_rules(*[x for row in D + I for x in row], sin(al), sin(be), sin(ga))
        if chk.want("R12.1"):
            r12_1_path(chk, uc, ev, D, I, rules, tag, syms, pv["node"], first=(gk == (general[0] if general else list(paths)[0])))
    D, I = paths[general[0] if general else list(paths)[0]]["direct"], paths[general[0] if general else list(paths)[0]]["inverse"]
    allterms = [x for row in D + I for x in row]
    rules = sin_rules(*allterms, sin(al), sin(be), sin(ga))
    if chk.want("R12.2"):
        ph = property_hook(uc, "UnitCell", depth=3)
        star_len = {}
        for k, nm in enumerate(("a_star", "b_star", "c_star")):
            pv = uc.ev(f"UnitCell.{nm}", call_hook=hook, attr_hook=ph)
            chk.saw(UC, f"UnitCell.{nm}")
            val = pv.returns[0].value
            star_len[k] = val
            col = [I[r][k] for r in range(3)]
            n2 = col[0] * col[0] + col[1] * col[1] + col[2] * col[2]
            r2 = dict(rules)
            r2.update(sin_rules(val))
            chk.ob("R12.2", UC, f"UnitCell.{nm}", f"{nm}^2 == |column {k} of inverse|^2", is_zero_mod(val * val - n2, r2),
                   expected=str(n2.rewrite(r2))[:160], found=str((val * val).rewrite(r2))[:160])
        pairs = {0: (1, 2), 1: (0, 2), 2: (0, 1)}
        for k, nm in enumerate(("alpha_star", "beta_star", "gamma_star")):
            pv = uc.ev(f"UnitCell.{nm}", call_hook=hook, attr_hook=ph)
            chk.saw(UC, f"UnitCell.{nm}")
            val = pv.returns[0].value.as_atom()
            chk.need(val is not None and call_name(val) == "arccos", f"UnitCell.{nm} is no longer arccos(...)")
            cosv = val[2][0]
            i, j = pairs[k]
            dot = P.const(0)
            for r in range(3):
                dot = dot + I[r][i] * I[r][j]
            r2 = dict(rules)
            r2.update(sin_rules(cosv, star_len[i], star_len[j]))
            chk.ob("R12.2", UC, f"UnitCell.{nm}", f"cos({nm}) |{'abc'[i]}*| |{'abc'[j]}*| == (column {i} . column {j}) of inverse",
                   is_zero_mod(cosv * star_len[i] * star_len[j] - dot, r2), expected=str(dot.rewrite(r2))[:160],
                   found=str((cosv * star_len[i] * star_len[j]).rewrite(r2))[:160])
    if chk.want("R12.3"):
        r12_3(chk, uc)
    if chk.want("R12.4"):
        r12_4(chk, repo, uc)
    if chk.want("R12.5"):
        for nm, mat in (("to_cartesian", "direct"), ("to_fractional", "inverse")):
            pv = uc.ev(f"UnitCell.{nm}")
            x = P.name(pv.param_names[1])
            want = matmul(x, P.atom(("attr", P.name("self"), mat)))
            chk.ob("R12.5", UC, f"UnitCell.{nm}", f"{nm}(x) = x . {mat}", pv.returns[0].value == want, expected=str(want),
                   found=str(pv.returns[0].value))
        pv = uc.ev("UnitCell.reciprocal_lattice")
        chk.ob("R12.5", UC, "UnitCell.reciprocal_lattice", "reciprocal_lattice = inverse^T",
               pv.returns[0].value == transpose(P.atom(("attr", P.name("self"), "inverse"))), found=str(pv.returns[0].value))
        pv = uc.ev("UnitCell.lattice")
        chk.ob("R12.5", UC, "UnitCell.lattice", "lattice = direct", pv.returns[0].value.key() == "self.direct", found=str(pv.returns[0].value))
    chk.assume("conditioning, arccos clipping and the snapping tolerance of `parameters` are not decided")
    chk.assume("sin^2 + cos^2 = 1 and sqrt(x)^2 = x (x >= 0 for a valid cell) are the only relations used")


def r12_1_path(chk, uc, ev, D, I, rules, tag, syms, node, first=True):
    a, b, c, ca, cb, cg, V = syms
    if first:
        # the stores of lengths / angles feed the formulas
        st = {e.target.key(): e.value.key() for e in ev.events if e.kind == "store"}
        chk.ob("R12.1", UC, "UnitCell.set_lengths_and_angles", "lengths and angles are stored from the arguments before the matrices are built",
               st.get("self.lengths") in _copies_of(ev.param_names[1]) | {ev.param_names[1]} and
               st.get("self.angles") in _copies_of(ev.param_names[2]) | {ev.param_names[2]}, found=str(st)[:120])
        chk.ob("R12.1", UC, "UnitCell.set_lengths_and_angles", "the cell stores its own copies of the lengths and angles (a later change of the "
               "caller's arrays must not change the cell)", st.get("self.lengths") in _copies_of(ev.param_names[1]) and
               st.get("self.angles") in _copies_of(ev.param_names[2]), fingerprint="params-copy", expected="list(lengths), list(angles)",
               found=f"{st.get('self.lengths')}, {st.get('self.angles')}")
        vv = uc.ev("UnitCell.volume", attr_hook=property_hook(uc, "UnitCell"))
        chk.saw(UC, "UnitCell.volume")
        chk.ob("R12.1", UC, "UnitCell.volume", "volume = abc sqrt(1 - ca^2 - cb^2 - cg^2 + 2 ca cb cg)",
               is_zero_mod(computed_return(vv).value - V, rules), expected=str(V), found=str(computed_return(vv).value))
    for i in range(3):
        for j in range(3):
            s = P.const(0)
            for k in range(3):
                s = s + D[i][k] * I[k][j]
            want = P.const(1 if i == j else 0)
            chk.ob("R12.1", UC, "UnitCell.set_lengths_and_angles", f"(direct . inverse)[{i},{j}] == {want}",
                   is_zero_mod(s - want, rules), fingerprint=f"DI:{i}{j}{tag}", expected=str(want), found=str(s.rewrite(rules))[:200])
    det = (D[0][0] * (D[1][1] * D[2][2] - D[1][2] * D[2][1]) - D[0][1] * (D[1][0] * D[2][2] - D[1][2] * D[2][0])
           + D[0][2] * (D[1][0] * D[2][1] - D[1][1] * D[2][0]))
    chk.ob("R12.1", UC, "UnitCell.set_lengths_and_angles", "det(direct) == volume" + (f" on the path where {tag[1:]}" if tag else ""), is_zero_mod(det - V, rules), fingerprint="det" + tag, node=node,
           expected=str(V), found=str(det)[:200])
    dots = {(0, 0): a * a, (1, 1): b * b, (2, 2): c * c, (1, 2): b * c * ca, (0, 2): a * c * cb, (0, 1): a * b * cg}
    names = {(0, 0): "|a|^2", (1, 1): "|b|^2", (2, 2): "|c|^2", (1, 2): "b.c = bc cos(alpha)", (0, 2): "a.c = ac cos(beta)",
             (0, 1): "a.b = ab cos(gamma)"}
    for (i, j), want in dots.items():
        s = P.const(0)
        for k in range(3):
            s = s + D[i][k] * D[j][k]
        chk.ob("R12.1", UC, "UnitCell.set_lengths_and_angles", f"rows of direct: {names[(i, j)]}", is_zero_mod(s - want, rules),
               fingerprint=f"DD:{i}{j}{tag}", expected=str(want), found=str(s.rewrite(rules))[:200])


def _adjugate_inverse(term: P, vec: P) -> bool:
    """inverse = column_stack((r1 x r2, r2 x r0, r0 x r1)) / det(M) for the matrix M with rows r0, r1, r2: the adjugate formula, exact for
    every orientation (the second spelling of 'the numerical inverse of the given matrix')."""
    M = {vec.key(), "self.direct"}
    det = None
    for d in find_atoms(term, lambda t: t[0] == "call" and call_name(t) == "numpy.linalg.det" and t[2] and t[2][0].key() in M):
        det = P.atom(d)
    if det is None:
        return False
    num = term * det
    from .generic import stack_columns
    cols = stack_columns(num)
    if not cols or len(cols) != 3:
        return False
    want = [(1, 2), (2, 0), (0, 1)]
    for c, (i, j) in zip(cols, want):
        a = c.as_atom()
        if not (a and a[0] == "call" and call_name(a) == "numpy.cross" and len(a[2]) == 2):
            return False
        rows = []
        for x in a[2]:
            xa = x.as_atom()
            if not (xa and xa[0] == "sub" and xa[1].key() in M and len(xa[2]) in (1, 2) and xa[2][0].const_value() is not None
                    and (len(xa[2]) == 1 or xa[2][1].key().startswith("(slice None None None)"))):
                return False
            rows.append(int(xa[2][0].const_value()))
        if tuple(rows) != (i, j):
            return False
    return True


def r12_3(chk, uc):
    q = "UnitCell.set_vectors"
    ev = uc.ev(q, opaque={"u_a", "u_b", "u_c"})
    chk.saw(UC, q)
    vec = P.name(ev.param_names[1])

    def plain(t):
        """numpy.array(vectors, ...) / numpy.asarray(vectors, ...) -> vectors (a copy has the same entries)"""
        m = {}
        for a in find_atoms(t, lambda a: a[0] == "call" and call_name(a) in ("numpy.array", "numpy.asarray", "numpy.copy") and a[2]
                            and a[2][0].key() == vec.key()):
            m[a] = vec
        return t.subs(m) if m else t
    raw_direct = [e.value for e in ev.events if e.kind == "store" and e.target.key() == "self.direct"]
    for e in ev.events:
        if e.value is not None:
            e.value = plain(e.value)
    for k in list(ev.defs):
        ev.defs[k] = plain(ev.defs[k])
    st = {e.target.key(): e.value for e in ev.events if e.kind == "store"}
    invs = [e for e in ev.events if e.kind == "store" and e.target.key() == "self.inverse"]
    own = bool(raw_direct) and all(call_name(v.as_atom() or ()) in ("numpy.array", "numpy.copy") for v in raw_direct)
    chk.ob("R12.3", UC, q, "the cell stores its own copy of the vectors (a later change of the caller's array must not change the cell; array_like "
           "input is converted)", own, fingerprint="vectors-copy", expected="numpy.array(vectors, dtype=float)", found=[str(v)[:80] for v in raw_direct])
    chk.ob("R12.3", UC, q, "direct is the given matrix and inverse its numerical inverse, on every path (a closed form in lengths and angles only "
           "holds for the standard orientation with positive diagonal)",
           st.get("self.direct") is not None and st["self.direct"].key() == vec.key() and bool(invs) and
           all(e.value.key() in ("numpy.linalg.inv(self.direct)", f"numpy.linalg.inv({vec})") or _adjugate_inverse(e.value, vec) for e in invs),
           node=invs[0].node if invs else None, fingerprint="vectors-inverse",
           found=str([("" if not e.guards else "under " + str(e.guards[-1][0])[:60] + ": ") + str(e.value)[:80] for e in invs])[:300])
    L = st.get("self.lengths")
    items = seq_items(L) if L is not None else None
    # self.direct holds the given vectors (checked above): norms taken of either are the same row norms
    same = {("attr", P.name("self"), "direct"): vec} if st.get("self.direct") is not None and st["self.direct"].key() == vec.key() else {}
    norm = f"numpy.linalg.norm({vec if same else 'self.direct'}, axis=1)"
    chk.ob("R12.3", UC, q, "lengths are the row norms of the matrix, in order a, b, c",
           items is not None and [x.subs(same).key() for x in items] == [f"{norm}[{k}]" for k in range(3)], found=str(L))
    # unit vector of axis k: row k of the matrix divided by its own length (whatever the locals are called)
    none3 = (P.atom(("const", None)),) * 3

    def unit(k, short=False):
        row = P.atom(("sub", vec, (P.const(k),) if short else (P.const(k), P.atom(("slice",) + none3))))
        nrm = P.atom(("sub", P.atom(("call", P.name("numpy.linalg.norm"), (vec,), (("axis", P.const(1)),))), (P.const(k),)))
        return row / nrm
    units = {}
    for k in range(3):
        for short in (False, True):
            units[unit(k, short).key()] = k
    defs = {k[1]: v.subs({("attr", P.name("self"), "direct"): vec}) if same else v for k, v in ev.defs.items()}

    def axis_of(t):
        """which axis' unit vector a term is (through an opaque local), or None"""
        ta = t.as_atom()
        if ta and ta[0] == "local" and ta[1] in defs:
            t = defs[ta[1]]
        if same:
            t = t.subs(same)
        return units.get(t.key())
    A = st.get("self.angles")
    items = seq_items(A) if A is not None else None
    want_pairs = [(1, 2), (2, 0), (0, 1)]
    axn = "abc"
    for k, nm in enumerate(("alpha", "beta", "gamma")):
        ok = False
        found = None
        if items is not None and len(items) == 3:
            a = items[k].as_atom()
            found = str(items[k])
            if a and call_name(a) == "arccos":
                vd = find_atoms(a[2][0], lambda t: t[0] == "call" and call_name(t) in ("numpy.vdot", "numpy.dot", "numpy.inner"))
                vd = vd or [("call", None, m[1]) for m in find_atoms(a[2][0], lambda t: t[0] == "matmul" and len(t[1]) == 2)]
                # the cosine handed to arccos is the dot product itself, at most clamped to [-1, 1] against rounding (another interval changes angles)
                ca_ = a[2][0].as_atom()
                clamp = None
                if ca_ and ca_[0] == "call" and call_name(ca_) in ("numpy.clip", "clip") and len(ca_[2]) == 3:
                    clamp = (ca_[2][1].const_value(), ca_[2][2].const_value())
                    inner_ = ca_[2][0].as_atom()
                else:
                    inner_ = ca_
                plain_dot = bool(inner_ and (inner_[0] == "matmul" or (inner_[0] == "call" and call_name(inner_) in ("numpy.vdot", "numpy.dot", "numpy.inner"))))
                chk.ob("R12.3", UC, q, f"the cosine of {nm} is the dot product of the two unit vectors, clamped to [-1, 1] at most", plain_dot and
                       clamp in (None, (-1, 1)), fingerprint=f"cosine:{nm}", expected="arccos(clip(u . v, -1, 1))", found=str(a[2][0])[:120])
                if vd:
                    got = {axis_of(vd[0][2][0]), axis_of(vd[0][2][1])}
                    ok = got == set(want_pairs[k])
                    if None in got:
                        # which rows, and is each divided by its own length?
                        for j, x in enumerate(vd[0][2][:2]):
                            chk.ob("R12.3", UC, q, f"operand {j} of the {nm} dot product is a row of the matrix divided by its own length", False,
                                   fingerprint=f"unit:{nm}:{j}", expected=str(unit(want_pairs[k][j])), found=str(x)[:160]) if axis_of(x) is None else None
        chk.ob("R12.3", UC, q, f"{nm} is the angle between u_{axn[want_pairs[k][0]]} and u_{axn[want_pairs[k][1]]} (each row divided by its own length)", ok,
               fingerprint=f"angle:{nm}", found=found)
    # accessors (G1)
    acc = {"a": ("lengths", 0, "item"), "b": ("lengths", 1, "item"), "c": ("lengths", 2, "item"),
           "alpha": ("angles", 0, "item"), "beta": ("angles", 1, "item"), "gamma": ("angles", 2, "item"),
           "v_a": ("direct", 0, "row"), "v_b": ("direct", 1, "row"), "v_c": ("direct", 2, "row"),
           "v_a_star": ("inverse", 0, "col"), "v_b_star": ("inverse", 1, "col"), "v_c_star": ("inverse", 2, "col"),
           "alpha_deg": ("angles", 0, "deg"), "beta_deg": ("angles", 1, "deg"), "gamma_deg": ("angles", 2, "deg")}
    none = P.atom(("const", None))
    for nm, (field, k, kind) in acc.items():
        pv = uc.ev(f"UnitCell.{nm}")
        v = pv.returns[0].value
        f = P.atom(("attr", P.name("self"), field))
        if kind in ("item", "row"):
            want = P.atom(("sub", f, (P.const(k),)))
        elif kind == "col":
            want = P.atom(("sub", f, (P.atom(("slice", none, none, none)), P.const(k))))
        else:
            want = P.atom(("call", P.name("degrees"), (P.atom(("sub", f, (P.const(k),))),)))
        chk.ob("R12.3", UC, f"UnitCell.{nm}", f"accessor {nm} reads index {k} of {field}" + (" (a column: reciprocal vectors are columns of the inverse)" if kind == "col" else ""),
               v == want, fingerprint=f"accessor:{nm}", expected=str(want), found=str(v))


UNIT_HINTS = (("cell_angle", "deg"), ("['CELL']['angles']", "deg"), ("pdb.unit_cell", "deg"), ("unit_cell['alpha']", "deg"))


def tag_of(term: P):
    t = angle_unit(term)
    if t:
        return t
    k = term.key()
    for hint, unit in UNIT_HINTS:
        if hint in k:
            return unit
    return None


def r12_4(chk, repo, uc):
    q = "UnitCell.from_lengths_and_angles"
    ev = uc.ev(q)
    chk.saw(UC, q)
    ang = P.name(ev.param_names[2])
    # constructing a cell leaves the caller's lengths / angles alone (a unit conversion in place on np.asarray(angles) converts the
    # caller's array: the next cell built from the same parameters is a different cell)
    from ..effects import param_mutations
    for ctor in [f.name for f in uc.methods("UnitCell") if f.name in ("from_lengths_and_angles", "from_unique_parameters", "from_unique_parameters_deg",
                                                                       "cubic", "rhombohedral", "hexagonal", "tetragonal", "orthorhombic", "monoclinic", "triclinic")]:
        muts = param_mutations(repo, uc, f"UnitCell.{ctor}")
        muts = {k: v for k, v in muts.items() if k not in ("cls", "self")}
        chk.ob("R12.4", UC, f"UnitCell.{ctor}", "the constructor does not modify the lengths / angles / parameters it is given", not muts,
               fingerprint=f"args-unchanged:{ctor}", expected="np.radians(angles) (a new array)", found=[f"{k}: {v[0]}" for k, v in muts.items()][:2])
    calls = [e for e in ev.events if e.kind == "call" and call_name(e.value.as_atom() or ()) == ".set_lengths_and_angles"]
    chk.need(len(calls) in (1, 2), f"{q}: expected one or two calls of set_lengths_and_angles")
    cases = []
    for e in calls:
        arg = e.extra["args"][1]
        aa = arg.as_atom()
        ca = aa[1].as_atom() if aa and aa[0] == "ite" else None
        if ca and ca[0] in ("eq", "ne") and "'radians'" in aa[1].key():
            # one call, the conversion chosen beforehand: angles if unit == "radians" else np.radians(angles)
            cases.append((e, ca[0] == "eq", aa[2]))
            cases.append((e, ca[0] != "eq", aa[3]))
        else:
            cases.append((e, any(pol == (c.as_atom()[0] == "eq") for c, pol in e.guards
                                 if c.as_atom() and c.as_atom()[0] in ("eq", "ne") and "'radians'" in c.key()), arg))
    chk.need(len(cases) == 2 and {c[1] for c in cases} == {True, False}, f"{q}: expected a radians case and a conversion case")
    for e, is_rad_branch, arg in cases:
        if is_rad_branch:
            ok = arg.key() == ang.key()
            what = "unit == 'radians': angles are passed on unchanged"
        else:
            ok = arg == P.atom(("call", P.name("radians"), (ang,)))
            what = "any other unit: angles are converted with np.radians"
        chk.ob("R12.4", UC, q, what, ok, node=e.node, fingerprint=f"branch:{is_rad_branch}", found=str(arg))
    # call sites
    nsite = 0
    for rel in (UC, CR):
        mod = repo.module(rel)
        from ..known_funcs_auto import KNOWN
        known = set(KNOWN.get(rel, ())) or set(mod.funcs)
        for qual, fn in mod.funcs.items():
            if qual.endswith("from_lengths_and_angles") or qual not in known:
                continue         # a helper a refactoring introduced is read where it is called (expanded below), not on its own
            fn = mod.expanded(qual, fn)
            if "from_lengths_and_angles" not in ast.unparse(fn):
                continue
            sev = Ev(fn, mod.ctx).run()
            for e in sev.events:
                if e.kind != "call" or not (call_name(e.value.as_atom() or ()) or "").endswith("from_lengths_and_angles"):
                    continue
                nsite += 1
                args = e.extra["args"]
                kw = dict(e.extra["kwargs"])
                angles = args[1] if len(args) > 1 else kw.get("angles")
                unit = kw.get("unit", args[2] if len(args) > 2 else None)
                passthrough = "**" in kw
                tag = tag_of(angles) if angles is not None else None
                declared = None
                if unit is not None and string_value(unit):
                    declared = "rad" if string_value(unit) == "radians" else "deg"
                elif unit is None and not passthrough:
                    declared = "rad"
                # ite(unit test, rad literal, deg literal) inside the angles
                ite_ok = True
                for a in find_atoms(angles, lambda a: a[0] == "ite" and "'radians'" in a[1].key()) if angles is not None else []:
                    ca = a[1].as_atom()
                    rad_when_true = ca[0] == "eq"
                    t_true, t_false = tag_of(a[2]), tag_of(a[3])
                    want_true, want_false = ("rad", "deg") if rad_when_true else ("deg", "rad")
                    ite_ok = ite_ok and t_true in (want_true, None) and t_false in (want_false, None) and (t_true or t_false) is not None
                ok = ite_ok and (tag is None or declared is None or tag == declared)
                chk.ob("R12.4", rel, qual, f"angles handed to from_lengths_and_angles are in the unit the call declares"
                       f" ({'forwarded **kwargs' if passthrough and declared is None else declared})", ok, node=e.node,
                       fingerprint=f"site:{qual}", expected=declared or "unit chosen by the caller's unit= test",
                       found=f"angles {str(angles)[:100]} tagged {tag}", nontrivial=tag is not None or not ite_ok or passthrough)
    chk.need(nsite >= 10, f"expected >= 10 call sites of from_lengths_and_angles, found {nsite}")
    # unit= travels in **kwargs: a constructor that accepts them and delegates to another constructor must forward them
    for fn in uc.methods("UnitCell"):
        if not fn.args.kwarg or not any(isinstance(d, ast.Name) and d.id == "classmethod" for d in fn.decorator_list):
            continue
        kwn = fn.args.kwarg.arg
        sev = uc.ev(f"UnitCell.{fn.name}")
        rets = [r for r in sev.returns if r.value is not None and r.value.as_atom() and r.value.as_atom()[0] == "call"]
        for r in rets:
            a = r.value.as_atom()
            callee = a[1].key()
            if not (callee.startswith("cls.") or callee.startswith("getattr(cls")):
                continue            # cls(vectors) takes no angles: nothing to forward
            kw = dict(a[3]) if len(a) > 3 and a[3] else {}
            fwd = "**" in kw and kw["**"].key() == kwn
            explicit_unit = "unit" in kw
            # ... with the unit still in them: kwargs.pop("unit") / del kwargs["unit"] takes it out before they are handed on
            popped = any(isinstance(n_, ast.Call) and isinstance(n_.func, ast.Attribute) and n_.func.attr == "pop" and isinstance(n_.func.value, ast.Name)
                         and n_.func.value.id == kwn and n_.args and isinstance(n_.args[0], ast.Constant) and n_.args[0].value == "unit"
                         for n_ in ast.walk(fn)) or \
                any(isinstance(n_, ast.Delete) and any(isinstance(t_, ast.Subscript) and isinstance(t_.value, ast.Name) and t_.value.id == kwn
                                                      and isinstance(t_.slice, ast.Constant) and t_.slice.value == "unit" for t_ in n_.targets)
                    for n_ in ast.walk(fn))
            if popped and not explicit_unit:
                fwd = False
            chk.ob("R12.4", UC, f"UnitCell.{fn.name}", f"keyword arguments (unit=...) accepted by the constructor reach the constructor it delegates to",
                   fwd or explicit_unit, node=r.node, fingerprint=f"forward-kwargs:{fn.name}", expected=f"{callee}(..., **{kwn})", found=str(r.value)[:120])
    # hexagonal forces radians
    hv = uc.ev("UnitCell.hexagonal")
    call = [e for e in hv.events if e.kind == "call" and (call_name(e.value.as_atom() or ()) or "").endswith("from_lengths_and_angles")]
    unit = dict(call[0].extra["kwargs"]).get("unit") if call else None
    chk.ob("R12.4", UC, "UnitCell.hexagonal", "hexagonal passes radian literals and forces unit='radians'",
           unit is not None and string_value(unit) == "radians" and tag_of(call[0].extra["args"][1]) == "rad",
           found=f"unit={unit} angles={call[0].extra['args'][1] if call else None}")


def r12_unique(chk, uc):
    """unique_parameters_deg is unique_parameters with the angles in degrees, entry by entry, in every branch of _set_cell_type."""
    ev = uc.ev("UnitCell._set_cell_type", attr_hook=None)
    chk.saw(UC, "UnitCell._set_cell_type")
    by_guard = {}
    for e in ev.events:
        if e.kind == "store" and e.target.key() in ("self.unique_parameters", "self.unique_parameters_deg"):
            g = tuple((c.key(), p) for c, p in e.guards)
            by_guard.setdefault(g, {})[e.target.key()] = e.value
    n = 0
    for g, d in by_guard.items():
        u, dg = d.get("self.unique_parameters"), d.get("self.unique_parameters_deg")
        if u is None or dg is None:
            continue
        n += 1
        ui = seq_items(u)
        di = seq_items(dg) if dg.key() != "self.unique_parameters" else ui
        ok = ui is not None and di is not None and len(ui) == len(di) and all(
            x.key() == y.key() or y.key() == f"degrees({x})" for x, y in zip(ui, di))
        name = [c for c, p in g if p][-1][:40] if any(p for c, p in g) else "else"
        chk.ob("R12.3", UC, "UnitCell._set_cell_type", f"branch {name}: unique_parameters_deg lists the same parameters as unique_parameters, angles in degrees",
               ok, fingerprint=f"unique-deg:{name}", expected=str(u)[:100], found=str(dg)[:100])
    chk.need(n >= 5, f"_set_cell_type: only {n} branches with both parameter tuples found")


def r12_7(chk, uc):
    q = "UnitCell.parameters"
    ev = uc.ev(q)
    chk.saw(UC, q)
    objs = {}                                  # object key -> (name, initial value)
    for e in ev.events:
        if e.kind == "assign" and e.value is not None and e.value.as_atom() and e.value.as_atom()[0] == "obj":
            a = e.value.as_atom()
            objs[e.value.key()] = (a[1], a[3] if len(a) > 3 else None)

    def source(t):
        """'lengths' / 'angles' / None for the array a term is made from."""
        k = t.key() if t is not None else ""
        if k in objs and objs[k][1] is not None:
            k = objs[k][1].key()
        import re
        has_l = bool(re.search(r"self\.(lengths|a|b|c)\b", k))
        has_a = bool(re.search(r"self\.(angles|alpha|beta|gamma)\b", k))
        if has_l and not has_a:
            return "lengths"
        if has_a and not has_l:
            return "angles" + ("-deg" if "degrees(" in k or "180" in k else "")
        return None
    rets = [e for e in ev.events if e.kind == "return" and e.value is not None]
    chk.need(rets, f"{q}: no return value")
    okr, foundr = True, None
    for r in rets:
        a = r.value.as_atom()
        it = None
        if a and a[0] == "call" and call_name(a) in ("numpy.hstack", "numpy.concatenate", "numpy.r_") and a[2]:
            it = seq_items(a[2][0])
        elif a and a[0] == "sub" and a[1].key() == "numpy.r_":
            it = list(a[2])
        if not (it and len(it) == 2 and source(it[0]) == "lengths" and source(it[1]) == "angles-deg"):
            okr, foundr = False, foundr or str(r.value)[:160]
    chk.ob("R12.7", UC, q, "parameters = (the three lengths, the three angles in degrees), in that order", okr, fingerprint="vector",
           expected="hstack((lengths, degrees(angles)))", found=foundr)
    n = 0
    for e in ev.events:
        if e.kind not in ("store", "aug") or e.target is None:
            continue
        ta = e.target.as_atom()
        if not (ta and ta[0] == "sub" and ta[1].key() in objs):
            continue
        own = ta[1].key()
        others = set()
        for t in list(ta[2]) + [e.value]:
            for o in find_atoms(t, lambda x: x[0] == "obj"):
                k = P.atom(o).key()
                if k != own and k in objs and source(P.atom(o)) is not None:
                    others.add(objs[k][0])
            kind = source(t) if t.key() not in objs else None
            if kind is not None and source(ta[1]) is not None and kind.split("-")[0] != source(ta[1]).split("-")[0] and own not in t.key():
                others.add(kind)
        # the comparison is an absolute one (|x - y| < atol): numpy.isclose / allclose add a relative tolerance of 1e-5 unless told otherwise,
        # which snaps lengths of 25 A that differ by 2e-4 and angles that differ by 1e-3 degrees
        rel = []
        for t in list(ta[2]):
            for c_ in find_atoms(t, lambda x: x[0] == "call" and call_name(x) in ("numpy.isclose", "numpy.allclose", "math.isclose")):
                kw_ = dict(c_[3]) if len(c_) > 3 and c_[3] else {}
                rt = kw_.get("rtol", kw_.get("rel_tol"))
                if rt is None and call_name(c_) != "math.isclose" and len(c_[2]) > 2:
                    rt = c_[2][2]
                if call_name(c_) == "math.isclose" and rt is None:
                    rel.append(f"{call_name(c_)} with its default rel_tol=1e-9")
                elif rt is None or rt.const_value() is None or rt.const_value() != 0:
                    rel.append(f"{call_name(c_)} with rtol={'1e-5 (default)' if rt is None else rt}")
        n += 1
        chk.ob("R12.7", UC, q, f"entries of `{objs[own][0]}` are snapped together under an absolute tolerance only", not rel, node=e.node,
               fingerprint=f"snap-abs:{source(ta[1])}:{n}", expected="abs(x - y) < atol, or isclose(x, y, rtol=0, atol=atol)", found=rel[:1])
        chk.ob("R12.7", UC, q, f"the entries of `{objs[own][0]}` are overwritten only with entries of `{objs[own][0]}`, selected by a comparison "
               f"among its own entries", not others, node=e.node, fingerprint=f"snap:{source(ta[1])}:{n}",
               expected=f"{objs[own][0]}[mask of {objs[own][0]}] = {objs[own][0]}[i]", found=f"{str(e.target)[:90]} = {str(e.value)[:40]} (uses {sorted(others)})")


def r12_6(chk, uc):
    from ..effects import Effects
    fx = Effects(chk.repo)
    GEOM = {"lengths", "angles", "direct", "inverse"}
    owners = {"set_lengths_and_angles", "set_vectors", "__init__"}
    n = 0
    for fn in uc.methods("UnitCell"):
        if fn.name in owners or any(isinstance(d, ast.Name) and d.id in ("classmethod", "staticmethod") for d in fn.decorator_list):
            continue
        ws = [w for w in fx.method_writes(UC, "UnitCell", fn.name) if w.attr in GEOM]
        # writes that happen only through calling an owner are the owner's
        ev = uc.ev(f"UnitCell.{fn.name}")
        direct = [e for e in ev.events if e.kind in ("store", "aug") and e.target.as_atom() and
                  ((e.target.as_atom()[0] == "attr" and e.target.as_atom()[1].key() == "self" and e.target.as_atom()[2] in GEOM) or
                   (e.target.as_atom()[0] == "sub" and e.target.as_atom()[1].key() in {f"self.{g}" for g in GEOM}))]
        n += 1
        if direct or fn.name == "_set_cell_type":
            chk.saw(UC, f"UnitCell.{fn.name}")
        chk.ob("R12.6", UC, f"UnitCell.{fn.name}", "does not write lengths, angles, direct or inverse itself", not direct, node=fn,
               fingerprint=f"writes:{fn.name}", found=[f"line {e.lineno}: {e.target} = {str(e.value)[:60]}" for e in direct][:2],
               nontrivial=fn.name == "_set_cell_type" or bool(direct))
    chk.need(n >= 10, f"R12.6: only {n} UnitCell methods inspected")
