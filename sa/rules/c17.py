"""C17 — element lookup is total, exact and consistent (core/element.py)."""
from __future__ import annotations

import ast
import re

from ..core import AnalysisError
from ..poly import P
from ..symex import Ev, find_atoms, call_name, seq_items
from .. import guards as G

MOD = "core/element.py"

# Reference: Z = 1..103, (symbol, accepted English names)
_REF = """H hydrogen|He helium|Li lithium|Be beryllium|B boron|C carbon|N nitrogen|O oxygen|F fluorine|Ne neon|
Na sodium|Mg magnesium|Al aluminium,aluminum|Si silicon|P phosphorus|S sulfur,sulphur|Cl chlorine|Ar argon|
K potassium|Ca calcium|Sc scandium|Ti titanium|V vanadium|Cr chromium|Mn manganese|Fe iron|Co cobalt|Ni nickel|
Cu copper|Zn zinc|Ga gallium|Ge germanium|As arsenic|Se selenium|Br bromine|Kr krypton|Rb rubidium|Sr strontium|
Y yttrium|Zr zirconium|Nb niobium|Mo molybdenum|Tc technetium|Ru ruthenium|Rh rhodium|Pd palladium|Ag silver|
Cd cadmium|In indium|Sn tin|Sb antimony|Te tellurium|I iodine|Xe xenon|Cs caesium,cesium|Ba barium|La lanthanum|
Ce cerium|Pr praseodymium|Nd neodymium|Pm promethium|Sm samarium|Eu europium|Gd gadolinium|Tb terbium|
Dy dysprosium|Ho holmium|Er erbium|Tm thulium|Yb ytterbium|Lu lutetium|Hf hafnium|Ta tantalum|W tungsten|
Re rhenium|Os osmium|Ir iridium|Pt platinum|Au gold|Hg mercury|Tl thallium|Pb lead|Bi bismuth|Po polonium|
At astatine|Rn radon|Fr francium|Ra radium|Ac actinium|Th thorium|Pa protactinium|U uranium|Np neptunium|
Pu plutonium|Am americium|Cm curium|Bk berkelium|Cf californium|Es einsteinium|Fm fermium|Md mendelevium|
No nobelium|Lr lawrencium"""
REFERENCE = []
for _item in _REF.replace("\n", "").split("|"):
    _s, _n = _item.split()
    REFERENCE.append((_s, tuple(_n.split(","))))
assert len(REFERENCE) == 103

_STR_METHODS = {"strip": str.strip, "lstrip": str.lstrip, "rstrip": str.rstrip, "capitalize": str.capitalize,
                "lower": str.lower, "upper": str.upper, "title": str.title, "casefold": str.casefold,
                "swapcase": str.swapcase}


def str_chain(term: P, root_keys):
    """If term is root.m1().m2()... (str methods without arguments) return ([m1, m2, ...]) else None."""
    chain = []
    cur = term
    for _ in range(12):
        if cur.key() in root_keys:
            return list(reversed(chain))
        a = cur.as_atom()
        if not a:
            return None
        if a[0] == "call" and not a[2] and (len(a) < 4 or not a[3]):
            c = a[1].as_atom()
            if c and c[0] == "attr" and c[2] in _STR_METHODS:
                chain.append(c[2])
                cur = c[1]
                continue
        # group(k).strip() etc: treat regex group as a root
        return None
    return None


def apply_chain(chain, s):
    for m in chain:
        s = _STR_METHODS[m](s)
    return s


def literal_table(chk, mod, name):
    node = mod.toplevel_assign(name)
    try:
        val = ast.literal_eval(node)
    except Exception as e:
        raise AnalysisError(f"{name} in {MOD} is no longer a literal table: {e}")
    return val, node


def run(chk):
    repo = chk.repo
    mod = repo.module(MOD)
    chk.explanation = ("core/element.py: the 103-row element table against an embedded reference; key/normaliser "
                       "fixpoints of the two lookup dictionaries over all letter-case spellings; range-guard dominance "
                       "for every minus-one subscript of the shipped tables; dispatch totality; label regex structure; "
                       "the ordering evaluated over all weak orderings of (n1, n2, 6); formula counting.")
    data, data_node = literal_table(chk, mod, "_ELEMENT_DATA")
    colors, _ = literal_table(chk, mod, "_EL_COLORS")
    chk.table("_ELEMENT_DATA", len(data))
    chk.table("_EL_COLORS", len(colors))
    NROWS = len(data)

    # ------------------------------------------------------------------ T17.1
    chk.rule("T17.1", "element table: 103 rows (name, symbol, cov, vdw, mass); row Z-1 is element Z; unique keys; positive data", 103)
    if chk.want("T17.1"):
        chk.ob("T17.1", MOD, "_ELEMENT_DATA", "table has 103 rows", len(data) == 103, node=data_node,
               expected=103, found=len(data))
        syms, names = {}, {}
        for z, row in enumerate(data, start=1):
            okshape = isinstance(row, tuple) and len(row) == 5 and isinstance(row[0], str) and isinstance(row[1], str) \
                and all(isinstance(x, (int, float)) and not isinstance(x, bool) for x in row[2:])
            if not okshape:
                chk.ob("T17.1", MOD, "_ELEMENT_DATA", f"row Z={z} has shape (str, str, num, num, num)", False,
                       fingerprint=f"shape:{z}", found=repr(row))
                continue
            if z <= 103:
                rs, rn = REFERENCE[z - 1]
                chk.ob("T17.1", MOD, "_ELEMENT_DATA", f"row Z={z} is {rs} ({rn[0]})",
                       row[1] == rs and row[0].lower() in rn, fingerprint=f"row:{z}",
                       expected=f"{rn[0]}/{rs}", found=f"{row[0]}/{row[1]}")
            chk.ob("T17.1", MOD, "_ELEMENT_DATA", f"row Z={z}: covalent radius, vdW radius and mass are positive",
                   row[2] > 0 and row[3] > 0 and row[4] > 0, fingerprint=f"positive:{z}", found=repr(row[2:]))
            syms.setdefault(row[1], []).append(z)
            names.setdefault(row[0], []).append(z)
        for s, zs in syms.items():
            if len(zs) > 1:
                chk.ob("T17.1", MOD, "_ELEMENT_DATA", f"symbol {s} unique", False, fingerprint=f"dupsym:{s}", found=zs)
        for s, zs in names.items():
            if len(zs) > 1:
                chk.ob("T17.1", MOD, "_ELEMENT_DATA", f"name {s} unique", False, fingerprint=f"dupname:{s}", found=zs)
        chk.ob("T17.1", MOD, "_EL_COLORS", "colour table covers every element row", len(colors) >= len(data),
               expected=f">= {len(data)}", found=len(colors))

    # column meaning from Element.__init__ and from_atomic_number: Element(n, *row)
    init = mod.func("Element.__init__")
    params = [a.arg for a in init.args.args][1:]
    chk.need(len(params) == 6, "Element.__init__ no longer takes 6 data parameters")
    chk.saw(MOD, "Element.__init__")

    # ------------------------------------------------------------------ R17.2
    chk.rule("R17.2", "lookup dictionaries are built from the table with 1-based numbering and their keys are fixed "
                      "points of the normaliser applied before the lookup (all letter cases)", 6)
    if chk.want("R17.2"):
        r17_2(chk, mod, data, params)

    # ------------------------------------------------------------------ R17.3
    chk.rule("R17.3", "every minus-one subscript of a shipped element table is dominated by a guard 1 <= n <= len(table)", 3)
    if chk.want("R17.3"):
        r17_3(chk, mod, NROWS, len(colors))

    # ------------------------------------------------------------------ R17.4
    chk.rule("R17.4", "dispatch totality: integers and strings are dispatched, anything else raises; every returned "
                      "Element is a table row or comes from a sibling constructor", 6)
    if chk.want("R17.4"):
        r17_4(chk, mod, data, params)

    # ------------------------------------------------------------------ R17.5
    chk.rule("R17.5", "label regex: anchored match, group 1 is a maximal run of letters (case-insensitive)", 3)
    if chk.want("R17.5"):
        r17_5(chk, mod, data)

    # ------------------------------------------------------------------ R17.6
    chk.rule("R17.6", "ordering: carbon first, then atomic number; __eq__/__hash__/__lt__ use the same key", 13)
    if chk.want("R17.6"):
        r17_6(chk, mod)

    # ------------------------------------------------------------------ R17.7
    chk.rule("R17.7", "formula counts every atom once; column helpers read the column they are named after", 8)
    if chk.want("R17.7"):
        r17_7(chk, mod, params, NROWS)

    chk.assume("radii and masses are 'as tabulated': only positivity is checked, not their values")
    chk.assume("str methods are evaluated on the table keys by the checker (finite table), chmpy code is not executed")


# ---------------------------------------------------------------------------------------------
def _dict_comp(mod, name):
    node = mod.toplevel_assign(name)
    if not isinstance(node, ast.DictComp):
        raise AnalysisError(f"{name} is no longer a dict comprehension over the element table")
    return node


def _loop_rows(term, lp):
    return term


def _columns(chk, mod, dname, meaning, kterm, vterm, node, colname, params, data, keys):
    # key and value columns: row = _ELEMENT_DATA[idx - 1]; row fields are ('sub', row, (k,))
    def col_of(t):
        a = t.as_atom()
        if a and a[0] == "sub" and len(a[2]) == 1:
            c = a[2][0].const_value()
            base = a[1].as_atom()
            if c is not None and base and base[0] == "sub" and base[1].key() == "_ELEMENT_DATA":
                return int(c)
            # enumerate(...)[k][1][c] : element 1 of the enumerate pair is the row
            if c is not None and base and base[0] == "sub" and "_ELEMENT_DATA" in base[1].key() and base[2] and base[2][0].const_value() == 1:
                return int(c)
        a2 = t.as_atom()
        if a2 and a2[0] == "lv":
            return "index"
        return None
    kc = col_of(kterm)
    chk.ob("R17.2", MOD, dname, f"{dname} is keyed by the {meaning} column",
           kc is not None and kc != "index" and colname.get(kc) == meaning, node=node,
           expected=meaning, found=colname.get(kc, kc))
    vit = seq_items(vterm)
    if vit:
        # (z, *row): a starred table row stands for its columns in order (the table's width is known)
        flat = []
        for t in vit:
            ta = t.as_atom()
            if ta and ta[0] == "starred":
                flat.extend(P.atom(("sub", ta[1], (P.const(c),))) for c in range(len(data[0])))
            else:
                flat.append(t)
        vit = flat
    vcols = [col_of(t) for t in vit] if vit else None
    exp = ["index"] + list(range(len(params) - 1))
    chk.ob("R17.2", MOD, dname, f"{dname} values are (Z, name, symbol, cov, vdw, mass) in constructor order",
           vcols == exp, node=node, expected=exp, found=vcols)
    keys[dname] = [row[kc] for row in data] if isinstance(kc, int) else []


def r17_2(chk, mod, data, params):
    # (a) construction of the dictionaries
    colname = {i: p for i, p in enumerate(params[1:])}      # row column -> meaning
    want_key = {"_EL_FROM_SYM": "symbol", "_EL_FROM_NAME": "name"}
    keys = {}
    for dname, meaning in want_key.items():
        node0 = mod.toplevel_assign(dname)
        if not isinstance(node0, ast.DictComp):
            # loop form:  D = {} ; for z, (name, ...) in enumerate(_ELEMENT_DATA, start=1): D[key] = (z, ...)
            loops = [st for st in mod.tree.body if isinstance(st, ast.For) and any(isinstance(n, ast.Subscript) and isinstance(n.value, ast.Name)
                     and n.value.id == dname and isinstance(n.ctx, ast.Store) for n in ast.walk(st))]
            fills = []
            for st in loops:
                lev = Ev([st], mod.ctx).run()
                for e in lev.events:
                    if e.kind == "store" and e.target.as_atom() and e.target.as_atom()[0] == "sub" and e.target.as_atom()[1].key() == dname and e.loops:
                        fills.append((st, lev, e))
            table_fills = [(st, lev, e) for st, lev, e in fills if "_ELEMENT_DATA" in (e.loops[-1].iter.key() if e.loops[-1].iter is not None else "")]
            if not (isinstance(node0, ast.Dict) and not node0.keys and len(table_fills) == 1):
                raise AnalysisError(f"{dname} is neither a dict comprehension nor an empty dict filled by one loop over the element table")
            st, lev, e = table_fills[0]
            node = st
            lp = e.loops[-1]
            kterm = e.target.as_atom()[2][0]
            vterm = e.value
            ok_gen = lp.kind == "enumerate"
            start = lp.lo
            src_ok = lp.iter is not None and "_ELEMENT_DATA" in lp.iter.key()
            chk.ob("R17.2", MOD, dname, f"{dname} enumerates _ELEMENT_DATA starting at 1",
                   bool(ok_gen and src_ok and start is not None and start == P.const(1)), node=node,
                   expected="enumerate(_ELEMENT_DATA, start=1)", found=mod.seg(st.iter))
            extra = [x for x in fills if x[2] is not e]
            okx = all(x[2].value.as_atom() and x[2].value.as_atom()[0] == "sub" and x[2].value.as_atom()[1].key() == dname for x in extra)
            chk.ob("R17.2", MOD, dname, "any further key is an alias of an existing entry", okx, fingerprint="aliases", nontrivial=bool(extra),
                   found=[str(x[2].value)[:60] for x in extra][:3])
            kterm, vterm = _loop_rows(kterm, lp), _loop_rows(vterm, lp)
            _columns(chk, mod, dname, meaning, kterm, vterm, node, colname, params, data, keys)
            continue
        node = _dict_comp(mod, dname)
        g0 = node.generators[0] if node.generators else None
        direct = bool(g0 and isinstance(g0.iter, ast.Call) and isinstance(g0.iter.func, ast.Name) and g0.iter.func.id == "enumerate")
        if not direct:
            # the dictionary is built from an intermediate module-level table (records with the atomic number prepended, ...): the
            # finite table is evaluated concretely (sa/miniinterp.py, nothing of the repository is run) and compared entry by entry
            from ..miniinterp import Interp, NotConcrete
            it_ = Interp(mod.tree)
            it_.MAX_STEPS = 400000
            try:
                val = it_.global_value(dname)
            except NotConcrete as ex_:
                raise AnalysisError(f"{dname}: not a dict comprehension over enumerate(_ELEMENT_DATA, start=1) and not evaluable: {ex_}")
            if not isinstance(val, dict):
                raise AnalysisError(f"{dname}: not a dict comprehension over enumerate(_ELEMENT_DATA, start=1) and not evaluable")
            kc_ = [c for c, m_ in colname.items() if m_ == meaning][0]
            want = {tuple(row)[kc_]: (i + 1,) + tuple(row) for i, row in enumerate(data)}
            got = {k: (tuple(v) if isinstance(v, (tuple, list)) else v) for k, v in val.items()}
            bad = [k for k in want if got.get(k) != want[k]] + [k for k in got if k not in want]
            chk.ob("R17.2", MOD, dname, f"{dname} enumerates _ELEMENT_DATA starting at 1", not bad and all(v[0] == i + 1 for i, v in enumerate(want.values())),
                   node=node, expected="enumerate(_ELEMENT_DATA, start=1)", found=f"evaluated: {len(got)} entries, first mismatch {bad[:1]}")
            chk.ob("R17.2", MOD, dname, f"{dname} is keyed by the {meaning} column", set(got) == set(want), node=node, expected=meaning,
                   found=sorted(set(got) ^ set(want))[:3])
            chk.ob("R17.2", MOD, dname, f"{dname} values are (Z, name, symbol, cov, vdw, mass) in constructor order", not bad, node=node,
                   found=f"first mismatch {bad[:1]}")
            keys[dname] = [tuple(row)[kc_] for row in data]
            continue
        ev = Ev([ast.Expr(node)], mod.ctx)
        term = ev.ev(node).as_atom()
        # ('comp','DictComp', key, value, gens)
        kterm, vterm, gens = term[2], term[3], term[4]
        ok_gen = len(gens) == 1 and gens[0][0] == "enumerate"
        g = node.generators[0]
        it = ev.ev(g.iter).as_atom() if ok_gen else None
        start = None
        src_ok = False
        if it and it[0] == "call":
            args = it[2]
            kw = dict(it[3]) if len(it) > 3 else {}
            start = kw.get("start", args[1] if len(args) > 1 else P.const(0))
            src_ok = args and args[0].key() == "_ELEMENT_DATA"
        chk.ob("R17.2", MOD, dname, f"{dname} enumerates _ELEMENT_DATA starting at 1",
               bool(ok_gen and src_ok and start is not None and start == P.const(1)), node=node,
               expected="enumerate(_ELEMENT_DATA, start=1)", found=mod.seg(g.iter))
        _columns(chk, mod, dname, meaning, kterm, vterm, node, colname, params, data, keys)

    # (b) normaliser / key agreement: find every lookup (subscript or membership) in the module's functions
    nlook = 0
    for qual, fn in mod.funcs.items():
        ev = Ev(fn, mod.ctx).run()
        roots = {P.name(p).key() for p in ev.param_names}
        seen = set()
        for e in ev.events:
            for val in (e.value, e.target):
                if val is None:
                    continue
                for a in find_atoms(val, lambda a: a[0] in ("sub", "in", "notin")):
                    if a[0] == "sub":
                        tab, key = a[1], a[2][0] if len(a[2]) == 1 else None
                    else:
                        tab, key = a[2], a[1]
                    if key is None or tab.key() not in keys:
                        continue
                    dname = tab.key()
                    sig = (dname, key.key())
                    if sig in seen:
                        continue
                    seen.add(sig)
                    ka0 = key.as_atom()
                    if ka0 and ka0[0] == "str":
                        # a literal key (the deuterium special case looks up 'H'): it must be a key of the table, nothing is normalised
                        nlook += 1
                        chk.ob("R17.2", MOD, qual, f"the literal key {ka0[1]!r} is a key of {dname}", ka0[1] in keys[dname], node=e.node,
                               fingerprint=f"literal-key:{dname}:{ka0[1]}")
                        continue
                    chain = chain_from_any_root(key)
                    nlook += 1
                    if chain is None:
                        raise AnalysisError(f"{MOD}:{qual}: lookup key of {dname} is not a chain of str methods: {key}")
                    bad = [k for k in keys[dname] if apply_chain(chain, k) != k]
                    chk.ob("R17.2", MOD, qual,
                           f"every key of {dname} is a fixed point of the normaliser {'.'.join(chain) or 'identity'}",
                           not bad, node=e.node, fingerprint=f"fixpoint:{dname}:{'.'.join(chain)}",
                           expected="no key altered by the normaliser", found=f"keys not fixed: {bad[:5]}")
                    # all letter cases reach the key
                    miss = []
                    for k in keys[dname]:
                        for variant in (k.upper(), k.lower(), k.capitalize(), " " + k + " ") if "strip" in chain else (k.upper(), k.lower(), k.capitalize()):
                            if apply_chain(chain, variant) != k:
                                miss.append(variant)
                    chk.ob("R17.2", MOD, qual,
                           f"upper/lower/capitalised spellings of every key of {dname} normalise to the key",
                           not miss, node=e.node, fingerprint=f"cases:{dname}:{'.'.join(chain)}",
                           found=f"spellings lost: {miss[:5]}")
    chk.need(nlook >= 3, f"expected at least 3 dictionary lookups in {MOD}, found {nlook}")


def chain_from_any_root(key: P):
    """Chain of str methods applied to *some* root term (parameter, regex group, ...)."""
    chain = []
    cur = key
    for _ in range(12):
        a = cur.as_atom()
        if a and a[0] == "call" and not a[2] and (len(a) < 4 or not a[3]):
            c = a[1].as_atom()
            if c and c[0] == "attr" and c[2] in _STR_METHODS:
                chain.append(c[2])
                cur = c[1]
                continue
        if a and a[0] == "ite":
            # symbol = "H" if symbol == "D" else symbol  (phi of a constant and the chain)
            for br in (a[2], a[3]):
                if br.as_atom() and br.as_atom()[0] != "str":
                    sub = chain_from_any_root(br)
                    if sub is not None:
                        return sub + list(reversed(chain))
            return None
        return list(reversed(chain))
    return None


# ---------------------------------------------------------------------------------------------
TABLES = ("_ELEMENT_DATA", "_EL_COLORS")


def derived_tables(mod):
    """{name: (source table, column or None)} for module-level tables built row by row from a shipped table:
    NAME = [x[k] for x in _ELEMENT_DATA] / np.array([...], ...) / tuple(...): same number of rows, same order."""
    out = {}
    for st in mod.tree.body:
        if not (isinstance(st, ast.Assign) and len(st.targets) == 1 and isinstance(st.targets[0], ast.Name)):
            continue
        v = st.value
        while isinstance(v, ast.Call) and v.args and isinstance(v.func, (ast.Name, ast.Attribute)) and \
                (v.func.id if isinstance(v.func, ast.Name) else v.func.attr) in ("array", "asarray", "tuple", "list"):
            v = v.args[0]
        if isinstance(v, (ast.ListComp, ast.GeneratorExp)) and len(v.generators) == 1 and not v.generators[0].ifs \
                and isinstance(v.generators[0].iter, ast.Name) and v.generators[0].iter.id in TABLES \
                and isinstance(v.generators[0].target, ast.Name):
            var = v.generators[0].target.id
            colk = None
            if isinstance(v.elt, ast.Subscript) and isinstance(v.elt.value, ast.Name) and v.elt.value.id == var \
                    and isinstance(v.elt.slice, ast.Constant) and isinstance(v.elt.slice.value, int):
                colk = v.elt.slice.value
            out[st.targets[0].id] = (v.generators[0].iter.id, colk)
    return out


def table_params(mod, tables):
    """{function: {parameter: set of tables}} for module functions that are handed a table by name."""
    out = {}
    for qual, fn in mod.funcs.items():
        for node in ast.walk(fn):
            if isinstance(node, ast.Call) and isinstance(node.func, ast.Name) and node.func.id in mod.funcs:
                callee = mod.funcs[node.func.id]
                names = [a.arg for a in callee.args.args]
                for i, arg in enumerate(node.args):
                    if isinstance(arg, ast.Name) and arg.id in tables and i < len(names):
                        out.setdefault(node.func.id, {}).setdefault(names[i], set()).add(arg.id)
                for kw in node.keywords:
                    if isinstance(kw.value, ast.Name) and kw.value.id in tables and kw.arg in names:
                        out.setdefault(node.func.id, {}).setdefault(kw.arg, set()).add(kw.value.id)
    return out


def r17_3(chk, mod, nrows, ncolors):
    lens = {"_ELEMENT_DATA": nrows, "_EL_COLORS": ncolors}
    derived = derived_tables(mod)
    for name, (src, _) in derived.items():
        lens[name] = lens[src]
    tparams = table_params(mod, lens)
    consts = {f"len({t})": n for t, n in lens.items()}
    ninst = 0
    # class invariant for self.atomic_number: every Element(...) construction passes a guarded/table value
    ctor_ok, ctor_sites = element_ctor_invariant(chk, mod, nrows, consts)
    for qual, fn in mod.funcs.items():
        ev = Ev(fn, mod.ctx).run()
        seen = set()
        asparam = {p: sorted(ts)[0] for p, ts in tparams.get(qual, {}).items()}
        for p in asparam:
            consts[f"len({p})"] = lens[asparam[p]]
        for e in ev.events:
            for val in (e.value, e.target):
                if val is None:
                    continue
                for a in find_atoms(val, lambda a: a[0] == "sub" and isinstance(a[1], P) and (a[1].key() in lens or a[1].key() in asparam)
                                    and len(a[2]) == 1):
                    idx = a[2][0]
                    tab = asparam.get(a[1].key(), a[1].key())
                    sig = (tab, idx.key(), tuple((c.key(), p) for c, p in e.guards))
                    if sig in seen:
                        continue
                    seen.add(sig)
                    if idx.as_atom() and idx.as_atom()[0] == "slice":
                        continue
                    c = idx.const_value()
                    if c is not None:
                        chk.ob("R17.3", MOD, qual, f"constant index {c} into {tab} is in range",
                               -lens[tab] <= c < lens[tab], node=e.node, fingerprint=f"const:{tab}:{c}")
                        ninst += 1
                        continue
                    ninst += 1
                    lo, hi = index_bounds(idx, e.guards, consts)
                    inv_used = False
                    if (lo < 0 or hi > lens[tab] - 1):
                        # self.atomic_number - 1: rely on the constructor invariant
                        base = idx + 1
                        ba = base.as_atom()
                        if ba and ba[0] == "attr" and ba[2] == "atomic_number" and ba[1].key() == "self":
                            inv_used = True
                            lo, hi = (0, nrows - 1) if ctor_ok else (lo, hi)
                    ok = lo >= 0 and hi <= lens[tab] - 1
                    chk.ob("R17.3", MOD, qual,
                           f"index {idx} into {tab} is guarded to 0..{lens[tab] - 1}" +
                           (" (via the constructor invariant on atomic_number)" if inv_used else ""),
                           ok, node=e.node, fingerprint=f"guard:{tab}:{idx}",
                           expected=f"a dominating guard implying 0 <= {idx} <= {lens[tab] - 1}",
                           found=f"implied bounds [{_b(lo)}, {_b(hi)}]" +
                                 (f"; unguarded constructor sites: {ctor_sites}" if inv_used and not ctor_ok else ""))
                    if ok and not inv_used:
                        # ... and to nothing narrower: every row of the table can be reached (a guard `n >= 103` instead of `n > 103`
                        # turns the last element away)
                        chk.ob("R17.3", MOD, qual, f"the guard on index {idx} into {tab} admits every row 0..{lens[tab] - 1} (it rejects nothing that is in "
                               "the table)", lo == 0 and hi == lens[tab] - 1, node=e.node, fingerprint=f"guard-total:{tab}:{idx}",
                               expected=f"implied bounds [0, {lens[tab] - 1}]", found=f"implied bounds [{_b(lo)}, {_b(hi)}]")
    chk.need(ninst >= 3, f"expected >= 3 table subscripts in {MOD}, found {ninst}")


def _b(x):
    return "-inf" if x <= -G.INF else "+inf" if x >= G.INF else str(x)


def index_bounds(idx: P, guards, consts):
    """Bounds on idx from guards on idx itself or on t where idx = t + c."""
    best_lo, best_hi = G.bounds(guards, [idx], consts)
    if not idx.is_poly():
        return best_lo, best_hi
    c0 = idx.n.get((), 0)
    t = idx - c0
    ta = t.as_atom()
    cands = [t]
    if ta and ta[0] == "sub":
        cands.append(ta[1])          # elementwise guard on the whole array
    if ta and ta[0] == "call" and call_name(ta) == "int" and len(ta[2]) == 1:
        cands.append(ta[2][0])
        inner = ta[2][0].as_atom()
        if inner and inner[0] == "sub":
            cands.append(inner[1])
    lo, hi = G.bounds(guards, cands, consts)
    if lo > -G.INF:
        best_lo = max(best_lo, lo + c0)
    if hi < G.INF:
        best_hi = min(best_hi, hi + c0)
    return best_lo, best_hi


def element_ctor_invariant(chk, mod, nrows, consts):
    """All Element(z, ...) constructions in the module pass z in 1..nrows."""
    bad = []
    n = 0
    for qual, fn in mod.funcs.items():
        ev = Ev(fn, mod.ctx).run()
        for e in ev.events:
            if e.kind != "call" or e.target is None or e.target.key() not in ("Element", "cls"):
                continue
            args = e.extra["args"]
            if not args:
                continue
            n += 1
            first = args[0]
            a = first.as_atom()
            if a and a[0] == "starred":
                row = a[1].as_atom()
                # Element(*_EL_FROM_X[key]) : value tuples start with the 1-based enumerate index (R17.2)
                if row and row[0] == "sub" and row[1].key() in ("_EL_FROM_SYM", "_EL_FROM_NAME"):
                    continue
                bad.append(f"{qual}: {first}")
                continue
            lo, hi = index_bounds(first, e.guards, consts)
            if not (lo >= 1 and hi <= nrows):
                bad.append(f"{qual}: Element({first}, ...) bounds [{_b(lo)}, {_b(hi)}]")
    chk.need(n >= 3, "expected >= 3 Element(...) construction sites")
    return (not bad), bad


# ---------------------------------------------------------------------------------------------
def r17_4(chk, mod, data, params):
    # __getitem__ on the metaclass
    q = "_ElementMeta.__getitem__"
    ev = mod.ev(q)
    chk.saw(MOD, q)
    val = P.name(ev.param_names[1])
    kinds = {}
    for e in ev.returns:
        a = e.value.as_atom()
        callee = call_name(a) if a else None
        kinds[callee] = e
    def guarded_by_isinstance(e, typ):
        for c, pol in e.guards:
            a = c.as_atom()
            if pol and a and a[0] == "call" and call_name(a) == "isinstance" and a[2][0].key() == val.key() \
                    and a[2][1].key() in typ:
                return True
        return False
    e_int = kinds.get(".from_atomic_number")
    e_str = kinds.get(".from_string")
    chk.ob("R17.4", MOD, q, "integers are dispatched to from_atomic_number under an isinstance(…, Integral) guard",
           e_int is not None and guarded_by_isinstance(e_int, ("numbers.Integral", "int", "(tuple int numpy.integer)", "numpy.integer")),
           node=e_int.node if e_int else None)
    chk.ob("R17.4", MOD, q, "strings are dispatched to from_string under an isinstance(…, str) guard",
           e_str is not None and guarded_by_isinstance(e_str, ("str",)), node=e_str.node if e_str else None)
    raises = [e for e in ev.events if e.kind == "raise"]
    fallthrough = any(all(not pol for _, pol in e.guards) and len(e.guards) >= 2 for e in raises)
    chk.ob("R17.4", MOD, q, "any other argument type raises", fallthrough and len(ev.returns) == 2,
           expected="raise on the path where no isinstance test succeeded", found=f"{len(raises)} raise, {len(ev.returns)} returns")

    # constructors: every return is a table row or a sibling constructor
    for q in ("Element.from_string", "Element.from_label", "Element.from_atomic_number"):
        ev = mod.ev(q)
        chk.saw(MOD, q)
        chk.need(ev.returns, f"{q} has no return")
        for e in ev.returns:
            a = e.value.as_atom()
            cn = call_name(a) if a else None
            ok = False
            what = f"return {e.value}"
            if cn in (".from_atomic_number", ".from_label", ".from_string"):
                ok = True
                # from_atomic_number(int(symbol)) must be guarded by isdigit of the same term
                if cn == ".from_atomic_number" and q == "Element.from_string":
                    arg = a[2][0].as_atom()
                    inner = arg[2][0] if arg and call_name(arg) == "int" else None
                    ok = inner is not None and any(
                        pol and c.as_atom() and call_name(c.as_atom()) == ".isdigit"
                        and c.as_atom()[1].as_atom()[1].key() == inner.key() for c, pol in e.guards)
                    what = "numeric strings go to from_atomic_number(int(s)) under an isdigit() guard on the same string"
            elif cn in ("Element", "cls"):
                args = a[2]
                first = args[0].as_atom() if args else None
                if first and first[0] == "starred":
                    row = first[1].as_atom()
                    if row and row[0] == "sub" and row[1].key() in ("_EL_FROM_SYM", "_EL_FROM_NAME"):
                        key = row[2][0]
                        tab = row[1]
                        # membership guard on the same key
                        ok = any((c.as_atom() or ("",))[0] in ("in", "notin") and
                                 ((c.as_atom()[0] == "in") == pol) and c.as_atom()[1].key() == key.key()
                                 and c.as_atom()[2].key() == tab.key() for c, pol in e.guards)
                        lit_key = key.as_atom() and key.as_atom()[0] == "str"
                        if lit_key:
                            ok = True            # a literal key: its membership is a fact about the table (R17.2 literal-key)
                        what = f"Element(*{tab}[k]) is returned only under a membership guard on the same key k"
                        # ... and k is the text the caller gave, normalised and nothing else: the whole leading letter run of a label,
                        # the stripped and capitalised string (D read as H) for a symbol, its lower case for a name
                        if q == "Element.from_label":
                            canon = {"re.match(_SYMBOL_REGEX, label).groups()[0].strip().capitalize()".replace("label", ev.param_names[0])}
                        else:
                            s0 = ev.param_names[-1]
                            K = f"{s0}.strip().capitalize()"
                            D = f"(ite (eq 'D' {K}) 'H' {K})"
                            canon = {K, D, f"{K}.lower()", f"{D}.lower()", f"{s0}.strip().lower()"}
                        if lit_key:
                            # the only literal row: deuterium is written as hydrogen, under the test that the symbol is 'D'
                            canon = {key.key()} if key.as_atom()[1] == "H" and any(pol and c.key() in (f"(eq 'D' {K})", f"(eq {K} 'D')") for c, pol in e.guards) else set()
                        chk.ob("R17.4", MOD, q, f"the key looked up in {tab} is the caller's text in its normal form (whole letter run / strip + capitalize, "
                               "lower case for names), not a part or a rewriting of it", key.key() in canon, node=e.node,
                               fingerprint=f"key-form:{tab}:{cn}", expected=sorted(canon)[0], found=str(key)[:140])
                elif len(args) == 2 and args[1].as_atom() and args[1].as_atom()[0] == "starred":
                    row = args[1].as_atom()[1].as_atom()
                    ok = bool(row and row[0] == "sub" and row[1].key() == "_ELEMENT_DATA"
                              and (row[2][0] + 1).key() == args[0].key())
                    what = "Element(n, *_ELEMENT_DATA[n - 1]) uses the same n for the number and the row"
                elif not args or len(args) <= 1:
                    # the same constructor call with every column named: Element(atomic_number=n, name=ROW[0], symbol=ROW[1], ...)
                    kw_ = dict(a[3]) if len(a) > 3 and a[3] else {}
                    init_ = mod.funcs.get("Element.__init__")
                    pnames = [x.arg for x in init_.args.args][1:] if init_ is not None else []
                    if args:
                        kw_.setdefault(pnames[0] if pnames else "atomic_number", args[0])
                    if pnames and set(kw_) == set(pnames):
                        num = kw_[pnames[0]]
                        ok = True
                        for c_, pn in enumerate(pnames[1:]):
                            ra = kw_[pn].as_atom()
                            rb = ra[1].as_atom() if ra and ra[0] == "sub" and len(ra[2]) == 1 and ra[2][0] == P.const(c_) else None
                            ok = ok and bool(rb and rb[0] == "sub" and rb[1].key() == "_ELEMENT_DATA" and len(rb[2]) == 1 and (rb[2][0] + 1).key() == num.key())
                        what = "Element(atomic_number=n, name=ROW[0], ...) with ROW = _ELEMENT_DATA[n - 1]: same n, every column under its own parameter"
            chk.ob("R17.4", MOD, q, what, ok, node=e.node, fingerprint=f"return:{cn}:{what}", found=str(e.value))
    # a miss in the last stage raises: from_label raises when the symbol is unknown
    ev = mod.ev("Element.from_label")
    nraise = sum(1 for e in ev.events if e.kind == "raise")
    from ..symex import terminates
    fn = mod.funcs["Element.from_label"]
    # every path leaves through a return (each is a guarded table row, above) or a raise: with no way to fall off the end and
    # no bare return, a label that matches nothing / names no element can only raise
    closed = terminates(fn.body) and all(e.value is not None and e.value.key() != "None" for e in ev.returns)
    chk.ob("R17.4", MOD, "Element.from_label", "an unknown label raises (no match, or symbol not in the table)",
           nraise >= 1 and closed, expected="every path ends in a guarded table return or a raise", found=f"{nraise} raise site(s), closed={closed}")
    # shadowing: no capitalised name is a symbol; no symbol is spelled like a number
    syms = {r[1] for r in data}
    clash = [r[0] for r in data if r[0].capitalize() in syms]
    chk.ob("R17.4", MOD, "_ELEMENT_DATA", "no element name, capitalised, collides with a symbol (stage order cannot shadow)",
           not clash, found=clash)
    # __init__ stores each parameter under its own name
    init = mod.ev("Element.__init__")
    stored = {}
    for e in init.events:
        if e.kind == "store":
            t = e.target.as_atom()
            if t and t[0] == "attr" and t[1].key() == "self":
                stored[t[2]] = e.value.key()
    for p in params:
        chk.ob("R17.4", MOD, "Element.__init__", f"attribute {p} is assigned from parameter {p}", stored.get(p) == p,
               fingerprint=f"init:{p}", expected=p, found=stored.get(p))


# ---------------------------------------------------------------------------------------------
def r17_5(chk, mod, data):
    import re._parser as sre
    import re._constants as C
    node = mod.toplevel_assign("_SYMBOL_REGEX")
    chk.need(isinstance(node, ast.Call) and node.args and isinstance(node.args[0], ast.Constant),
             "_SYMBOL_REGEX is no longer re.compile(<literal>)")
    pat = node.args[0].value
    flags = 0
    for a in node.args[1:]:
        s = mod.seg(a)
        if "IGNORECASE" in s or s.endswith(".I"):
            flags |= re.IGNORECASE
    for k in node.keywords:
        if "IGNORECASE" in mod.seg(k.value):
            flags |= re.IGNORECASE
    tree = sre.parse(pat, flags)
    flags |= tree.state.flags
    items = list(tree)
    # leading optional whitespace is tolerated; first real item must be group 1 = MAX_REPEAT(1.., letters)
    ok_group = False
    letters_only = False
    covers = False
    if items and items[0][0] is C.SUBPATTERN and items[0][1][0] == 1:
        sub = list(items[0][1][3])
        if len(sub) == 1 and sub[0][0] is C.MAX_REPEAT:
            lo, hi, body = sub[0][1]
            body = list(body)
            if lo >= 1 and hi == C.MAXREPEAT and len(body) == 1 and body[0][0] is C.IN:
                ok_group = True
                cls = body[0][1]
                chars = set()
                for kind, v in cls:
                    if kind is C.RANGE:
                        chars.update(chr(c) for c in range(v[0], v[1] + 1))
                    elif kind is C.LITERAL:
                        chars.add(chr(v))
                    else:
                        chars.add("\0")
                letters_only = all(ch.isalpha() and ch.isascii() for ch in chars)
                need = set("".join(r[1] for r in data))
                have = set(chars)
                if flags & re.IGNORECASE:
                    have |= {c.lower() for c in chars} | {c.upper() for c in chars}
                covers = need <= have and {c.lower() for c in need} <= have and {c.upper() for c in need} <= have
    chk.ob("R17.5", MOD, "_SYMBOL_REGEX", "group 1 is a greedy run (1..inf) of a character class at the start of the pattern",
           ok_group, node=node, found=pat)
    chk.ob("R17.5", MOD, "_SYMBOL_REGEX", "the class holds ASCII letters only (digits and '_' end the symbol)",
           letters_only, node=node, found=pat)
    chk.ob("R17.5", MOD, "_SYMBOL_REGEX", "the class covers every symbol letter in both cases", covers, node=node,
           found=f"{pat} flags={flags}")
    ev = mod.ev("Element.from_label")
    anchored = False
    group1 = False
    for e in ev.events:
        if e.kind == "call":
            n = call_name(e.value.as_atom()) if e.value.as_atom() else None
            if n in ("re.match", "re.fullmatch") or (n == ".match" or n == ".fullmatch"):
                anchored = True
            if n == ".group" and e.extra["args"] and e.extra["args"][0] == P.const(1):
                group1 = True
            if e.target is not None and e.target.key().endswith(".group") and e.extra["args"] and e.extra["args"][0] == P.const(1):
                group1 = True           # (the evaluator writes m.group(1) as m.groups()[0])
        if e.value is not None and (".match(" in e.value.key() or "re.match(" in e.value.key() or "fullmatch(" in e.value.key()) \
                and ".groups()[0]" in e.value.key():
            group1 = True
    chk.ob("R17.5", MOD, "Element.from_label", "the label is matched from its start (match/fullmatch) and group 1 is the symbol",
           anchored and group1, found=f"anchored={anchored} group1={group1}")


# ---------------------------------------------------------------------------------------------
class _Abort(Exception):
    pass


def _interp_bool(fn: ast.FunctionDef, env):
    """Tiny interpreter for order functions: If / Return / Compare / BoolOp / Not over integer names."""
    def ex(n):
        if isinstance(n, ast.Constant):
            return n.value
        if isinstance(n, ast.Name):
            if n.id in env:
                return env[n.id]
            raise _Abort(f"free name {n.id}")
        if isinstance(n, ast.Compare):
            left = ex(n.left)
            for op, r in zip(n.ops, n.comparators):
                right = ex(r)
                t = type(op)
                res = {ast.Lt: left < right, ast.LtE: left <= right, ast.Gt: left > right, ast.GtE: left >= right,
                       ast.Eq: left == right, ast.NotEq: left != right}.get(t)
                if res is None:
                    raise _Abort("comparison operator")
                if not res:
                    return False
                left = right
            return True
        if isinstance(n, ast.BoolOp):
            vals = [ex(v) for v in n.values]
            return all(vals) if isinstance(n.op, ast.And) else any(vals)
        if isinstance(n, ast.UnaryOp) and isinstance(n.op, ast.Not):
            return not ex(n.operand)
        if isinstance(n, ast.IfExp):
            return ex(n.body) if ex(n.test) else ex(n.orelse)
        if isinstance(n, ast.Call) and isinstance(n.func, ast.Attribute) and n.func.attr == "_is_valid_operand":
            return True
        if isinstance(n, ast.Attribute) and isinstance(n.value, ast.Name) and n.attr == "atomic_number":
            return env[n.value.id + ".atomic_number"]
        if isinstance(n, ast.Tuple):
            return tuple(ex(e) for e in n.elts)
        raise _Abort(f"unsupported expression {type(n).__name__}")

    def run(stmts):
        for st in stmts:
            if isinstance(st, ast.Expr) and isinstance(st.value, ast.Constant):
                continue
            if isinstance(st, ast.Return):
                return ("ret", ex(st.value))
            if isinstance(st, ast.Raise):
                return ("raise", None)
            if isinstance(st, ast.If):
                r = run(st.body if ex(st.test) else st.orelse)
                if r is not None:
                    return r
                continue
            if isinstance(st, ast.Assign) and len(st.targets) == 1:
                v = ex(st.value)
                t = st.targets[0]
                if isinstance(t, ast.Name):
                    env[t.id] = v
                    continue
                if isinstance(t, ast.Tuple) and isinstance(v, tuple) and len(v) == len(t.elts):
                    for e, x in zip(t.elts, v):
                        env[e.id] = x
                    continue
            raise _Abort(f"unsupported statement {type(st).__name__}")
        return None
    return run(fn.body)


def r17_6(chk, mod):
    fn = mod.expanded("Element.__lt__", mod.func("Element.__lt__"))      # a helper the comparison was moved into is read in place
    chk.saw(MOD, "Element.__lt__")
    consts = sorted({n.value for n in ast.walk(fn) if isinstance(n, ast.Constant) and isinstance(n.value, int)
                     and not isinstance(n.value, bool)} | {6})
    pts = sorted({c + d for c in consts for d in (-1, 0, 1)} | {1, 103})
    a0, a1 = fn.args.args[0].arg, fn.args.args[1].arg
    seen = {}
    for n1 in pts:
        for n2 in pts:
            sig = tuple((x > y) - (x < y) for x, y in ((n1, n2), (n1, 6), (n2, 6))) + \
                  tuple((x > c) - (x < c) for x in (n1, n2) for c in consts)
            if sig in seen:
                continue
            seen[sig] = (n1, n2)
    for sig, (n1, n2) in sorted(seen.items()):
        try:
            r = _interp_bool(fn, {a0 + ".atomic_number": n1, a1 + ".atomic_number": n2, a0: None, a1: None})
        except _Abort as e:
            raise AnalysisError(f"Element.__lt__ is outside the order-abstraction fragment: {e}")
        spec = False if n1 == n2 else True if n1 == 6 else False if n2 == 6 else n1 < n2
        chk.ob("R17.6", MOD, "Element.__lt__", f"ordering of Z={n1} before Z={n2} (carbon first, then Z)",
               r == ("ret", spec), node=fn, fingerprint=f"order:{sig[:3]}", expected=spec, found=r)
    # same key in eq / hash
    eq = mod.ev("Element.__eq__")
    ok = any(e.value.as_atom() and e.value.as_atom()[0] == "eq" and
             all(x.as_atom() and x.as_atom()[0] == "attr" and x.as_atom()[2] == "atomic_number" for x in e.value.as_atom()[1:])
             for e in eq.returns)
    chk.ob("R17.6", MOD, "Element.__eq__", "__eq__ compares the atomic numbers of both operands", ok,
           found=[str(e.value) for e in eq.returns])
    hs = mod.ev("Element.__hash__")
    ok = all("self.atomic_number" in e.value.key() and len([a for a in e.value.all_atoms() if a[0] == "attr"]) == 1
             for e in hs.returns) and bool(hs.returns)
    chk.ob("R17.6", MOD, "Element.__hash__", "__hash__ is a function of the atomic number only", ok,
           found=[str(e.value) for e in hs.returns])


# ---------------------------------------------------------------------------------------------
def r17_7(chk, mod, params, nrows=103):
    q = "chemical_formula"
    ev = mod.ev(q)
    chk.saw(MOD, q)
    counter = None
    for e in ev.events:
        if e.kind == "call" and call_name(e.value.as_atom() or ()) in ("collections.Counter", "Counter"):
            counter = e
    chk.need(counter is not None, "chemical_formula no longer counts with collections.Counter")
    arg = counter.extra["args"][0]
    chain = []
    cur = arg
    while True:
        a = cur.as_atom()
        if a and a[0] == "call" and call_name(a) in ("sorted", "list", "tuple") and len(a[2]) == 1:
            chain.append(call_name(a))
            cur = a[2][0]
            continue
        break
    chk.ob("R17.7", MOD, q, "the counter sees the full element list (only multiset-preserving wrappers)",
           cur.key() == ev.param_names[0], node=counter.node, expected=f"{ev.param_names[0]} through sorted/list/tuple",
           found=str(arg))
    chk.ob("R17.7", MOD, q, "elements are sorted before counting (formula order follows Element ordering)",
           "sorted" in chain, node=counter.node, found=str(arg))
    # every block shows the count only when it exceeds one
    thresholds = []
    for e in ev.events:
        for a in find_atoms(e.value, lambda a: a[0] == "ite") if e.value is not None else []:
            cond = a[1].as_atom()
            if cond and cond[0] in ("lt", "le"):
                thresholds.append((cond, a))
    # the same decision as a statement: `if c > 1: blocks.append(f"{el}{digits}") else: blocks.append(f"{el}")` -- read as the conditional
    # expression it stands for (shown = the count piece of the first block, nothing in the second)
    if not thresholds:
        apps = [e for e in ev.events if e.kind == "call" and e.target is not None and e.target.key().endswith(".append") and e.loops and e.guards
                and e.extra.get("args") and (e.guards[-1][0].as_atom() or ("",))[0] in ("lt", "le")]
        by = {}
        for e in apps:
            by.setdefault(e.guards[-1][0].key(), {})[e.guards[-1][1]] = e
        for ck, pair in by.items():
            if set(pair) != {True, False}:
                continue
            def pieces(e):
                fa = e.extra["args"][0].as_atom()
                return [p_ for p_ in fa[1]] if fa and fa[0] == "fstr" else None
            pt, pf = pieces(pair[True]), pieces(pair[False])
            if pt is None or pf is None or len(pt) != len(pf) + 1 or [str(x) for x in pt[:len(pf)]] != [str(x) for x in pf]:
                continue
            last = pt[-1].as_atom() if hasattr(pt[-1], "as_atom") else pt[-1]
            shown_ = last[1] if last and last[0] == "fmt" else None
            if shown_ is None:
                continue
            cond_ = pair[True].guards[-1][0].as_atom()
            thresholds.append((cond_, ("ite", pair[True].guards[-1][0], shown_, P.atom(("str", "")))))
    okn = 0
    for cond, a in thresholds:
        # 1 < c  with the else-branch the empty string
        ok = cond[0] == "lt" and cond[1] == P.const(1) and a[3].key() == "''"
        okn += ok
        chk.ob("R17.7", MOD, q, "a count is printed exactly when it is greater than one", ok,
               fingerprint=f"threshold:{P.atom(cond)}", found=str(P.atom(a)))
        # what is printed is the count in decimal: the number itself (formatted by the f-string / str) or, as subscripts, one character
        # U+2080 + d per decimal digit d of str(count) - a single character U+2080 + count is right only up to 9
        cnt = cond[2]
        shown = a[2]

        def decimal(t):
            ta = t.as_atom()
            if ta and ta[0] == "ite" and cnt.key() not in ta[1].key():
                return decimal(ta[2]) and decimal(ta[3])          # plain or subscript, chosen by a flag: both must be decimal
            if t.key() in (cnt.key(), f"str({cnt})"):
                return True
            if ta and ta[0] == "call" and call_name(ta) == ".join" and ta[2]:
                ca = ta[2][0].as_atom()
                if ca and ca[0] == "comp" and len(ca) == 4 and len(ca[3]) == 1 and ca[3][0][1].key() == f"str({cnt})" and not ca[3][0][2]:
                    el = ca[2].as_atom()
                    # chr(0x2080 + int(digit))
                    if el and el[0] == "call" and call_name(el) == "chr" and len(el[2]) == 1:
                        da = (el[2][0] - 0x2080).as_atom()
                        return bool(da and da[0] == "call" and call_name(da) == "int" and len(da[2]) == 1 and da[2][0].as_atom()
                                    and da[2][0].as_atom()[0] == "sub" and da[2][0].as_atom()[1].key() == f"str({cnt})")
            return False
        okd = decimal(shown)
        chk.ob("R17.7", MOD, q, "the count is printed in decimal (as it is, or digit by digit in subscript characters)", okd,
               fingerprint=f"decimal:{'sub' if 'chr(' in shown.key() else 'plain'}", found=str(shown)[:160])
    chk.need(len(thresholds) >= 1, "chemical_formula: no count-formatting branch found")
    # every element of the tally gets its block: each list that is joined into the result receives, in a loop over the counter's items,
    # the element followed by its count text
    from .generic import list_appends
    from ..layout import pieces_of
    outs, todo = [], [r.value for r in ev.returns if r.value is not None]
    while todo:
        t = todo.pop()
        ta = t.as_atom()
        if ta and ta[0] == "ite":
            todo.extend((ta[2], ta[3]))
        elif ta and ta[0] == "call" and call_name(ta) == ".join" and ta[2]:
            ja = ta[2][0].as_atom()
            if ja and ja[0] == "ite":
                todo.extend(P.atom(("call", ta[1], (x,))) for x in (ja[2], ja[3]))
            else:
                outs.append(ta[2][0])
    okblocks = bool(outs)
    why = []
    for o in outs:
        oa = o.as_atom()
        if oa and oa[0] == "obj":
            aps = [e for e in list_appends(ev, o) if e.loops and ".items()" in (e.loops[-1].iter.key() if e.loops[-1].iter is not None else "")]
            good = [e for e in aps if pieces_of(e.extra["args"][0]) and len([p_ for p_ in pieces_of(e.extra["args"][0]) if p_.kind == "fmt"]) == 2]
            if not good:
                okblocks = False
                why.append(f"nothing is appended to {o} per element")
        elif oa and oa[0] == "comp":
            okblocks = okblocks and ".items()" in oa[3][0][1].key() or "zip(" in oa[3][0][1].key()
        else:
            okblocks = False
            why.append(f"joined value {str(o)[:60]} not recognised")
    chk.ob("R17.7", MOD, q, "every element of the tally contributes its block (element, then its count text) to the joined result", okblocks,
           fingerprint="blocks", found=why[:2])
    # callers: every formula in the library comes from this one implementation
    for rel, qq in (("core/molecule.py", "Molecule.molecular_formula"), ("crystal/asymmetric_unit.py", "AsymmetricUnit.formula")):
        m2 = chk.repo.module(rel)
        if qq not in m2.funcs:
            continue
        ev2 = m2.ev(qq)
        chk.saw(rel, qq)
        rets = [r for r in ev2.returns if r.value is not None and r.value.as_atom() and r.value.as_atom()[0] != "str"]
        deleg = [r for r in rets if (call_name(r.value.as_atom()) or "").endswith("chemical_formula") and r.value.as_atom()[2]
                 and r.value.as_atom()[2][0].key() in ("self.elements",)]
        if rets and len(deleg) == len(rets):
            chk.ob("R17.7", rel, qq, "the formula is chemical_formula(self.elements): one implementation of 'carbon first, then atomic number, every atom once'",
                   True, fingerprint="formula-delegates")
            # every non-empty object gets its formula: a placeholder text is returned for the empty one only
            narrow = []
            for r in deleg:
                for c, pol in r.guards:
                    k = c.key()
                    if pol and k in ("(lt 0 len(self))", "len(self)", "(lt 0 len(self.elements))", "len(self.elements)") or \
                            (not pol and k in ("(eq 0 len(self))", "(eq len(self) 0)")):
                        continue
                    narrow.append(f"{'' if pol else 'not '}{c}")
            chk.ob("R17.7", rel, qq, "the formula is computed for every non-empty object (a placeholder only for no atoms at all)", not narrow,
                   fingerprint="formula-nonempty", found=narrow[:2])
            continue
        # another implementation: a recognised wrong idiom is reported, anything else cannot be decided here
        swaps = [e for e in ev2.events if e.kind == "store" and e.target.as_atom() and e.target.as_atom()[0] == "sub" and len(e.target.as_atom()[2]) == 1
                 and seq_items(e.target.as_atom()[2][0]) and len(seq_items(e.target.as_atom()[2][0])) == 2 and e.value.as_atom()
                 and e.value.as_atom()[0] == "sub" and e.value.as_atom()[1].key() == e.target.as_atom()[1].key()]
        if swaps:
            chk.ob("R17.7", rel, qq, "the formula is chemical_formula(self.elements): one implementation of 'carbon first, then atomic number, every atom once'",
                   False, node=swaps[0].node, fingerprint="formula-delegates", expected="chemical_formula(self.elements, ...)",
                   found=f"own ordering by exchanging two slots of a sorted array ({swaps[0].target} = {str(swaps[0].value)[:60]}): the element that was first "
                         "lands behind larger atomic numbers")
            continue
        # a tally by atomic number (np.bincount) walked in an explicit order: every atomic number of the table must be visited
        tally = [e for e in ev2.events if e.value is not None and find_atoms(e.value, lambda a: a[0] == "call" and call_name(a) == "numpy.bincount")]
        if tally:
            spans, consts_seen = [], set()
            for e in ev2.events:
                if e.value is None:
                    continue
                for a in find_atoms(e.value, lambda a: a[0] == "call" and call_name(a) == "range" and 1 <= len(a[2]) <= 2):
                    lo = a[2][0] if len(a[2]) == 2 else P.const(0)
                    hi = a[2][-1]
                    vals = []
                    for t in (lo, hi):
                        k = t.key().replace("len(chmpy.core.element._ELEMENT_DATA)", str(nrows)).replace("len(_ELEMENT_DATA)", str(nrows))
                        try:
                            vals.append(int(eval(k.replace(" ", ""), {"__builtins__": {}})))
                        except Exception:
                            vals.append(None)
                    spans.append(tuple(vals))
            if spans and all(v is not None for sp in spans for v in sp):
                top = max(hi for _, hi in spans) - 1
                low = min(lo for lo, _ in spans)
                chk.ob("R17.7", rel, qq, "an own tally of the formula visits every atomic number of the element table (1 .. len(table)), so every atom is counted once",
                       low <= 1 and top >= nrows, node=tally[0].node, fingerprint="formula-delegates",
                       expected=f"atomic numbers 1..{nrows}", found=f"ranges {spans}: atomic numbers {max(low, 1)}..{top}")
                continue
        raise AnalysisError(f"{rel}:{qq}: the formula is no longer delegated to chemical_formula(self.elements) and the replacement is not recognised")
    # column helpers
    col = {p: i for i, p in enumerate(params[1:])}
    for q, meaning in (("cov_radii", "cov"), ("vdw_radii", "vdw"), ("element_names", "name"), ("element_symbols", "symbol")):
        ev = mod.ev(q)
        chk.saw(MOD, q)
        cols = set()
        derived = derived_tables(mod)
        for e in ev.returns:
            for a in find_atoms(e.value, lambda a: a[0] == "sub" and len(a[2]) == 1 and a[1].as_atom()
                                and a[1].as_atom()[0] == "sub" and a[1].as_atom()[1].key() == "_ELEMENT_DATA"):
                c = a[2][0].const_value()
                cols.add(int(c) if c is not None else None)
            # a per-column table built from the shipped table (NAME = [x[k] for x in _ELEMENT_DATA]) stands for column k
            for a in find_atoms(e.value, lambda a: a[0] == "name" and a[1] in derived and derived[a[1]][0] == "_ELEMENT_DATA"):
                cols.add(derived[a[1]][1])
        chk.ob("R17.7", MOD, q, f"{q} reads the {meaning} column of the table", cols == {col[meaning]},
               expected=col[meaning], found=sorted(cols, key=str))
    for q, attr in (("Element.vdw_radius", "vdw"), ("Element.covalent_radius", "cov")):
        ev = mod.ev(q)
        ok = bool(ev.returns) and all(e.value.key() == f"self.{attr}" for e in ev.returns)
        chk.ob("R17.7", MOD, q, f"{q.split('.')[1]} returns the {attr} attribute", ok, found=[str(e.value) for e in ev.returns])
