"""C08 — shape invariants: degree blocks, power spectrum, P-invariant plumbing."""
from __future__ import annotations

import ast
import math
from fractions import Fraction

from ..core import AnalysisError
from ..poly import P
from ..symex import Ev, find_atoms, call_name, seq_items
from .generic import string_value

SD = "shape/shape_descriptors.py"
SHT = "shape/sht.py"
INV = "shape/_invariants.pyx"


def inline_hook(mod, names):
    """call_hook that inlines module-level single-return functions ``names`` of ``mod``."""
    def hook(ev, callee, args, kwargs, node):
        ca = callee.as_atom()
        if not ca or ca[0] != "name" or ca[1].split(".")[-1] not in names or kwargs:
            return None
        fn = mod.funcs.get(ca[1].split(".")[-1])
        if fn is None:
            return None
        body = [s for s in fn.body if not (isinstance(s, ast.Expr) and isinstance(s.value, ast.Constant))]
        if len(body) != 1 or not isinstance(body[0], ast.Return):
            return None
        params = [a.arg for a in fn.args.args]
        if len(params) != len(args):
            return None
        sub = Ev([body[0]], mod.ctx, params=dict(zip(params, args)))
        sub.run()
        return sub.returns[0].value
    return hook


def slices_of(term, root_key):
    out = []
    for a in find_atoms(term, lambda a: a[0] == "sub" and a[1].key() == root_key and len(a[2]) == 1):
        s = a[2][0].as_atom()
        if s and s[0] == "slice":
            out.append((s[1], s[2], s[3]))
    return out


def run(chk):
    repo = chk.repo
    sd = repo.module(SD)
    sht = repo.module(SHT)
    inv = repo.module(INV)
    chk.explanation = ("index expressions into coefficient vectors in make_N_invariants, SHT.power_spectrum, "
                       "make_invariants and _invariants.pyx are normalised to polynomials (running counters get closed "
                       "forms by symbolic summation) and compared with the block layout [l^2, (l+1)^2) / l(l+1)+m; "
                       "the factorial table is compared with exact factorials and its length with the largest reachable index.")
    chk.rule("R08.1", "N invariants: the slice for degree i is exactly [i^2, (i+1)^2) and consecutive blocks tile the vector", 5)
    chk.rule("R08.2", "power spectrum: complex blocks [l^2, (l+1)^2) with divisor 2l+1; real branch pattern/weights follow the packed order", 6)
    chk.rule("R08.4", "the invariant vector has a fixed layout: the N block first, then the P block, each at most once, whatever the spelling of kinds", 2)
    chk.rule("R08.3", "P invariants: coefficient index l(l+1)+m, loop order l2<=l1<=l with triangle test, parity split, block cap, factorial table", 80)
    if chk.want("R08.1"):
        r08_1(chk, sd)
    if chk.want("R08.2"):
        r08_2(chk, sht)
    if chk.want("R08.3"):
        r08_3(chk, sd, inv)
    if chk.want("R08.4"):
        r08_4(chk, sd)
        r08_expand(chk, repo, sd)
    chk.rule("R08.5", "the coefficients the invariants are computed from are exact for band-limited functions: quadrature plumbing of the transform "
                      "(one FFT norm, fft/ifft pairing, weights, phi grid, ntheta >= L + 1) (= C07 R07.7)", 4)
    if chk.want("R08.5"):
        from ..inherit import inherit
        inherit(chk, "R08.5", "c07", ["R07.7"])
    chk.rule("R08.6", "the coefficients handed to the invariants are the transform's own: SHT.analysis returns what its kernel accumulated for the layout "
                      "of its input, freshly allocated (= C07 R07.8); a complex function is not two real channels (the conjugate-symmetric expansion of "
                      "re + i im is wrong for m != 0 content in the imaginary part)", 4)
    if chk.want("R08.6"):
        from ..inherit import inherit
        inherit(chk, "R08.6", "c07", ["R07.8"])
    chk.assume("rotation invariance as a numerical fact is not decided; the Clebsch-Gordan routine is compared with the Racah formula it cites "
               "(R08.3 racah:*), the formula itself is taken from the reference")
    chk.assume("the installed _invariants .so may lag the .pyx source (Cython is not available to rebuild)")


def _power_like(base: P, coef: P) -> bool:
    """base is the elementwise |c|^2 of the coefficient vector."""
    conj = [P.atom(("call", P.name(n), (coef,))) for n in ("numpy.conj", "numpy.conjugate")]
    prods = [coef * c for c in conj]
    a = base.as_atom()
    if a and a[0] == "attr" and a[2] == "real":
        return any(a[1] == p for p in prods)
    if a and a[0] == "call" and call_name(a) == "numpy.real" and a[2]:
        return any(a[2][0] == p for p in prods)
    re_, im_ = P.atom(("attr", coef, "real")), P.atom(("attr", coef, "imag"))
    if base == re_ * re_ + im_ * im_:
        return True
    ab = base.as_atom()
    if ab and ab[0] == "call" and call_name(ab) in (".astype",) and ab[1].as_atom():
        return _power_like(ab[1].as_atom()[1], coef)
    return base == P.atom(("call", P.name("abs"), (coef,))) ** 2


def _accesses(term: P, coef: P):
    """[(base, lo, hi)] for every subscript of the coefficient vector or of an array derived from it inside term."""
    out = []
    for a in find_atoms(term, lambda a: a[0] == "sub" and len(a[2]) == 1):
        base = a[1]
        if base.key() != coef.key() and not _power_like(base, coef):
            continue
        s = a[2][0].as_atom()
        if s and s[0] == "slice":
            if s[3].key() != "None":
                raise AnalysisError(f"make_N_invariants: strided slice {P.atom(a)}")
            out.append((base, s[1], s[2]))
        else:
            out.append((base, a[2][0], a[2][0] + 1))
    return out


def _abs2_form(A: P, coef: P, acc) -> bool:
    """A (a top-level atom of the per-degree value) is sum |c|^2 over the accessed interval(s)."""
    a = A.as_atom()
    if a and a[0] == "attr" and a[2] == "real":
        return _abs2_form_inner(a[1], coef, acc)
    if a and a[0] == "call" and call_name(a) == "numpy.real" and a[2]:
        return _abs2_form_inner(a[2][0], coef, acc)
    return _abs2_form_inner(A, coef, acc, need_real=True)


def _abs2_form_inner(X: P, coef, acc, need_real=False) -> bool:
    a = X.as_atom()
    bases = {b.key() for b, _, _ in acc}
    derived = bases != {coef.key()}
    if a and a[0] == "sub" and derived:
        return True                                  # one entry of the |c|^2 array
    if a and a[0] == "call" and call_name(a) in ("numpy.sum", "sum") and len(a[2]) == 1:
        arg = a[2][0]
        aa = arg.as_atom()
        if derived:
            return bool(aa and aa[0] == "sub")        # sum over a slice of the |c|^2 array
        base, lo, hi = acc[0]
        s0 = P.atom(("sub", coef, (P.atom(("slice", lo, hi, P.atom(("const", None)))),)))
        conj = [P.atom(("call", P.name(n), (s0,))) for n in ("numpy.conj", "numpy.conjugate")]
        if any(arg == s0 * c for c in conj):
            return not need_real
        return arg == P.atom(("call", P.name("abs"), (s0,))) ** 2
    if a and a[0] == "call" and call_name(a) == "numpy.vdot" and len(a[2]) == 2 and a[2][0].key() == a[2][1].key():
        return not need_real
    return False


def r08_1(chk, sd):
    q = "make_N_invariants"
    ev = sd.ev(q)
    chk.saw(SD, q)
    coef = P.name(ev.param_names[0])
    stores = [e for e in ev.events if e.kind in ("store", "aug") and e.loops]
    if not stores:
        # vectorised forms: a value of degree l that is read off a running total over the whole vector depends (through rounding) on the
        # coefficients of all lower degrees -- the property asks for dependence on degree l only
        rv = ev.returns[-1].value
        cums = find_atoms(rv, lambda a: a[0] == "call" and call_name(a) in ("numpy.cumsum", ".cumsum", "numpy.add.accumulate"))
        if cums:
            chk.ob("R08.1", SD, q, "the invariant of degree l is computed from the coefficients of degree l only", False, node=ev.returns[-1].node,
                   fingerprint="degree-local", expected="a sum over the block [l^2, (l+1)^2) for each l",
                   found=f"differences of a running total over the whole vector: {str(P.atom(cums[0]))[:120]}")
    if not stores:
        # comprehension form: [f(l) for l in range(size)] (possibly over a generator of blocks): one per-degree value per position
        rv = ev.returns[-1].value
        for ca in find_atoms(rv, lambda a: a[0] == "comp" and a[1] == "ListComp" and len(a) == 4 and len(a[3]) == 1 and not a[3][0][2]):
            kind, src, _ = ca[3][0]
            dom = None
            if kind == "range":
                dom = src
            elif kind == "iter" and src.as_atom() and src.as_atom()[0] == "comp" and len(src.as_atom()[3]) == 1 and src.as_atom()[3][0][0] == "range" \
                    and not src.as_atom()[3][0][2]:
                dom = src.as_atom()[3][0][1]
            da = dom.as_atom() if dom is not None else None
            if not (da and da[0] == "call" and len(da[2]) in (1, 2)):
                continue
            lvs = [x for x in find_atoms(ca[2], lambda x: x[0] == "lv" and isinstance(x[2], int) and x[2] >= 1000)]
            if not lvs or not _accesses(ca[2], coef):
                continue

            class _L:
                pass
            lp = _L()
            lp.kind, lp.index, lp.lo, lp.hi = "range", P.atom(lvs[0]), (da[2][0] if len(da[2]) == 2 else P.const(0)), da[2][-1]
            st_ = _L()
            st_.kind, st_.loops, st_.value, st_.node = "store", (lp,), ca[2], ev.returns[-1].node
            st_.target = P.atom(("sub", P.name("<result>"), (lp.index,)))      # element l of the list is the value for degree l
            stores.append(st_)
            break
    chk.need(stores, f"{q}: per-degree store not found")
    n = 0
    for e in stores:
        loop = e.loops[-1]
        chk.need(loop.kind == "range", f"{q}: degree loop is not a range loop")
        chk.need(e.kind == "store", f"{q}: per-degree value is accumulated rather than stored")
        i = loop.index
        t = e.target.as_atom()
        chk.ob("R08.1", SD, q, "the invariant of degree i is stored at position i", bool(t and t[0] == "sub" and t[2][0] == i),
               node=e.node, found=str(e.target))
        chk.ob("R08.1", SD, q, "degrees run over 0 .. size-1 with size = int(sqrt(len(coefficients)))",
               loop.lo == P.const(0) and loop.hi.key() == f"int(sqrt(len({coef})))", node=e.node,
               found=f"range({loop.lo}, {loop.hi})")
        # decompose the per-degree value into weighted block sums
        v = e.value
        parts = []
        for A in v.atoms():
            PA = P.atom(A)
            acc = _accesses(PA, coef)
            if not acc:
                raise AnalysisError(f"{q}: term {PA} of the per-degree value does not read the coefficient vector")
            w = (v.subs({A: PA + 1}) - v).const_value()
            if w is None:
                raise AnalysisError(f"{q}: per-degree value is not linear in {PA}")
            iv = {(lo.key(), hi.key()): (lo, hi) for _, lo, hi in acc}
            parts.append((PA, w, list(iv.values()), acc))
        chk.need(parts, f"{q}: no slice of the coefficient vector in the per-degree sum")
        rest = v
        for PA, w, _, _ in parts:
            rest = rest - PA * P.const(w)
        chk.need(rest == P.const(0), f"{q}: per-degree value has a part that is not a block sum: {rest}")
        forms = all(len(iv) == 1 and _abs2_form(PA, coef, acc) for PA, w, iv, acc in parts)
        chk.ob("R08.1", SD, q, "the per-degree value is the sum of |c|^2 over the block (one block used for both factors)",
               forms, node=e.node, found=str(v)[:200])
        weights = [w for _, w, _, _ in parts]
        chk.ob("R08.1", SD, q, "every coefficient of the degree enters with weight one (m and -m are separate coefficients)",
               all(w == 1 for w in weights), node=e.node, fingerprint="weights", expected="1", found=str([str(w) for w in weights]))
        # the intervals tile [i^2, (i+1)^2)
        ivs = [x for _, _, iv, _ in parts for x in iv]
        exp_lo, exp_hi = i * i, (i + 1) * (i + 1)
        cur = exp_lo
        left = list(ivs)
        first_lo = None
        while left:
            nxt = [x for x in left if x[0] == cur]
            if not nxt:
                break
            if first_lo is None:
                first_lo = nxt[0][0]
            left.remove(nxt[0])
            cur = nxt[0][1]
        n += 1
        chk.ob("R08.1", SD, q, "block of degree i starts at i^2 (= idx(i, -i))", first_lo is not None, node=e.node,
               fingerprint=f"start#{n}", expected=str(exp_lo), found=str([str(lo) for lo, _ in ivs]))
        nxt_start = exp_lo.subs({i.as_atom(): i + 1})
        chk.ob("R08.1", SD, q, "block of degree i ends at (i+1)^2 (exclusive), where degree i+1 starts",
               not left and cur == exp_hi and cur == nxt_start, node=e.node, fingerprint=f"end#{n}", expected=str(exp_hi),
               found=f"covered up to {cur}; unused pieces {[(str(a), str(b)) for a, b in left]}")
    ret = ev.returns[-1].value.as_atom()
    chk.ob("R08.1", SD, q, "the result is the square root of the per-degree sums",
           bool(ret and ret[0] == "call" and call_name(ret) == "sqrt"), found=str(ev.returns[-1].value)[:200])


def r08_2(chk, sht):
    q = "SHT.power_spectrum"
    ev = sht.ev(q)
    chk.saw(SHT, q)
    coef = P.name(ev.param_names[1])
    # complex branch: stores inside a range loop
    stores = [e for e in ev.events if e.kind == "store" and e.loops]
    if not stores:
        # a full-layout branch that first selects part of the coefficients: every one of the (L+1)^2 coefficients of a complex
        # function is independent (|c(l,-m)| = |c(l,m)| holds for real-valued functions only)
        for e in ev.events:
            if e.kind == "assign" and e.name == ev.param_names[1] and e.value is not None:
                va = e.value.as_atom()
                if va and va[0] == "sub" and va[1].key() == coef.key() and len(va[2]) == 1 and va[2][0].as_atom() \
                        and va[2][0].as_atom()[0] not in ("slice", "lv", "const"):
                    chk.ob("R08.2", SHT, q, "complex branch: every coefficient of the full layout enters the spectrum (the m < 0 entries are not "
                           "inferred from the m > 0 ones)", False, node=e.node, fingerprint="cplx-all-coefficients",
                           expected="sum over the whole block [l^2, (l+1)^2)", found=f"{ev.param_names[1]} = {str(e.value)[:140]}")
    chk.need(stores, f"{q}: complex-branch store not found")
    for e in stores:
        l = e.loops[-1].index
        sl = []
        for a in find_atoms(e.value, lambda a: a[0] == "slice"):
            sl.append((a[1], a[2]))
        chk.need(sl, f"{q}: no slice in the complex-branch sum")
        for lo, hi in sl:
            chk.ob("R08.2", SHT, q, "complex branch: the running index from 0 with step 2l+1 is l^2, block [l^2, (l+1)^2)",
                   lo == l * l and hi == (l + 1) * (l + 1), node=e.node, fingerprint="cplx-block",
                   expected=f"[{l * l}, {(l + 1) * (l + 1)})", found=f"[{lo}, {hi})")
        # value = sum(|c|^2 block) / (2l+1)
        s = P.atom(("call", P.name("numpy.sum"), (P.atom(("sub", P.atom(("call", P.name("abs"), (coef,))) ** 2,
                                                          (P.atom(("slice", sl[0][0], sl[0][1], P.atom(("const", None)))),))),)))
        chk.ob("R08.2", SHT, q, "complex branch: spectrum[l] = sum |c|^2 over the block / (2l+1)",
               e.value == s / (2 * l + 1) and e.target.as_atom()[2][0] == l, node=e.node, fingerprint="cplx-value",
               expected=str(s / (2 * l + 1)), found=str(e.value))
        loop = e.loops[-1]
        chk.ob("R08.2", SHT, q, "complex branch: l runs over 0 .. int(sqrt(n)) - 1",
               loop.lo == P.const(0) and "sqrt(len(" in loop.hi.key(), node=e.node, found=f"range({loop.lo},{loop.hi})")
        # (L + 1)^2 = n: the number of degrees is int(sqrt(n)) exactly, every degree gets its entry and the array has no other entries
        cnt = [P.atom(("call", P.name("int"), (P.atom(("call", P.name("sqrt"), (P.atom(("call", P.name("len"), (coef,))),))),))),
               P.atom(("call", P.name("int"), (P.atom(("call", P.name("sqrt"), (P.atom(("attr", coef, "size")),))),)))]
        tgt = e.target.as_atom()[1].as_atom()
        size = None
        if tgt and tgt[0] == "obj":
            ia = tgt[3].as_atom()
            if ia and call_name(ia) in ("numpy.empty", "numpy.zeros") and ia[2]:
                size = ia[2][0]
        chk.ob("R08.2", SHT, q, "complex branch: the number of degrees is int(sqrt(n)) (from (L + 1)^2 = n), and the spectrum has exactly one entry per "
               "degree, each of them assigned", any(loop.hi == c for c in cnt) and size is not None and size == loop.hi, node=e.node,
               fingerprint="cplx-degrees", expected="range(int(sqrt(n))) over an array of int(sqrt(n)) entries", found=f"range({loop.hi}) over {size} entries")
    # real branch
    pat = [e for e in ev.events if e.kind == "assign" and e.name == "pattern"]
    if not pat:
        return r08_2_real_loops(chk, ev, coef, q)
    pterm = pat[0].value
    pa = pterm.as_atom()
    # which layout?  A length that is both a square and a triangular number (36, 1225, ...) is ambiguous, so the decision
    # must involve this transform's own size, not the length alone.
    g = pat[0].guards
    chk.need(g, f"{q}: the real branch is not under a layout test")
    gk = g[0][0].key()
    ga = g[0][0].as_atom()
    lens = {f"{coef}.size", f"len({coef})", f"{coef}.shape[0]"}
    own = bool(ga and ga[0] in ("eq", "ne") and ((ga[1].key() in lens and ga[2].key() in ("self.nplm()", "self.nlm()")) or
                                                 (ga[2].key() in lens and ga[1].key() in ("self.nplm()", "self.nlm()"))))
    if own:
        real_when = (ga[0] == "eq") == ("self.nplm()" in gk)
        own = real_when == g[0][1]
    elif "self." in gk or "iscomplexobj" in gk:
        raise AnalysisError(f"{q}: unrecognised layout test {g[0][0]}")
    chk.ob("R08.2", SHT, q, "the half (real) layout is chosen exactly when the length equals this transform's nplm()", own,
           node=pat[0].node, fingerprint="layout-test", expected=f"{coef}.size == self.nplm()", found=("" if g[0][1] else "not ") + str(g[0][0])[:160])
    okp = False
    Lp1 = None
    if pa and pa[0] == "call" and call_name(pa) == "numpy.concatenate":
        comp = pa[2][0].as_atom()
        if comp and comp[0] == "comp" and len(comp[3]) == 1 and comp[3][0][0] == "range":
            elt = comp[2].as_atom()
            rng = comp[3][0][1].as_atom()
            if elt and call_name(elt) == "numpy.arange" and len(elt[2]) == 2 and rng and len(rng[2]) == 1:
                m = elt[2][0].as_atom()
                Lp1 = elt[2][1]
                okp = bool(m and m[0] == "lv" and rng[2][0].key() == Lp1.key())
    chk.ob("R08.2", SHT, q, "real branch: pattern lists the degree of every packed position in m-major order "
                             "(concatenate(arange(m, L+1) for m in range(L+1)))", okp, node=pat[0].node, found=str(pterm)[:200])
    # (L + 1)(L + 2) / 2 = n  =>  L = (-3 + sqrt(8 n + 1)) / 2: the number of degrees the pattern, the accumulator and the m = 0 block share
    if Lp1 is not None:
        want = []
        for n_ in (P.atom(("call", P.name("len"), (coef,))), P.atom(("attr", coef, "size"))):
            root = P.atom(("call", P.name("sqrt"), (8 * n_ + 1,)))
            want.append(P.atom(("call", P.name("int"), (P.atom(("bin", "FloorDiv", root - 3, P.const(2))),))) + 1)
            want.append(P.atom(("call", P.name("int"), ((root - 3) / 2,))) + 1)
        spec_sz = None
        for e0 in ev.events:
            if e0.kind == "assign" and e0.name == "spectrum" and e0.guards and e0.value.as_atom() and e0.value.as_atom()[0] == "obj" and e0.guards[0][0].key() == gk:
                ia = e0.value.as_atom()[3].as_atom()
                if ia and call_name(ia) in ("numpy.zeros",) and ia[2] and spec_sz is None:
                    spec_sz = ia[2][0]
        chk.ob("R08.2", SHT, q, "real branch: the number of degrees is int((-3 + sqrt(8 n + 1)) // 2) + 1 (from (L + 1)(L + 2)/2 = n) and the accumulator "
               "(zero-initialised) has exactly that many entries", any(Lp1 == w for w in want) and spec_sz is not None and spec_sz == Lp1, node=pat[0].node,
               fingerprint="real-degrees", expected=str(want[0]), found=f"L + 1 = {Lp1}; accumulator of {spec_sz} entries")
    adds = [e for e in ev.events if e.kind == "call" and call_name(e.value.as_atom() or ()) == "numpy.add.at"]
    weights = []
    if len(adds) == 1:
        # the m = 0 block written without a scatter: in the packed layout the first L + 1 coefficients are (l, 0) for l = 0 .. L in order,
        # so spectrum[:L + 1] = |c[:L + 1]|^2 is the same accumulation -- with exactly that bound on both sides
        for e in ev.events:
            ta = e.target.as_atom() if e.kind == "store" and e.target is not None else None
            if ta and ta[0] == "sub" and ta[1].as_atom() and ta[1].as_atom()[0] == "obj" and ta[1].as_atom()[1] == "spectrum" and len(ta[2]) == 1 \
                    and ta[2][0].as_atom() and ta[2][0].as_atom()[0] == "slice":
                sl = ta[2][0].as_atom()
                cs = P.atom(("sub", coef, (ta[2][0],)))
                same = e.value == P.atom(("call", P.name("abs"), (cs,))) ** 2
                okm0 = bool(same and Lp1 is not None and sl[1].key() == "None" and sl[2].key() == Lp1.key())
                weights.append(("m=0", Fraction(1)) if okm0 else (None, None))
                chk.ob("R08.2", SHT, q, "real branch: degrees and |c|^2 are taken from the same slice of the packed vector", okm0, node=e.node,
                       fingerprint="real-slice:m=0", expected=f"spectrum[:{Lp1}] = |c[:{Lp1}]|^2 (all L + 1 zonal coefficients)",
                       found=f"{str(e.target)[:60]} = {str(e.value)[:60]}")
    chk.need(len(adds) + len(weights) == 2, f"{q}: expected two accumulations (m = 0 and m > 0) in the real branch")
    for e in adds:
        args = e.extra["args"]
        idx = args[1].as_atom()
        okslice = False
        wgt = None
        sl_i = None
        if idx and idx[0] == "sub" and idx[1].key() == pterm.key():
            sl_i = idx[2][0]
            cs = P.atom(("sub", coef, (sl_i,)))
            sq = P.atom(("call", P.name("abs"), (cs,))) ** 2
            try:
                ratio = args[2] / sq
                wgt = ratio.const_value()
            except Exception:
                wgt = None
            okslice = wgt is not None
        s = sl_i.as_atom() if sl_i is not None else None
        part = None
        if s and s[0] == "slice" and Lp1 is not None:
            if s[1].key() == "None" and s[2].key() == Lp1.key():
                part = "m=0"
            elif s[2].key() == "None" and s[1].key() == Lp1.key():
                part = "m>0"
        weights.append((part, wgt))
        chk.ob("R08.2", SHT, q, "real branch: degrees and |c|^2 are taken from the same slice of the packed vector",
               okslice and part is not None, node=e.node, fingerprint=f"real-slice:{part}", found=str(args[1])[:120])
    chk.ob("R08.2", SHT, q, "real branch: the m=0 coefficients weigh 1, the m>0 coefficients weigh 2",
           sorted(weights, key=str) == sorted([("m=0", Fraction(1)), ("m>0", Fraction(2))], key=str),
           expected="[('m=0', 1), ('m>0', 2)]", found=str(weights))
    ret = [e for e in ev.returns if e.guards and e.guards[-1][1]]
    okd = False
    if ret and Lp1 is not None:
        v = ret[0].value
        num = [a for a in v.atoms() if a[0] == "obj"]
        if len(num) == 1:
            d = P.atom(num[0]) / v
            deg = P.atom(("sub", pterm, (P.atom(("slice", P.atom(("const", None)), Lp1, P.atom(("const", None)))),)))
            okd = d == 2 * deg + 1
    chk.ob("R08.2", SHT, q, "real branch: the sum for degree l is divided by 2l+1", okd,
           found=str(ret[0].value)[:200] if ret else None)


def r08_2_real_loops(chk, ev, coef, q):
    """The real branch written with explicit loops instead of the degree pattern and np.add.at:

        spectrum += |c[:L+1]|^2                                   (m = 0: position l is degree l)
        for m in 1..L:  spectrum[m:] += 2 |c[L+1:]|^2 [off : off + (L+1-m)]     off = sum_{k<m} (L+1-k)  (the m-th packed block)
        for l in 0..L:  spectrum[l] /= 2l+1

    Position L+1 + off + (l - m) of the packed vector must be the packed index l + m(2L+1-m)/2 of (l, m)."""
    real_events = [e for e in ev.events if e.guards and e.guards[0][1] and "nplm()" in e.guards[0][0].key() or
                   (e.guards and "nplm()" in e.guards[0][0].key())]
    chk.need(real_events, f"{q}: real-branch 'pattern' not found and no loop form under a layout test either")
    g = real_events[0].guards
    gk, ga = g[0][0].key(), g[0][0].as_atom()
    lens = {f"{coef}.size", f"len({coef})", f"{coef}.shape[0]"}
    own = bool(ga and ga[0] in ("eq", "ne") and ((ga[1].key() in lens and ga[2].key() in ("self.nplm()", "self.nlm()")) or
                                                 (ga[2].key() in lens and ga[1].key() in ("self.nplm()", "self.nlm()"))))
    real_pol = None
    if own:
        real_pol = (ga[0] == "eq") == ("self.nplm()" in gk)
    chk.ob("R08.2", SHT, q, "the half (real) layout is chosen exactly when the length equals this transform's nplm()", own,
           node=real_events[0].node, fingerprint="layout-test", expected=f"{coef}.size == self.nplm()", found=str(g[0][0])[:160])
    real = [e for e in ev.events if e.guards and e.guards[0][0].key() == gk and e.guards[0][1] == (real_pol if real_pol is not None else True)]
    sq = lambda sl: P.atom(("call", P.name("abs"), (P.atom(("sub", coef, (sl,))),))) ** 2
    none = P.atom(("const", None))
    # the spectrum array and L
    spec = [e.value for e in real if e.kind == "assign" and e.value is not None and e.value.as_atom() and e.value.as_atom()[0] == "obj"
            and call_name(e.value.as_atom()[3].as_atom() or ()) in ("numpy.zeros",)]
    chk.need(len(spec) >= 1, f"{q}: spectrum array of the real branch not found")
    S0 = spec[0]
    Lp1 = S0.as_atom()[3].as_atom()[2][0]
    weights, okm0, okblock, okdiv = [], False, False, False
    # m = 0
    for e in real:
        if e.kind == "assign" and e.extra.get("aug") == "Add" and e.extra.get("old") is not None and e.extra["old"].key() == S0.key():
            d = e.extra["delta"]
            base = sq(P.atom(("slice", none, Lp1, none)))
            try:
                w = (d / base).const_value()
            except Exception:      # noqa: BLE001
                w = None
            if w is not None:
                weights.append(("m=0", w))
                okm0 = True
    chk.ob("R08.2", SHT, q, "real branch: degrees and |c|^2 are taken from the same slice of the packed vector", okm0,
           fingerprint="real-slice:m=0", found="spectrum += w |c[:L+1]|^2 not found" if not okm0 else None)
    # m > 0 blocks
    for e in real:
        if e.kind == "aug" and e.op in ("Add", "+") and len(e.loops) == 1 and e.loops[0].kind == "range":
            lp = e.loops[0]
            t = e.target.as_atom()
            if not (t and t[0] == "sub" and S0.key() in t[1].key() and len(t[2]) == 1):
                continue
            ts = t[2][0].as_atom()
            va = e.value.as_atom()
            if not (ts and ts[0] == "slice" and va and va[0] == "sub" and len(va[2]) == 1):
                continue
            vs = va[2][0].as_atom()
            if not (vs and vs[0] == "slice"):
                continue
            m = lp.index
            L = Lp1 - 1
            base = sq(P.atom(("slice", Lp1, none, none)))
            try:
                w = (va[1] / base).const_value()
            except Exception:      # noqa: BLE001
                w = None
            off, end = vs[1], vs[2]
            want_off = m * (2 * L + 1 - m) / 2 + m - Lp1
            okblock = bool(w is not None and ts[1] == m and ts[2].key() == "None" and lp.lo == P.const(1) and lp.hi == Lp1
                           and (off - want_off).is_zero() and (end - off - (Lp1 - m)).is_zero())
            if w is not None:
                weights.append(("m>0", w))
    chk.ob("R08.2", SHT, q, "real branch: pattern lists the degree of every packed position in m-major order "
                             "(concatenate(arange(m, L+1) for m in range(L+1)))", okblock, fingerprint="real-blocks",
           expected="block m of the packed vector, positions L+1 + sum_{k<m}(L+1-k) + (l-m), is added onto degrees l = m..L")
    chk.ob("R08.2", SHT, q, "real branch: degrees and |c|^2 are taken from the same slice of the packed vector", okblock,
           fingerprint="real-slice:m>0")
    chk.ob("R08.2", SHT, q, "real branch: the m=0 coefficients weigh 1, the m>0 coefficients weigh 2",
           sorted(weights, key=str) == sorted([("m=0", Fraction(1)), ("m>0", Fraction(2))], key=str),
           expected="[('m=0', 1), ('m>0', 2)]", found=str(weights))
    for e in real:
        if e.kind == "aug" and e.op in ("Div", "/", "TrueDiv") and len(e.loops) == 1 and e.loops[0].kind == "range":
            lp = e.loops[0]
            t = e.target.as_atom()
            okdiv = bool(t and t[0] == "sub" and S0.key() in t[1].key() and len(t[2]) == 1 and t[2][0] == lp.index and lp.lo == P.const(0)
                         and lp.hi == Lp1 and e.value == 2 * lp.index + 1)
    chk.ob("R08.2", SHT, q, "real branch: the sum for degree l is divided by 2l+1", okdiv)


def r08_3(chk, sd, inv):
    # coefficient_c == l(l+1)+m
    fn = inv.func("coefficient_c")
    ev = inv.ev("coefficient_c")
    chk.saw(INV, "coefficient_c")
    l, m = P.name(ev.param_names[0]), P.name(ev.param_names[1])
    chk.ob("R08.3", INV, "coefficient_c", "coefficient_c(l, m) == l(l+1) + m", ev.returns[0].value == l * (l + 1) + m,
           expected=str(l * (l + 1) + m), found=str(ev.returns[0].value))
    hook = inline_hook(inv, {"coefficient_c", "coefficient_r"})
    # invariant_P_c: indices handed to the coefficient vector match the quantum numbers handed to clebsch
    q = "invariant_P_c"
    ev = inv.ev(q, call_hook=hook)
    chk.saw(INV, q)
    names = ev.param_names            # coeffs, l, l1, l2
    coeffs, L0, L1, L2 = [P.name(x) for x in names]
    cl = [e for e in ev.events if e.kind == "call" and call_name(e.value.as_atom() or ()) == "clebsch"]
    chk.need(len(cl) == 1, f"{q}: expected one clebsch call")
    a = cl[0].extra["args"]
    half = [x / 2 for x in a]
    loops = cl[0].loops
    chk.need(len(loops) == 2, f"{q}: clebsch is not inside the (m, m1) double loop")
    mvar, m1var = loops[0].index, loops[1].index
    chk.ob("R08.3", INV, q, "clebsch receives (l1, m1, l2, m-m1, l, m) doubled",
           [h.key() for h in half] == [L1.key(), m1var.key(), L2.key(), (mvar - m1var).key(), L0.key(), mvar.key()],
           node=cl[0].node, expected=f"({L1},{m1var},{L2},{mvar - m1var},{L0},{mvar})", found=str([str(h) for h in half]))
    chk.ob("R08.3", INV, q, "m runs over -l..l and m1 over -l1..l1",
           loops[0].lo == -L0 and loops[0].hi == L0 + 1 and loops[1].lo == -L1 and loops[1].hi == L1 + 1,
           found=f"m in [{loops[0].lo},{loops[0].hi}), m1 in [{loops[1].lo},{loops[1].hi})")
    # accumulations
    subs = set()
    for e in ev.events:
        if e.value is None:
            continue
        for t in find_atoms(e.value, lambda t: t[0] == "sub" and t[1].key() == coeffs.key()):
            subs.add(t[2][0].key())
    exp = {(L1 * (L1 + 1) + m1var).key(), (L2 * (L2 + 1) + mvar - m1var).key(), (L0 * (L0 + 1) + mvar).key()}
    chk.ob("R08.3", INV, q, "coefficients are read at idx(l1,m1), idx(l2,m-m1) and idx(l,m)", subs == exp,
           expected=sorted(exp), found=sorted(subs))
    conj_ok = any(call_name(t) == ".conjugate" for e in ev.events if e.value is not None
                  for t in find_atoms(e.value, lambda t: t[0] == "call"))
    chk.ob("R08.3", INV, q, "the degree-l coefficient enters conjugated", conj_ok)
    # the bilinear coupling itself:  p_m = sum_{m1} C * c(l1, m1) * c(l2, m - m1)   and   P = sum_m p_m * conj(c(l, m)),
    # every coupling coefficient that is a number other than zero contributing (zero / NaN are the only ones skipped)
    CG = P.atom(cl[0].value.as_atom())
    c1 = P.atom(("sub", coeffs, (L1 * (L1 + 1) + m1var,)))
    c2 = P.atom(("sub", coeffs, (L2 * (L2 + 1) + mvar - m1var,)))
    c0 = P.atom(("sub", coeffs, (L0 * (L0 + 1) + mvar,)))
    inner = [e for e in ev.events if e.kind == "assign" and e.extra.get("aug") and len(e.loops) == 2 and e.extra.get("delta") is not None]
    outer = [e for e in ev.events if e.kind == "assign" and e.extra.get("aug") and len(e.loops) == 1 and e.extra.get("delta") is not None]
    okin = len(inner) == 1 and inner[0].extra["aug"] == "Add" and inner[0].extra["delta"] == CG * c1 * c2
    okout = False
    if len(outer) == 1 and len(inner) == 1 and outer[0].extra["aug"] == "Add":
        d_ = outer[0].extra["delta"]
        acc = [a_ for a_ in find_atoms(d_, lambda a_: a_[0] == "after" and a_[1] == inner[0].name)]
        conj = P.atom(("call", P.atom(("attr", c0, "conjugate")), ()))
        okout = len(acc) == 1 and (d_ == P.atom(acc[0]) * conj or d_ == P.atom(acc[0]) * P.atom(("call", P.name("numpy.conj"), (c0,))))
    chk.ob("R08.3", INV, q, "p_m accumulates C(l1 m1 l2 m-m1 | l m) * c(l1, m1) * c(l2, m - m1) over m1, and P accumulates p_m * conj(c(l, m)) over m "
           "(sums of products, nothing divided or subtracted)", okin and okout, fingerprint="bilinear-form",
           found=f"inner {[str(e.extra['delta'])[:120] for e in inner]} outer {[str(e.extra['delta'])[:100] for e in outer]}")
    skips = [e for e in ev.events if e.kind == "continue" and len(e.loops) == 2]
    okskip = True
    for e in skips:
        c_, pol = e.guards[-1]
        ca_ = c_.as_atom()
        parts = {x.key() for x in ca_[1]} if ca_ and ca_[0] == "or" else {c_.key()}
        okskip = okskip and pol and parts <= {f"(eq 0 {CG})", f"(eq {CG} 0)", f"(ne {CG} {CG})", f"(not (eq {CG} {CG}))"}
    chk.ob("R08.3", INV, q, "a term is skipped only when its coupling coefficient is zero (or not a number)", okskip, fingerprint="skip-zero-only",
           found=[str(e.guards[-1][0])[:140] for e in skips][:1])
    # p_invariants_c loops
    q = "p_invariants_c"
    ev = inv.ev(q)
    chk.saw(INV, q)
    call = [e for e in ev.events if e.kind == "call" and call_name(e.value.as_atom() or ()) == "invariant_P_c"]
    chk.need(len(call) == 1 and len(call[0].loops) == 3, f"{q}: triple loop around invariant_P_c not found")
    lo = call[0].loops
    v2, v1, v0 = lo[0].index, lo[1].index, lo[2].index
    lmax = lo[0].hi - 1
    chk.ob("R08.3", INV, q, "loops are ordered l2 in 1..L, l1 in l2..L, l in l1..L",
           lo[0].lo == P.const(1) and lo[1].lo == v2 and lo[2].lo == v1 and lo[1].hi == lo[0].hi and lo[2].hi == lo[0].hi,
           found=[f"[{x.lo},{x.hi})" for x in lo])
    chk.ob("R08.3", INV, q, "L = int(sqrt(len(coeffs))) - 1", lmax.key() == f"-1 + sqrt(len({ev.param_names[0]}))"
           or "sqrt(len(" in lmax.key() and (lmax + 1).as_atom() is not None, found=str(lmax))
    args = call[0].extra["args"]
    chk.ob("R08.3", INV, q, "invariant_P_c is called with (coeffs, l, l1, l2)",
           [x.key() for x in args[1:]] == [v0.key(), v1.key(), v2.key()], found=[str(x) for x in args])
    # triangle test dominates the call
    from ..symex import compare, guard_holds, negate
    tri = guard_holds(call[0].guards, negate(compare("Gt", v1 - v2, v0))) and guard_holds(call[0].guards, negate(compare("Lt", v1 + v2, v0)))
    chk.ob("R08.3", INV, q, "the triangle condition |l1-l2| <= l <= l1+l2 guards the evaluation", tri,
           found=[f"{'' if p else 'not '}{c}" for c, p in call[0].guards][:3])
    # parity split
    app = [e for e in ev.events if e.kind == "call" and e.target is not None and e.target.key().endswith(".append")]
    par = {}
    for e in app:
        obj = e.target.as_atom()[1].as_atom()
        g = e.guards[-1]
        ga = g[0].as_atom()
        even = None
        if ga and ga[0] == "eq":
            for x, y in ((ga[1], ga[2]), (ga[2], ga[1])):
                ya = y.as_atom()
                if x == P.const(0) and ya and ya[0] == "bin" and ya[1] == "Mod" and ya[3] == P.const(2) \
                        and ya[2] == v0 + v1 + v2:
                    even = g[1]
        par[obj[1]] = even
    chk.ob("R08.3", INV, q, "l+l1+l2 even goes to the real list, odd to the imaginary list",
           par == {"even_inv": True, "odd_inv": False}, found=str(par))
    rets = ev.returns[-1].value
    ok_parts = "numpy.real(<even_inv" in rets.key() and "numpy.imag(<odd_inv" in rets.key() and "numpy.cbrt" in rets.key() \
        and "numpy.sign" in rets.key()
    chk.ob("R08.3", INV, q, "result = signed cube roots of Re(even) and Im(odd), concatenated", ok_parts, found=str(rets)[:200])

    # cap at a block boundary; MAX_L_MAX vs factorial table (the capping code may live in make_invariants or a helper of it)
    q = None
    for cand in ["make_invariants"] + sorted(k for k in sd.funcs if k != "make_invariants"):
        fn0 = sd.funcs[cand]
        if any(isinstance(n, ast.Name) and n.id == "MAX_L_MAX" and isinstance(n.ctx, ast.Store) for n in ast.walk(fn0)) or \
                (cand == "make_invariants" and any(e.kind == "assign" and e.name == "MAX_L_MAX" for e in sd.ev(cand).events)):
            q = cand
            break
    chk.need(q is not None, "make_invariants: MAX_L_MAX literal not found in shape_descriptors")
    ev = sd.ev(q)
    chk.saw(SD, q)
    maxl = None
    for e in ev.events:
        if e.kind == "assign" and e.name == "MAX_L_MAX":
            maxl = e.value.const_value()
    chk.need(maxl is not None, f"{q}: MAX_L_MAX literal not found")
    cap = None
    capguard = None
    for e in ev.events:
        if e.kind in ("assign", "call") and e.value is not None:       # a temporary, or the slice written straight into the call
            for pn in ev.param_names:
                for s in slices_of(e.value, pn):
                    if cap is None:
                        cap = s[1].const_value()
                        capguard = e.guards
    root = math.isqrt(int(cap)) if cap is not None else 0
    chk.ob("R08.3", SD, q, "the coefficient vector is capped at a block boundary (a perfect square)",
           cap is not None and root * root == cap, expected="(d+1)^2", found=str(cap))
    guard_ok = False
    if capguard:
        for c, pol in capguard:
            ca = c.as_atom()
            if ca and ca[0] == "lt" and pol and ca[1] == P.const(maxl) and ca[2].key() in ev.param_names:
                guard_ok = True
    chk.ob("R08.3", SD, q, "the cap applies exactly when l_max exceeds MAX_L_MAX", guard_ok)
    # factorial table
    node = inv.toplevel_assign("factorial")
    chk.need(isinstance(node, ast.List), "factorial table is no longer a list literal")
    vals = []
    for elt in node.elts:
        txt = inv.seg(elt)
        vals.append(Fraction(txt))
    chk.table(f"{INV}:factorial", len(vals))
    for k, v in enumerate(vals):
        exact = Fraction(math.factorial(k))
        chk.ob("R08.3", INV, "factorial", f"factorial[{k}] equals {k}! to double precision",
               abs(v - exact) <= exact * Fraction(1, 10 ** 15), fingerprint=f"fact:{k}", expected=str(exact)[:30], found=str(v)[:30])
    eff = max(int(maxl), root - 1 if cap is not None else int(maxl))
    # largest factorial index reachable: (j1+j2+j)/2 + 1 with j's = 2*l  ->  l1 + l2 + l + 1 <= 3*L + 1
    cev = inv.ev("clebsch")
    chk.saw(INV, "clebsch")
    idxs = set()
    for e in cev.events:
        if e.value is None:
            continue
        for t in find_atoms(e.value, lambda t: t[0] == "sub" and t[1].key() == "factorial"):
            idxs.add(t[2][0])
    j1, m1, j2, m2, j, m = [P.name(x) for x in cev.param_names]
    worst = 0
    bad = []
    for ix in idxs:
        # substitute the extreme values j=j1=j2=2L, m's in -j..j ; k in 0..L  (indices are affine)
        best = None
        for mm1 in (-1, 0, 1):
            for mm2 in (-1, 0, 1):
                for kk in (0, 1):
                    sub = {j1.as_atom(): P.const(2 * eff), j2.as_atom(): P.const(2 * eff), j.as_atom(): P.const(2 * eff),
                           m1.as_atom(): P.const(2 * eff * mm1), m2.as_atom(): P.const(2 * eff * mm2),
                           m.as_atom(): P.const(2 * eff * (mm1 + mm2))}
                    val = ix.subs(sub)
                    for la in [a for a in val.atoms()]:
                        val = val.subs({la: P.const(kk * eff)})
                    c = val.const_value()
                    if c is not None and (best is None or c > best):
                        best = c
        if best is None:
            bad.append(str(ix))
        else:
            worst = max(worst, best)
    racah_formula(chk, inv)
    chk.ob("R08.3", INV, "clebsch", f"the largest factorial index reachable for l <= {eff} ({worst}) is inside the table "
           f"(length {len(vals)})", not bad and worst < len(vals) and worst >= 3 * eff + 1 - 1,
           expected=f"3*{eff}+1 = {3 * eff + 1} < {len(vals)}", found=f"{worst}; unresolved: {bad}")


def racah_formula(chk, inv):
    """clebsch(j1, m1, j2, m2, j, m) with doubled quantum numbers against the Racah formula (Brink & Satchler, the reference the source
    cites), read term by term with C integer division kept as such (H(x) = x / 2 on ints):

        <j1 m1 j2 m2 | j m> = [m = m1 + m2] * sqrt( (j + 1) * H(j1+j2-j)! H(j1+j-j2)! H(j2+j-j1)! / (H(j1+j2+j) + 1)! )
                              * sqrt( H(j1+m1)! H(j1-m1)! H(j2+m2)! H(j2-m2)! H(j+m)! H(j-m)! )
                              * sum_k (-1)^k / ( k! (H(j1+j2-j) - k)! (H(j1-m1) - k)! (H(j2+m2) - k)! (H(j-j2+m1) + k)! (H(j-j1-m2) + k)! )

    k from max(0, -H(j-j2+m1), -H(j-j1-m2)) to min(H(j1+j2-j), H(j1-m1), H(j2+m2)); zero outside the selection rules."""
    q = "clebsch"
    ev = inv.ev(q, cdiv=True)
    j1, m1, j2, m2, j, m = [P.name(x) for x in ev.param_names]
    H = lambda t: P.atom(("bin", "CDiv", t, P.const(2)))
    F = lambda t: P.atom(("sub", P.name("factorial"), (t,)))
    ab = lambda t: P.atom(("call", P.name("abs"), (t,)))
    zero_ret = [e for e in ev.returns if e.value.key() == "0" and e.guards]
    rules = set()
    for e in zero_ret:
        c, pol = e.guards[-1]
        ca = c.as_atom()
        if ca and ca[0] == "or" and pol:
            rules |= {x.key() for x in ca[1]}
        else:
            rules.add(("" if pol else "not ") + c.key())
    want_rules = {f"(lt {j1} {ab(m1)})", f"(lt {j2} {ab(m2)})", f"(lt {j} {ab(m)})", f"(lt {j1} 0)", f"(lt {j2} 0)", f"(lt {j} 0)",
                  f"(lt {j} {ab(j1 - j2)})", f"(lt {j1 + j2} {j})", f"not (eq {m} {m1 + m2})"}
    parity = [r for r in rules if r.startswith("not (and (")]
    chk.ob("R08.3", INV, q, "selection rules: zero for |m_i| > j_i, a negative j, a violated triangle condition |j1 - j2| <= j <= j1 + j2, or m != m1 + m2",
           want_rules <= rules, fingerprint="racah:selection", expected=sorted(want_rules), found=sorted(want_rules - rules)[:3])
    wp = {P.atom(("eq", 2 * H(j1 - m1), j1 - m1)).key(), P.atom(("eq", 2 * H(j2 + m2), j2 + m2)).key(), P.atom(("eq", 2 * H(j1 + j2 - j), j1 + j2 - j)).key(),
          P.atom(("eq", j1 - m1, 2 * H(j1 - m1))).key(), P.atom(("eq", j2 + m2, 2 * H(j2 + m2))).key(), P.atom(("eq", j1 + j2 - j, 2 * H(j1 + j2 - j))).key()}
    okpar = False
    for r_ in parity:
        inner = [e for e in zero_ret if ("not " + e.guards[-1][0].key()) == r_][0].guards[-1][0].as_atom()
        got = {x.key() for x in inner[1]}
        okpar = len(got) == 3 and got <= wp
    chk.ob("R08.3", INV, q, "zero unless j1 - m1, j2 + m2 and j1 + j2 - j are even (the halves are exact)", okpar, fingerprint="racah:parity",
           found=parity[:1])
    # the sum
    a_, b_, c_, d_, e_ = H(j1 - m1), H(j - j2 + m1), H(j2 + m2), H(j - j1 - m2), H(j1 + j2 - j)
    terms = [x for x in ev.events if x.kind == "assign" and x.name == "res" and x.loops]
    chk.need(len(terms) == 1, f"{q}: accumulation of the Racah sum not found")
    t = terms[0]
    lp = t.loops[-1]
    k = lp.index
    lc = [x for x in find_atoms(t.value, lambda x: x[0] == "lc" and x[1] == "res")]
    ph = [x for x in find_atoms(t.value, lambda x: x[0] == "lc" and x[1] != "res")]
    okterm = False
    if len(lc) == 1 and len(ph) == 1:
        delta = t.value - P.atom(lc[0])
        den = F(e_ - k) * F(d_ + k) * F(b_ + k) * F(a_ - k) * F(c_ - k) * F(k)
        okterm = delta == P.atom(ph[0]) / den
    chk.ob("R08.3", INV, q, "each term of the sum is phase / ( k! (H(j1+j2-j)-k)! (H(j1-m1)-k)! (H(j2+m2)-k)! (H(j-j2+m1)+k)! (H(j-j1-m2)+k)! )", okterm,
           node=t.node, fingerprint="racah:term", found=str(t.value)[:200])
    mx = lambda *xs: P.atom(("call", P.name("max"), xs))
    mn = lambda *xs: P.atom(("call", P.name("min"), xs))
    lo_ok = lp.lo is not None and lp.lo.key() in (mx(mx(-b_, -d_), P.const(0)).key(), mx(-b_, -d_, P.const(0)).key(), mx(P.const(0), -b_, -d_).key())
    hi_ok = lp.hi is not None and lp.hi.key() in ((mn(mn(a_, c_), e_) + 1).key(), (mn(a_, c_, e_) + 1).key())
    chk.ob("R08.3", INV, q, "k runs over all values for which no factorial argument is negative: max(0, -H(j-j2+m1), -H(j-j1-m2)) .. min(H(j1-m1), H(j2+m2), "
           "H(j1+j2-j)) inclusive", lo_ok and hi_ok, fingerprint="racah:range", found=f"range({lp.lo}, {lp.hi})"[:200])
    flips = [x for x in ev.events if x.kind == "assign" and x.loops and x.loops[-1].k == lp.k and ph and x.name == ph[0][1]]
    okflip = len(flips) == 1 and (flips[0].value + P.atom(ph[0])).is_zero()
    init = ph[0][3] if ph else None
    ia = init.as_atom() if init is not None else None
    okinit = bool(ia and ia[0] == "ite" and ia[2] == P.const(1) and ia[3] == P.const(-1) and ia[1].key() in
                  (P.atom(("eq", 2 * P.atom(("bin", "CDiv", lp.lo, P.const(2))), lp.lo)).key(), P.atom(("eq", lp.lo, 2 * P.atom(("bin", "CDiv", lp.lo, P.const(2))))).key()))
    chk.ob("R08.3", INV, q, "the phase is (-1)^k: +1 for an even first k, -1 for an odd one, and it alternates from term to term", okflip and okinit,
           fingerprint="racah:phase", found=f"initial {str(init)[:120]}; update {[str(x.value)[:60] for x in flips]}")
    over = [x for x in ev.events if x.kind == "assign" and x.name == "res" and not x.loops and x.guards and x.value.const_value() is not None
            and x.value.const_value() != 0]
    chk.ob("R08.3", INV, q, "the sum is replaced by a constant only when its range is empty (upper limit below the lower one)",
           all(x.guards[-1][1] and x.guards[-1][0].key() == P.atom(("lt", lp.hi - 1, lp.lo)).key() for x in over), fingerprint="racah:empty-range",
           found=[str(x.guards[-1][0])[:100] for x in over][:1])
    # the prefactor: a product of square roots, each factorial once
    ret = ev.returns.pick(-1).value
    num = [F(e_), F(H(j1 + j - j2)), F(H(j2 + j - j1)), F(H(j1 + m1)), F(a_), F(c_), F(H(j2 - m2)), F(H(j + m)), F(H(j - m)), j + 1]
    den_ = [F(H(j1 + j2 + j) + 1)]
    sq = lambda t_: P.atom(("call", P.name("sqrt"), (t_,)))
    want = P.const(1)
    for x in num:
        want = want * sq(x)
    for x in den_:
        want = want / sq(x)
    roots = [x for x in find_atoms(ret, lambda x: x[0] == "call" and call_name(x) == "sqrt")]
    pref = P.const(1)
    rest = ret
    okpref = False
    try:
        q_ = ret / want
        # what is left after dividing the expected prefactor out is the sum alone: no square root and no factorial remains
        okpref = not find_atoms(q_, lambda x: x[0] == "call" and call_name(x) == "sqrt") and "factorial" not in q_.key() \
            and q_.as_atom() is not None and q_.as_atom()[0] in ("ite", "after", "lc")
    except Exception:      # noqa: BLE001
        okpref = False
    chk.ob("R08.3", INV, q, "the prefactor is sqrt( (j+1) H(j1+j2-j)! H(j1+j-j2)! H(j2+j-j1)! / (H(j1+j2+j)+1)! ) * sqrt( H(j1+m1)! H(j1-m1)! H(j2+m2)! H(j2-m2)! "
           "H(j+m)! H(j-m)! ), multiplied onto the sum", okpref and len(roots) == 11, fingerprint="racah:prefactor", expected=str(want)[:200],
           found=f"{len(roots)} square roots: {str(ret)[-260:]}")


def r08_4(chk, sd):
    """Number and ordering of the invariants are a fixed function of the maximum degree (and of which kinds are present)."""
    q = "make_invariants"
    ev = sd.ev(q)
    chk.saw(SD, q)
    # the result is a function of (l_max, coefficients, kinds): nothing that reaches the invariant routines depends on a module-level flag the
    # function itself flips (a warn-once flag that also guards the truncation makes the second call differ from the first)
    fn_ = sd.func(q)
    flags = {n for st in ast.walk(fn_) if isinstance(st, ast.Global) for n in st.names}
    tainted = []
    for e in ev.events:
        if e.kind == "call" and e.extra.get("args") and (call_name(e.value.as_atom() or ()) or "").split(".")[-1].endswith(("invariants_c", "invariants", "invariants_r", "make_N_invariants")):
            for a_ in e.extra["args"]:
                for f_ in flags:
                    if f_ in a_.key():
                        tainted.append(f"{str(e.value)[:90]} depends on {f_}")
            for c_, pol_ in e.guards:
                for f_ in flags:
                    if f_ in c_.key():
                        tainted.append(f"{(call_name(e.value.as_atom()) or '?').split('.')[-1]}(...) is called under a test of {f_}")
    chk.ob("R08.4", SD, q, "what the invariant routines receive does not depend on module state the function changes (the warn-once flag guards the "
           "warning only)", not tainted, fingerprint="stateless", found=tainted[:2])
    ret = ev.returns[-1].value.as_atom()
    chk.need(ret and ret[0] == "call" and call_name(ret) in ("numpy.hstack", "numpy.concatenate") and ret[2], f"{q}: result is not a concatenation")
    parts = ret[2][0].as_atom()
    kinds = ev.param_names[2] if len(ev.param_names) > 2 else "kinds"
    if not (parts and parts[0] == "obj"):
        it = seq_items(ret[2][0])
        dyn = bool(parts and parts[0] == "comp") or any(e.loops for e in ev.events if e.kind == "call")
        if it is None:
            chk.ob("R08.4", SD, q, "blocks are appended in a fixed order (not in the order the caller spells kinds)", not dyn,
                   node=ev.returns[-1].node, fingerprint="order", expected="N block, then P block", found=str(ev.returns[-1].value)[:200])
            chk.need(dyn, f"{q}: unrecognised construction of the invariant vector: {str(ev.returns[-1].value)[:120]}")
            chk.ob("R08.4", SD, q, "each block is present at most once", False, fingerprint="once", found="one block per character of kinds")
            return
    apps = [e for e in ev.events if e.kind == "call" and e.target is not None and e.target.key() == f"{P.atom(parts)}.append"]
    chk.need(apps, f"{q}: no appends to the list of invariant blocks")
    seq = []
    for e in apps:
        arg = e.extra["args"][0].as_atom()
        cn = call_name(arg) if arg else None
        kind = "N" if cn and cn.endswith("make_N_invariants") else "P" if cn and "p_invariants" in cn else "?"
        g = [c.key() for c, pol in e.guards if pol]
        member = f"(in '{kind}' {kinds})" in g
        seq.append((kind, member, bool(e.loops), e))
    order = [k for k, _, _, _ in seq]
    first_p = order.index("P") if "P" in order else len(order)
    ok_order = "?" not in order and all(k == "P" for k in order[first_p:]) and not any(lp for _, _, lp, _ in seq)
    chk.ob("R08.4", SD, q, "blocks are appended in a fixed order (not in the order the caller spells kinds)", ok_order and all(m for _, m, _, _ in seq),
           node=apps[0].node, fingerprint="order", expected="N block under ('N' in kinds), then P block under ('P' in kinds)",
           found=str([(k, "guarded" if m else "unguarded", "in loop" if lp else "") for k, m, lp, _ in seq]))
    # at most once: appends of the same kind are mutually exclusive (complementary guards)
    def exclusive(a, b):
        ga = {(c.key(), p) for c, p in a.guards}
        gb = {(c.key(), p) for c, p in b.guards}
        return any((k, not p) in gb for k, p in ga)
    once = True
    for kind in ("N", "P"):
        es = [e for k, _, _, e in seq if k == kind]
        for x in range(len(es)):
            for y in range(x + 1, len(es)):
                if not exclusive(es[x], es[y]):
                    once = False
    chk.ob("R08.4", SD, q, "each block is present at most once", once, fingerprint="once",
           found=str([(k, [("" if p else "not ") + c.key()[:30] for c, p in e.guards]) for k, _, _, e in seq])[:300])


def r08_expand(chk, repo, sd):
    """The descriptors expand half-layout coefficients with expand_coeffs_to_full: that name must denote the kernel C07 R07.6 checks,
    or an implementation that covers the same (m, l) domain."""
    full = sd.ctx.alias.get("expand_coeffs_to_full")
    want = "chmpy.shape._sht.expand_coeffs_to_full"
    if full == want:
        chk.ob("R08.4", SD, "<imports>", "expand_coeffs_to_full is the compiled kernel checked by C07 R07.6", True, fingerprint="expand-binding", nontrivial=False)
        return
    hit = repo.resolve_symbol(full) if full and full.startswith("chmpy.") else None
    if hit and hit[0].rel.endswith(".pyx"):
        chk.ob("R08.4", SD, "<imports>", "expand_coeffs_to_full is the compiled kernel checked by C07 R07.6", hit[1] == "expand_coeffs_to_full",
               fingerprint="expand-binding", found=full)
        return
    if not hit or hit[1] not in hit[0].funcs:
        raise AnalysisError(f"shape_descriptors: expand_coeffs_to_full resolves to {full}, which is not a chmpy function")
    m, q = hit
    ev = m.ev(q)
    chk.saw(m.rel, q)
    lmax = P.name(ev.param_names[0])
    loops = [l for l in ev.all_loops if l.kind == "range"]
    mloops = [l for l in loops if l.lo == P.const(1)]
    if not mloops:
        raise AnalysisError(f"{m.rel}:{q}: no loop over m = 1.. found in the replacement of the compiled kernel")
    chk.ob("R08.4", m.rel, q, "the Python replacement of the compiled expansion covers every order m = 1 .. lmax", all(l.hi == lmax + 1 for l in mloops),
           node=mloops[0].node, fingerprint="expand-domain", expected=f"range(1, {lmax + 1})", found=[f"range({l.lo}, {l.hi})" for l in mloops])
