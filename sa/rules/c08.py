"""C08 — shape invariants: degree blocks, power spectrum, P-invariant plumbing."""
from __future__ import annotations

import ast
import math
from fractions import Fraction

from ..core import AnalysisError
from ..poly import P
from ..symex import Ev, find_atoms, call_name, seq_items
from .generic import string_value

SD = "shape/shape_descriptors.py"
SHT = "shape/sht.py"
INV = "shape/_invariants.pyx"


def inline_hook(mod, names):
    """call_hook that inlines module-level single-return functions ``names`` of ``mod``."""
    def hook(ev, callee, args, kwargs, node):
        ca = callee.as_atom()
        if not ca or ca[0] != "name" or ca[1].split(".")[-1] not in names or kwargs:
            return None
        fn = mod.funcs.get(ca[1].split(".")[-1])
        if fn is None:
            return None
        body = [s for s in fn.body if not (isinstance(s, ast.Expr) and isinstance(s.value, ast.Constant))]
        if len(body) != 1 or not isinstance(body[0], ast.Return):
            return None
        params = [a.arg for a in fn.args.args]
        if len(params) != len(args):
            return None
        sub = Ev([body[0]], mod.ctx, params=dict(zip(params, args)))
        sub.run()
        return sub.returns[0].value
    return hook


def slices_of(term, root_key):
    out = []
    for a in find_atoms(term, lambda a: a[0] == "sub" and a[1].key() == root_key and len(a[2]) == 1):
        s = a[2][0].as_atom()
        if s and s[0] == "slice":
            out.append((s[1], s[2], s[3]))
    return out


def run(chk):
    repo = chk.repo
    sd = repo.module(SD)
    sht = repo.module(SHT)
    inv = repo.module(INV)
    chk.explanation = ("index expressions into coefficient vectors in make_N_invariants, SHT.power_spectrum, "
                       "make_invariants and _invariants.pyx are normalised to polynomials (running counters get closed "
                       "forms by symbolic summation) and compared with the block layout [l^2, (l+1)^2) / l(l+1)+m; "
                       "the factorial table is compared with exact factorials and its length with the largest reachable index.")
    chk.rule("R08.1", "N invariants: the slice for degree i is exactly [i^2, (i+1)^2) and consecutive blocks tile the vector", 4)
    chk.rule("R08.2", "power spectrum: complex blocks [l^2, (l+1)^2) with divisor 2l+1; real branch pattern/weights follow the packed order", 6)
    chk.rule("R08.3", "P invariants: coefficient index l(l+1)+m, loop order l2<=l1<=l with triangle test, parity split, block cap, factorial table", 80)
    if chk.want("R08.1"):
        r08_1(chk, sd)
    if chk.want("R08.2"):
        r08_2(chk, sht)
    if chk.want("R08.3"):
        r08_3(chk, sd, inv)
    chk.assume("rotation invariance as a numerical fact and the Clebsch-Gordan (Racah) formula itself are not decided")
    chk.assume("the installed _invariants .so may lag the .pyx source (Cython is not available to rebuild)")


def r08_1(chk, sd):
    q = "make_N_invariants"
    ev = sd.ev(q)
    chk.saw(SD, q)
    coef = P.name(ev.param_names[0])
    stores = [e for e in ev.events if e.kind in ("store", "aug") and e.loops]
    chk.need(stores, f"{q}: per-degree store not found")
    n = 0
    for e in stores:
        loop = e.loops[-1]
        chk.need(loop.kind == "range", f"{q}: degree loop is not a range loop")
        i = loop.index
        t = e.target.as_atom()
        chk.ob("R08.1", SD, q, "the invariant of degree i is stored at position i", bool(t and t[0] == "sub" and t[2][0] == i),
               node=e.node, found=str(e.target))
        chk.ob("R08.1", SD, q, "degrees run over 0 .. size-1 with size = int(sqrt(len(coefficients)))",
               loop.lo == P.const(0) and loop.hi.key() == f"int(sqrt(len({coef})))", node=e.node,
               found=f"range({loop.lo}, {loop.hi})")
        sl = slices_of(e.value, coef.key())
        chk.need(sl, f"{q}: no slice of the coefficient vector in the per-degree sum")
        for lo, hi, step in sl:
            n += 1
            exp_lo, exp_hi = i * i, (i + 1) * (i + 1)
            ok_lo = lo == exp_lo
            ok_hi = hi == exp_hi
            nxt = lo.subs({i.as_atom(): i + 1})
            chk.ob("R08.1", SD, q, "block of degree i starts at i^2 (= idx(i, -i))", ok_lo, node=e.node,
                   fingerprint=f"start#{n}", expected=str(exp_lo), found=str(lo))
            chk.ob("R08.1", SD, q, "block of degree i ends at (i+1)^2 (exclusive), where degree i+1 starts",
                   ok_hi and hi == nxt, node=e.node, fingerprint=f"end#{n}", expected=str(exp_hi), found=str(hi))
        # the summand is |c|^2 over that block
        v = e.value
        va = v.as_atom()
        form = None
        if va and va[0] == "attr" and va[2] == "real":
            inner = va[1].as_atom()
            if inner and inner[0] == "call" and call_name(inner) in ("numpy.sum", "sum") and len(inner[2]) == 1:
                prod = inner[2][0]
                s0 = P.atom(("sub", coef, (P.atom(("slice",) + tuple(sl[0])),)))
                conj = P.atom(("call", P.name("numpy.conj"), (s0,)))
                conj2 = P.atom(("call", P.name("numpy.conjugate"), (s0,)))
                if prod == s0 * conj or prod == s0 * conj2:
                    form = "sum(c*conj(c)).real"
            if inner and inner[0] == "call" and call_name(inner) == "numpy.vdot":
                form = "vdot"
        elif va and va[0] == "call" and call_name(va) in ("numpy.sum", "sum"):
            arg = va[2][0]
            s0 = P.atom(("sub", coef, (P.atom(("slice",) + tuple(sl[0])),)))
            if arg == P.atom(("call", P.name("abs"), (s0,))) ** 2:
                form = "sum(abs(c)**2)"
        chk.ob("R08.1", SD, q, "the per-degree value is the sum of |c|^2 over the block (one block used for both factors)",
               form is not None and len({(str(a), str(b)) for a, b, _ in sl}) == 1, node=e.node, found=str(v))
    ret = ev.returns[-1].value.as_atom()
    chk.ob("R08.1", SD, q, "the result is the square root of the per-degree sums",
           bool(ret and ret[0] == "call" and call_name(ret) == "sqrt"), found=str(ev.returns[-1].value))


def r08_2(chk, sht):
    q = "SHT.power_spectrum"
    ev = sht.ev(q)
    chk.saw(SHT, q)
    coef = P.name(ev.param_names[1])
    # complex branch: stores inside a range loop
    stores = [e for e in ev.events if e.kind == "store" and e.loops]
    chk.need(stores, f"{q}: complex-branch store not found")
    for e in stores:
        l = e.loops[-1].index
        sl = []
        for a in find_atoms(e.value, lambda a: a[0] == "slice"):
            sl.append((a[1], a[2]))
        chk.need(sl, f"{q}: no slice in the complex-branch sum")
        for lo, hi in sl:
            chk.ob("R08.2", SHT, q, "complex branch: the running index from 0 with step 2l+1 is l^2, block [l^2, (l+1)^2)",
                   lo == l * l and hi == (l + 1) * (l + 1), node=e.node, fingerprint="cplx-block",
                   expected=f"[{l * l}, {(l + 1) * (l + 1)})", found=f"[{lo}, {hi})")
        # value = sum(|c|^2 block) / (2l+1)
        s = P.atom(("call", P.name("numpy.sum"), (P.atom(("sub", P.atom(("call", P.name("abs"), (coef,))) ** 2,
                                                          (P.atom(("slice", sl[0][0], sl[0][1], P.atom(("const", None)))),))),)))
        chk.ob("R08.2", SHT, q, "complex branch: spectrum[l] = sum |c|^2 over the block / (2l+1)",
               e.value == s / (2 * l + 1) and e.target.as_atom()[2][0] == l, node=e.node, fingerprint="cplx-value",
               expected=str(s / (2 * l + 1)), found=str(e.value))
        loop = e.loops[-1]
        chk.ob("R08.2", SHT, q, "complex branch: l runs over 0 .. int(sqrt(n)) - 1",
               loop.lo == P.const(0) and "sqrt(len(" in loop.hi.key(), node=e.node, found=f"range({loop.lo},{loop.hi})")
    # real branch
    pat = [e for e in ev.events if e.kind == "assign" and e.name == "pattern"]
    chk.need(pat, f"{q}: real-branch 'pattern' not found")
    pterm = pat[0].value
    pa = pterm.as_atom()
    okp = False
    Lp1 = None
    if pa and pa[0] == "call" and call_name(pa) == "numpy.concatenate":
        comp = pa[2][0].as_atom()
        if comp and comp[0] == "comp" and len(comp[3]) == 1 and comp[3][0][0] == "range":
            elt = comp[2].as_atom()
            rng = comp[3][0][1].as_atom()
            if elt and call_name(elt) == "numpy.arange" and len(elt[2]) == 2 and rng and len(rng[2]) == 1:
                m = elt[2][0].as_atom()
                Lp1 = elt[2][1]
                okp = bool(m and m[0] == "lv" and rng[2][0].key() == Lp1.key())
    chk.ob("R08.2", SHT, q, "real branch: pattern lists the degree of every packed position in m-major order "
                             "(concatenate(arange(m, L+1) for m in range(L+1)))", okp, node=pat[0].node, found=str(pterm)[:200])
    adds = [e for e in ev.events if e.kind == "call" and call_name(e.value.as_atom() or ()) == "numpy.add.at"]
    chk.need(len(adds) == 2, f"{q}: expected two np.add.at accumulations in the real branch")
    weights = []
    for e in adds:
        args = e.extra["args"]
        idx = args[1].as_atom()
        okslice = False
        wgt = None
        sl_i = None
        if idx and idx[0] == "sub" and idx[1].key() == pterm.key():
            sl_i = idx[2][0]
            cs = P.atom(("sub", coef, (sl_i,)))
            sq = P.atom(("call", P.name("abs"), (cs,))) ** 2
            try:
                ratio = args[2] / sq
                wgt = ratio.const_value()
            except Exception:
                wgt = None
            okslice = wgt is not None
        s = sl_i.as_atom() if sl_i is not None else None
        part = None
        if s and s[0] == "slice" and Lp1 is not None:
            if s[1].key() == "None" and s[2].key() == Lp1.key():
                part = "m=0"
            elif s[2].key() == "None" and s[1].key() == Lp1.key():
                part = "m>0"
        weights.append((part, wgt))
        chk.ob("R08.2", SHT, q, "real branch: degrees and |c|^2 are taken from the same slice of the packed vector",
               okslice and part is not None, node=e.node, fingerprint=f"real-slice:{part}", found=str(args[1])[:120])
    chk.ob("R08.2", SHT, q, "real branch: the m=0 coefficients weigh 1, the m>0 coefficients weigh 2",
           sorted(weights, key=str) == sorted([("m=0", Fraction(1)), ("m>0", Fraction(2))], key=str),
           expected="[('m=0', 1), ('m>0', 2)]", found=str(weights))
    ret = [e for e in ev.returns if e.guards and e.guards[-1][1]]
    okd = False
    if ret and Lp1 is not None:
        v = ret[0].value
        num = [a for a in v.atoms() if a[0] == "obj"]
        if len(num) == 1:
            d = P.atom(num[0]) / v
            deg = P.atom(("sub", pterm, (P.atom(("slice", P.atom(("const", None)), Lp1, P.atom(("const", None)))),)))
            okd = d == 2 * deg + 1
    chk.ob("R08.2", SHT, q, "real branch: the sum for degree l is divided by 2l+1", okd,
           found=str(ret[0].value)[:200] if ret else None)


def r08_3(chk, sd, inv):
    # coefficient_c == l(l+1)+m
    fn = inv.func("coefficient_c")
    ev = inv.ev("coefficient_c")
    chk.saw(INV, "coefficient_c")
    l, m = P.name(ev.param_names[0]), P.name(ev.param_names[1])
    chk.ob("R08.3", INV, "coefficient_c", "coefficient_c(l, m) == l(l+1) + m", ev.returns[0].value == l * (l + 1) + m,
           expected=str(l * (l + 1) + m), found=str(ev.returns[0].value))
    hook = inline_hook(inv, {"coefficient_c", "coefficient_r"})
    # invariant_P_c: indices handed to the coefficient vector match the quantum numbers handed to clebsch
    q = "invariant_P_c"
    ev = inv.ev(q, call_hook=hook)
    chk.saw(INV, q)
    names = ev.param_names            # coeffs, l, l1, l2
    coeffs, L0, L1, L2 = [P.name(x) for x in names]
    cl = [e for e in ev.events if e.kind == "call" and call_name(e.value.as_atom() or ()) == "clebsch"]
    chk.need(len(cl) == 1, f"{q}: expected one clebsch call")
    a = cl[0].extra["args"]
    half = [x / 2 for x in a]
    loops = cl[0].loops
    chk.need(len(loops) == 2, f"{q}: clebsch is not inside the (m, m1) double loop")
    mvar, m1var = loops[0].index, loops[1].index
    chk.ob("R08.3", INV, q, "clebsch receives (l1, m1, l2, m-m1, l, m) doubled",
           [h.key() for h in half] == [L1.key(), m1var.key(), L2.key(), (mvar - m1var).key(), L0.key(), mvar.key()],
           node=cl[0].node, expected=f"({L1},{m1var},{L2},{mvar - m1var},{L0},{mvar})", found=str([str(h) for h in half]))
    chk.ob("R08.3", INV, q, "m runs over -l..l and m1 over -l1..l1",
           loops[0].lo == -L0 and loops[0].hi == L0 + 1 and loops[1].lo == -L1 and loops[1].hi == L1 + 1,
           found=f"m in [{loops[0].lo},{loops[0].hi}), m1 in [{loops[1].lo},{loops[1].hi})")
    # accumulations
    subs = set()
    for e in ev.events:
        if e.value is None:
            continue
        for t in find_atoms(e.value, lambda t: t[0] == "sub" and t[1].key() == coeffs.key()):
            subs.add(t[2][0].key())
    exp = {(L1 * (L1 + 1) + m1var).key(), (L2 * (L2 + 1) + mvar - m1var).key(), (L0 * (L0 + 1) + mvar).key()}
    chk.ob("R08.3", INV, q, "coefficients are read at idx(l1,m1), idx(l2,m-m1) and idx(l,m)", subs == exp,
           expected=sorted(exp), found=sorted(subs))
    conj_ok = any(call_name(t) == ".conjugate" for e in ev.events if e.value is not None
                  for t in find_atoms(e.value, lambda t: t[0] == "call"))
    chk.ob("R08.3", INV, q, "the degree-l coefficient enters conjugated", conj_ok)
    # p_invariants_c loops
    q = "p_invariants_c"
    ev = inv.ev(q)
    chk.saw(INV, q)
    call = [e for e in ev.events if e.kind == "call" and call_name(e.value.as_atom() or ()) == "invariant_P_c"]
    chk.need(len(call) == 1 and len(call[0].loops) == 3, f"{q}: triple loop around invariant_P_c not found")
    lo = call[0].loops
    v2, v1, v0 = lo[0].index, lo[1].index, lo[2].index
    lmax = lo[0].hi - 1
    chk.ob("R08.3", INV, q, "loops are ordered l2 in 1..L, l1 in l2..L, l in l1..L",
           lo[0].lo == P.const(1) and lo[1].lo == v2 and lo[2].lo == v1 and lo[1].hi == lo[0].hi and lo[2].hi == lo[0].hi,
           found=[f"[{x.lo},{x.hi})" for x in lo])
    chk.ob("R08.3", INV, q, "L = int(sqrt(len(coeffs))) - 1", lmax.key() == f"-1 + sqrt(len({ev.param_names[0]}))"
           or "sqrt(len(" in lmax.key() and (lmax + 1).as_atom() is not None, found=str(lmax))
    args = call[0].extra["args"]
    chk.ob("R08.3", INV, q, "invariant_P_c is called with (coeffs, l, l1, l2)",
           [x.key() for x in args[1:]] == [v0.key(), v1.key(), v2.key()], found=[str(x) for x in args])
    # triangle test dominates the call
    tri = False
    for c, pol in call[0].guards:
        ca = c.as_atom()
        if ca and ca[0] == "or" and not pol:
            ks = {x.key() for x in ca[1]}
            from ..symex import compare
            want = {compare("Gt", v1 - v2, v0).key(), compare("Lt", v1 + v2, v0).key()}
            tri = ks == want
    chk.ob("R08.3", INV, q, "the triangle condition |l1-l2| <= l <= l1+l2 guards the evaluation", tri,
           found=[f"{'' if p else 'not '}{c}" for c, p in call[0].guards][:3])
    # parity split
    app = [e for e in ev.events if e.kind == "call" and e.target is not None and e.target.key().endswith(".append")]
    par = {}
    for e in app:
        obj = e.target.as_atom()[1].as_atom()
        g = e.guards[-1]
        ga = g[0].as_atom()
        even = None
        if ga and ga[0] == "eq":
            for x, y in ((ga[1], ga[2]), (ga[2], ga[1])):
                ya = y.as_atom()
                if x == P.const(0) and ya and ya[0] == "bin" and ya[1] == "Mod" and ya[3] == P.const(2) \
                        and ya[2] == v0 + v1 + v2:
                    even = g[1]
        par[obj[1]] = even
    chk.ob("R08.3", INV, q, "l+l1+l2 even goes to the real list, odd to the imaginary list",
           par == {"even_inv": True, "odd_inv": False}, found=str(par))
    rets = ev.returns[-1].value
    ok_parts = "numpy.real(<even_inv" in rets.key() and "numpy.imag(<odd_inv" in rets.key() and "numpy.cbrt" in rets.key() \
        and "numpy.sign" in rets.key()
    chk.ob("R08.3", INV, q, "result = signed cube roots of Re(even) and Im(odd), concatenated", ok_parts, found=str(rets)[:200])

    # make_invariants: cap at a block boundary; MAX_L_MAX vs factorial table
    q = "make_invariants"
    ev = sd.ev(q)
    chk.saw(SD, q)
    maxl = None
    for e in ev.events:
        if e.kind == "assign" and e.name == "MAX_L_MAX":
            maxl = e.value.const_value()
    chk.need(maxl is not None, f"{q}: MAX_L_MAX literal not found")
    cap = None
    capguard = None
    for e in ev.events:
        if e.kind == "assign" and e.value is not None:
            for s in slices_of(e.value, ev.param_names[1]):
                cap = s[1].const_value()
                capguard = e.guards
    root = math.isqrt(int(cap)) if cap is not None else 0
    chk.ob("R08.3", SD, q, "the coefficient vector is capped at a block boundary (a perfect square)",
           cap is not None and root * root == cap, expected="(d+1)^2", found=str(cap))
    guard_ok = False
    if capguard:
        for c, pol in capguard:
            ca = c.as_atom()
            if ca and ca[0] == "lt" and pol and ca[1] == P.const(maxl) and ca[2].key() == ev.param_names[0]:
                guard_ok = True
    chk.ob("R08.3", SD, q, "the cap applies exactly when l_max exceeds MAX_L_MAX", guard_ok)
    # factorial table
    node = inv.toplevel_assign("factorial")
    chk.need(isinstance(node, ast.List), "factorial table is no longer a list literal")
    vals = []
    for elt in node.elts:
        txt = inv.seg(elt)
        vals.append(Fraction(txt))
    chk.table(f"{INV}:factorial", len(vals))
    for k, v in enumerate(vals):
        exact = Fraction(math.factorial(k))
        chk.ob("R08.3", INV, "factorial", f"factorial[{k}] equals {k}! to double precision",
               abs(v - exact) <= exact * Fraction(1, 10 ** 15), fingerprint=f"fact:{k}", expected=str(exact)[:30], found=str(v)[:30])
    eff = max(int(maxl), root - 1 if cap is not None else int(maxl))
    # largest factorial index reachable: (j1+j2+j)/2 + 1 with j's = 2*l  ->  l1 + l2 + l + 1 <= 3*L + 1
    cev = inv.ev("clebsch")
    chk.saw(INV, "clebsch")
    idxs = set()
    for e in cev.events:
        if e.value is None:
            continue
        for t in find_atoms(e.value, lambda t: t[0] == "sub" and t[1].key() == "factorial"):
            idxs.add(t[2][0])
    j1, m1, j2, m2, j, m = [P.name(x) for x in cev.param_names]
    worst = 0
    bad = []
    for ix in idxs:
        # substitute the extreme values j=j1=j2=2L, m's in -j..j ; k in 0..L  (indices are affine)
        best = None
        for mm1 in (-1, 0, 1):
            for mm2 in (-1, 0, 1):
                for kk in (0, 1):
                    sub = {j1.as_atom(): P.const(2 * eff), j2.as_atom(): P.const(2 * eff), j.as_atom(): P.const(2 * eff),
                           m1.as_atom(): P.const(2 * eff * mm1), m2.as_atom(): P.const(2 * eff * mm2),
                           m.as_atom(): P.const(2 * eff * (mm1 + mm2))}
                    val = ix.subs(sub)
                    for la in [a for a in val.atoms()]:
                        val = val.subs({la: P.const(kk * eff)})
                    c = val.const_value()
                    if c is not None and (best is None or c > best):
                        best = c
        if best is None:
            bad.append(str(ix))
        else:
            worst = max(worst, best)
    chk.ob("R08.3", INV, "clebsch", f"the largest factorial index reachable for l <= {eff} ({worst}) is inside the table "
           f"(length {len(vals)})", not bad and worst < len(vals) and worst >= 3 * eff + 1 - 1,
           expected=f"3*{eff}+1 = {3 * eff + 1} < {len(vals)}", found=f"{worst}; unresolved: {bad}")
