"""C05 — promolecule density and stockholder weights: table binding, weight formula, interpolation, geometry as squared distances."""
from __future__ import annotations

import ast
from fractions import Fraction

from ..core import AnalysisError
from ..poly import P, _mentions
from ..symex import Ev, find_atoms, call_name, seq_items
from .. import guards as G
from .c17 import index_bounds

DP = "interpolate/density.py"
DX = "interpolate/_density.pyx"
NPZ = "interpolate/thakkar_interp.npz"
BOHR = Fraction("0.5291772108")


def run(chk):
    repo = chk.repo
    dp = repo.module(DP)
    dx = repo.module(DX)
    chk.explanation = ("density.py and _density.pyx: range guard and row/atom alignment of the density table, the weight as a "
                       "rational normal form in both paths, the interpolation kernels as guarded normal forms (convex combination "
                       "of neighbouring entries) compared batch vs single-point, positions entering only through the squared "
                       "distance in bohr^2 with one conversion constant, accumulation over atoms; thorough tier: the shipped table "
                       "(rows, uniform spacing, positivity).")
    chk.rule("R05.1", "table binding: row el-1 of the table is guarded by 1 <= el <= 103 and bound to the same atom as its position", 5)
    chk.rule("R05.2", "the weight is a / (a + b + background) in the batch and the single-point path; the Python wrappers forward points and background unchanged", 6)
    chk.rule("R05.3", "interpolation is a convex combination of neighbouring table entries with end fills; batch and single-point kernels agree", 8)
    chk.rule("R05.4", "geometry enters only as the squared distance between point and atom, divided by bohr^2 (same constant at both sites)", 4)
    chk.rule("R05.5", "the density is accumulated additively over atoms; an atom's table row and position share the loop index", 4)
    if chk.tier == "thorough":
        chk.rule("T05", "shipped table: 103 rows over the domain, uniform domain spacing, strictly positive entries", 4)
    if chk.want("R05.1"):
        r05_1(chk, dp, dx)
    if chk.want("R05.2"):
        r05_2(chk, dx, dp)
        r05_2_wrappers(chk, dp)
    if chk.want("R05.3"):
        r05_3(chk, dx)
    if chk.want("R05.4") or chk.want("R05.5"):
        r05_45(chk, dx)
    chk.rule("R05.8", "interior and exterior keep their roles at the library's own construction site of a stockholder weight "
                      "(stockholder_weight_descriptor: = C09 R09.2 weight-roles)", 1)
    if chk.want("R05.8"):
        from ..inherit import inherit
        inherit(chk, "R05.8", "c09", ["R09.2"], fingerprints=lambda f: "weight-roles" in f)
    chk.rule("R05.7", "the atoms of from_xyz_file / from_xyz_files are the file's atoms: the XYZ reader hands on the collected elements and the parsed "
                      "coordinates unchanged, and the constructors pass them to the density unchanged (= C16 R16.4 reader clauses)", 2)
    if chk.want("R05.7"):
        from ..inherit import inherit
        n = inherit(chk, "R05.7", "c16", ["R16.4"], functions={"parse_xyz_string"})
        fx = dp.ev("PromoleculeDensity.from_xyz_file")
        chk.saw(DP, "PromoleculeDensity.from_xyz_file")
        import re
        rets = [re.sub(r"_it#\d+", "_it", r.value.key()) for r in fx.returns if r.value is not None]
        fname = fx.param_names[1]
        src = f"chmpy.fmt.xyz_file.parse_xyz_file({fname})"
        from ..symex import seq_items
        chk.need(len(fx.returns) == 1 and fx.returns[0].value.as_atom() and fx.returns[0].value.as_atom()[0] == "call" and len(fx.returns[0].value.as_atom()[2]) == 1,
                 "PromoleculeDensity.from_xyz_file: the constructor call cls((elements, positions)) was not found")
        pair = seq_items(fx.returns[0].value.as_atom()[2][0])
        chk.need(pair and len(pair) == 2, "PromoleculeDensity.from_xyz_file: cls(...) is not handed an (elements, positions) pair")
        ek = re.sub(r"_it#\d+", "_it", pair[0].key())
        chk.ob("R05.7", DP, "PromoleculeDensity.from_xyz_file", "the positions handed to the density are the file's coordinates as parsed",
               pair[1].key() == f"{src}[1]", fingerprint="xyz-ctor:positions", expected=f"{src}[1]", found=str(pair[1])[:160])
        chk.ob("R05.7", DP, "PromoleculeDensity.from_xyz_file", "the atomic numbers are those of the file's elements in file order",
               f"{src}[0][_it].atomic_number" in ek and f"(iter {src}[0] ())" in ek and "sorted" not in ek and "unique" not in ek,
               fingerprint="xyz-ctor:elements", found=ek[:200])
        if "StockholderWeight.from_xyz_files" in dp.funcs:
            # the pair constructor: interior from the first file, exterior from the second (a copy-paste slip reads one file twice)
            fv = dp.ev("StockholderWeight.from_xyz_files")
            chk.saw(DP, "StockholderWeight.from_xyz_files")
            f1, f2 = fv.param_names[1], fv.param_names[2]
            okp, foundp = bool(fv.returns), None
            for r_ in fv.returns:
                a_ = r_.value.as_atom() if r_.value is not None else None
                args_ = a_[2] if a_ and a_[0] == "call" else ()
                good = len(args_) >= 2 and args_[0].key().endswith(f".from_xyz_file({f1})") and args_[1].key().endswith(f".from_xyz_file({f2})")
                if not good:
                    okp, foundp = False, foundp or str(r_.value)[:160]
            chk.ob("R05.7", DP, "StockholderWeight.from_xyz_files", "the interior density is read from the first file and the exterior density from the second",
                   okp, fingerprint="xyz-pair", expected=f"cls(from_xyz_file({f1}), from_xyz_file({f2}))", found=foundp)
    if chk.tier == "thorough" and chk.want("T05"):
        t05(chk, repo)
    chk.assume("float32 rounding, the numerical agreement with the tabulated densities and values within 0.3 A of a nucleus are not decided")
    chk.assume("the installed _density .so may lag the .pyx source (Cython is not available to rebuild)")


def r05_1(chk, dp, dx):
    q = "PromoleculeDensity.__init__"
    ev = dp.ev(q)
    chk.saw(DP, q)
    # per-atom rows: a loop that copies one table row per atom (into self.rho_data, into a local buffer that becomes self.rho_data, or
    # through the rows of zip(self.rho_data, self.elements)), or one gather _RHO[self.elements - 1]
    st = [e for e in ev.events if e.kind == "store" and e.loops and e.value is not None and e.value.as_atom() and e.value.as_atom()[0] == "sub"
          and e.value.as_atom()[1].key() == "_RHO"]
    final = [e for e in ev.events if e.kind == "store" and e.target.key() == "self.rho_data"]
    if not st:
        # vectorised form: the per-atom rows must be _RHO[self.elements - 1] (row i <-> atom i); anything that reorders or
        # groups the rows (unique / repeat / sort) detaches a row from the position it is paired with in the kernel
        whole = [e for e in final if "_RHO" in e.value.key()]
        chk.need(len(whole) == 1, f"{q}: table row store not found")
        e = whole[0]
        v = e.value
        while True:
            a = v.as_atom()
            if a and a[0] == "call" and call_name(a) in ("numpy.ascontiguousarray", "numpy.asarray", "numpy.array", ".astype", ".copy", "numpy.copy", ".reshape"):
                v = a[2][0] if not call_name(a).startswith(".") else a[1].as_atom()[1]
                continue
            break
        a = v.as_atom()
        okv = bool(a and a[0] == "sub" and a[1].key() == "_RHO" and a[2][0].key() == "-1 + self.elements" and
                   all(x.key() == "(slice None None None)" for x in a[2][1:]))
        chk.ob("R05.1", DP, q, "row i of the per-atom table is the table row of element i (same enumerate index)", okv, node=e.node,
               expected="_RHO[self.elements - 1] (one row per atom, in atom order)", found=str(e.value)[:200])
        gk = " ".join(c.key() for c, pol in e.guards if not pol)
        chk.ob("R05.1", DP, q, "the element number is guarded to 1..103 before it indexes the table",
               "(lt 103 self.elements)" in gk and "(lt self.elements 1)" in gk, node=e.node, fingerprint="guard", found=gk[:200])
    else:
        chk.need(len(st) == 1, f"{q}: table row store not found")
        e = st[0]
        loop = e.loops[-1]
        t = e.target.as_atom()
        src = e.value.as_atom()
        idx = src[2][0]
        el = idx + 1
        # which row of which buffer receives the table row of which atom?
        base, row = t[1], t[2][0]
        ba = base.as_atom()
        if ba and ba[0] == "obj":
            from ..symex import obj_init
            base = obj_init(base)
            ba = base.as_atom()
        if ba and ba[0] == "sub" and all(x.key() == "(slice None None None)" for x in t[2]):
            base, row = ba[1], ba[2][0]             # row[:] = ...  with row an element of the buffer
        ela = el.as_atom()
        el_idx = ela[2][0] if ela and ela[0] == "sub" and ela[1].key() == "self.elements" and len(ela[2]) == 1 else None
        same = el_idx is not None and row.key() == el_idx.key()
        covers = loop.iter is not None and ("self.elements" in loop.iter.key())
        from ..symex import obj_init as _oi
        is_table = base.key() == "self.rho_data" or any(f.value.key() == base.key() or _oi(f.value).key() == base.key() or _oi(f.value).key() == _oi(t[1]).key()
                                                        for f in final)
        chk.ob("R05.1", DP, q, "row i of the per-atom table is the table row of element i (same enumerate index)",
               same and covers and is_table, node=e.node, found=f"{base}[{row}] = _RHO[{idx}] in a loop over {loop.iter}"[:200])
        lo, hi = index_bounds(idx, e.guards, {})
        if not (lo >= 0 and hi <= 102):
            gk = " ".join(c.key() for c, pol in e.guards if not pol)
            if "(lt 103 self.elements)" in gk and "(lt self.elements 1)" in gk:
                lo, hi = 0, 102             # a whole-array test np.any((e < 1) | (e > 103)) guards every element
        chk.ob("R05.1", DP, q, "the element number is guarded to 1..103 before it indexes the table", lo >= 0 and hi <= 102, node=e.node,
               fingerprint="guard", expected="0 <= el - 1 <= 102", found=f"[{lo}, {hi}]")
    # the range test rejects exactly what is outside the table: an element is refused when el < 1 OR el > 103, nothing else (a test that
    # needs both, or that cuts off hydrogen / the heaviest rows, refuses or admits the wrong atoms)
    rz = [e for e in ev.events if e.kind == "raise" and e.guards]
    if rz:
        def bounds_of(c, pol):
            """the set {('lo', k), ('hi', k)} of a disjunction  any(el < k) or any(el > k)  that leads to the raise"""
            if not pol:
                return None
            parts, todo = [], [c]
            while todo:
                t = todo.pop()
                ta = t.as_atom()
                if ta and ta[0] == "or":
                    todo.extend(ta[1])
                elif ta and ta[0] == "bin" and ta[1] == "BitOr":
                    todo.extend((ta[2], ta[3]))
                elif ta and ta[0] == "call" and call_name(ta) in ("numpy.any", ".any", "any", "numpy.logical_or"):
                    if call_name(ta) == "numpy.logical_or":
                        todo.extend(ta[2][:2])
                    else:
                        todo.append(ta[2][0] if ta[2] else ta[1].as_atom()[1])
                else:
                    parts.append(t)
            out = set()
            for p_ in parts:
                inner = p_.as_atom()
                if not (inner and inner[0] in ("lt", "le")):
                    return None
                l, r = inner[1], inner[2]
                if r.const_value() is not None and "elements" in l.key():
                    out.add(("lo", int(r.const_value()) + (1 if inner[0] == "le" else 0)))         # el < k  /  el <= k-1
                elif l.const_value() is not None and "elements" in r.key():
                    out.add(("hi", int(l.const_value()) - (1 if inner[0] == "le" else 0)))         # k < el
                else:
                    return None
            return out
        got = [bounds_of(c, pol) for e in rz for c, pol in e.guards[-1:]]
        chk.ob("R05.1", DP, q, "an atom is refused exactly when its number is below 1 or above 103 (either condition alone suffices, and no valid "
               "element is refused)", any(g == {("lo", 1), ("hi", 103)} for g in got if g is not None), node=rz[0].node, fingerprint="range-exact",
               expected="raise if any(el < 1) or any(el > 103)", found=str(rz[0].guards[-1][0])[:160])
    calls = [c for c in ev.events if c.kind == "call" and "cPromol" in (call_name(c.value.as_atom() or ()) or "") or
             (c.kind == "call" and (call_name(c.value.as_atom() or ()) or "").endswith("PromoleculeDensity"))]
    chk.need(calls, f"{q}: construction of the compiled density not found")
    a = calls[0].extra["args"]
    chk.ob("R05.1", DP, q, "the compiled object receives (positions, domain, per-atom rows) in that order",
           len(a) == 3 and a[0].key() == "self.positions" and a[1].key() == "_DOMAIN" and
           (a[2].key() == "self.rho_data" or any(f.value.key() == a[2].key() for f in final)),
           found=[str(x) for x in a])
    cv = dx.ev("PromoleculeDensity.__init__")
    stc = {x.target.key(): x.value.key() for x in cv.events if x.kind == "store"}
    pn = cv.param_names
    chk.ob("R05.1", DX, "PromoleculeDensity.__init__", "the compiled constructor stores positions, domain and rows under their own names",
           stc.get("self.positions") == pn[1] and stc.get("self.domain") == pn[2] and stc.get("self.rho_data") == pn[3], found=str(stc))
    conv = {x.target.key(): x.value.key() for x in ev.events if x.kind == "store"}
    chk.ob("R05.1", DP, q, "elements and positions are taken from the (numbers, positions) pair in that order",
           "mol[0]" in conv.get("self.elements", "") and "mol[1]" in conv.get("self.positions", ""), found=str({k: v for k, v in conv.items() if k in ("self.elements", "self.positions")}))


def r05_2(chk, dx, dp):
    ev = dx.ev("StockholderWeight.weights")
    chk.saw(DX, "StockholderWeight.weights")
    pos = P.name(ev.param_names[1])
    a = P.atom(("call", P.atom(("attr", P.atom(("attr", P.name("self"), "dens_a")), "rho")), (pos,)))
    b = P.atom(("call", P.atom(("attr", P.atom(("attr", P.name("self"), "dens_b")), "rho")), (pos,)))
    bg = P.atom(("attr", P.name("self"), "background"))
    want = a / (a + b + bg)
    chk.ob("R05.2", DX, "StockholderWeight.weights", "weights = rho_a / (rho_a + rho_b + background)", ev.returns[-1].value == want,
           expected=str(want), found=str(ev.returns[-1].value))
    ev = dx.ev("StockholderWeight.one_weight")
    chk.saw(DX, "StockholderWeight.one_weight")
    pos = P.name(ev.param_names[1])
    a = P.atom(("call", P.atom(("attr", P.atom(("attr", P.name("self"), "dens_a")), "one_rho")), (pos,)))
    b = P.atom(("call", P.atom(("attr", P.atom(("attr", P.name("self"), "dens_b")), "one_rho")), (pos,)))
    want = a / (a + b + bg)
    chk.ob("R05.2", DX, "StockholderWeight.one_weight", "one_weight = rho_a / (rho_a + rho_b + background)", ev.returns[-1].value == want,
           expected=str(want), found=str(ev.returns[-1].value))
    pv = dp.ev("StockholderWeight.__init__")
    okw = any(e.kind == "store" and e.target.key() == "self.s" and "dens_a.dens" in e.value.key() and "dens_b.dens" in e.value.key()
              and e.value.key().index("dens_a.dens") < e.value.key().index("dens_b.dens") and "background=background" in e.value.key()
              for e in pv.events)
    chk.ob("R05.2", DP, "StockholderWeight.__init__", "the compiled weight receives (interior, exterior, background) in that order", okw)


def kernel_cases(ev, xatom: P, out_is_store: bool):
    """[(guard signature, value)] of an interpolation kernel with $j and $t kept opaque."""
    cases = []
    evs = [e for e in ev.events if (e.kind == "store" and "y[" in e.target.key())] if out_is_store else list(ev.returns)
    for e in evs:
        g = tuple(sorted(f"{'' if pol else 'not '}{c}" for c, pol in e.guards if "$j" in c.key()))
        cases.append((g, e.value, e))
    return cases


def r05_3(chk, dx):
    kb = dx.ev("interp_f", opaque={"j", "t"})
    ks = dx.ev("interp_f_one", opaque={"j", "t"})
    chk.saw(DX, "interp_f")
    chk.saw(DX, "interp_f_one")
    results = {}
    xs = kb.param_names[0]
    pl = [l for l in kb.all_loops if l.kind == "range"]
    chk.ob("R05.3", DX, "interp_f", "the batch kernel fills one output value per abscissa: its loop runs over 0 .. x.shape[0]", len(pl) == 1 and
           pl[0].lo == P.const(0) and pl[0].hi is not None and pl[0].hi.key() == f"{xs}.shape[0]", fingerprint="batch:all-abscissae",
           found=[f"[{l.lo}, {l.hi})" for l in pl])
    for name, ev, store in (("interp_f", kb, True), ("interp_f_one", ks, False)):
        defs = {k[1]: v for k, v in ev.defs.items()}
        x = P.atom(("sub", P.name("x"), (ev.all_loops[0].index,))) if store else P.name("x")
        xi, yi = P.name("xi"), P.name("yi")
        inv_dx = 1 / (P.atom(("sub", xi, (P.const(1),))) - P.atom(("sub", xi, (P.const(0),))))
        jd, td = defs.get("j"), defs.get("t")
        J, T = P.atom(("local", "j", 0)), P.atom(("local", "t", 0))
        chk.ob("R05.3", DX, name, "the cell index is floor-like int(inv_dx * (x - xi[0])) with inv_dx = 1/(xi[1]-xi[0])",
               jd is not None and jd == inv_dx * (x - P.atom(("sub", xi, (P.const(0),)))) and
               (ev.ctypes.get("j") or "").strip() == "int", fingerprint=f"{name}:j", expected=str(inv_dx * (x - P.atom(("sub", xi, (P.const(0),))))),
               found=f"{jd} (C type {ev.ctypes.get('j')})")
        chk.ob("R05.3", DX, name, "t = (x - xi[j]) * inv_dx", td is not None and td == (x - P.atom(("sub", xi, (J,)))) * inv_dx,
               fingerprint=f"{name}:t", found=str(td))
        cases = kernel_cases(ev, x, store)
        chk.need(len(cases) == 3, f"{name}: expected three interpolation cases, found {len(cases)}")
        ni = P.atom(("sub", P.atom(("attr", xi, "shape")), (P.const(0),)))
        sig = {}
        for g, v, e in cases:
            gs = " & ".join(g)
            # guards are in the engine's canonical orientation (j <= 0 is `not (0 < j)`, j >= n-1 is `not (j < n-1)`)
            if gs == "not (lt 0 $j)":
                sig["low"] = v
            elif gs == f"(lt 0 $j) & not (lt $j -1 + {ni})":
                sig["high"] = v
            elif gs == f"(lt $j -1 + {ni}) & (lt 0 $j)":
                sig["mid"] = v
        chk.need(set(sig) == {"low", "high", "mid"}, f"{name}: guards of the three cases not recognised: {[c[0] for c in cases]}")
        yj, yj1 = P.atom(("sub", yi, (J,))), P.atom(("sub", yi, (J + 1,)))
        chk.ob("R05.3", DX, name, "inside the table the value is (1 - t) * yi[j] + t * yi[j+1]", sig["mid"] == (1 - T) * yj + T * yj1,
               fingerprint=f"{name}:mid", expected=str((1 - T) * yj + T * yj1), found=str(sig["mid"]))
        chk.ob("R05.3", DX, name, "below the table the first entry is returned", sig["low"].key() == "yi[0]", fingerprint=f"{name}:low",
               found=str(sig["low"]))
        results[name] = sig
    hb, hs = results["interp_f"]["high"], results["interp_f_one"]["high"]
    last = P.atom(("sub", P.name("yi"), (P.atom(("sub", P.atom(("attr", P.name("xi"), "shape")), (P.const(0),))) - 1,)))
    chk.ob("R05.3", DX, "interp_f", "above the table the batch kernel returns the last entry", hb == last, found=str(hb))
    chk.ob("R05.3", DX, "interp_f_one", "above the table the single-point kernel returns what the batch kernel returns (the last entry): with 0.0 the "
           "single-point density vanishes exactly beyond the table, the single-point weight becomes 0/0 and the root finder sees a sign change there",
           hs == hb, fingerprint="ufill", expected=str(hb), found=str(hs))


def sq_dist_form(term: P, pt, atom_pos):
    """term == c * sum_k (pt_k - atom_k)^2 ; returns c or None."""
    s = P.const(0)
    for k in range(3):
        d = pt(k) - atom_pos(k)
        s = s + d * d
    try:
        ratio = term / s
    except ZeroDivisionError:
        return None
    return ratio.const_value()


def r05_45(chk, dx):
    q = "PromoleculeDensity.evaluate_rho"
    ev = dx.ev(q)
    chk.saw(DX, q)
    rs = [e for e in ev.events if e.kind == "store" and e.target.key().startswith("r_view[")]
    chk.need(rs, f"{q}: distance store not found")
    e = rs[-1]
    i = e.loops[0].index
    j = e.loops[1].index
    pts = P.name(ev.param_names[1])
    pos = P.atom(("attr", P.name("self"), "positions"))
    c1 = sq_dist_form(e.value, lambda k: P.atom(("sub", pts, (j, P.const(k)))), lambda k: P.atom(("sub", pos, (i, P.const(k)))))
    call = [c for c in ev.events if c.kind == "call" and call_name(c.value.as_atom() or ()) == "interp_f"]
    chk.need(len(call) == 1, f"{q}: interp_f call not found")
    a = call[0].extra["args"]
    if chk.want("R05.4"):
        chk.ob("R05.4", DX, q, "the interpolation abscissa is |point - atom|^2 / bohr^2 and nothing else", c1 == 1 / (BOHR * BOHR),
               node=e.node, fingerprint="batch:r2", expected=f"sum_k (pts[j,k]-pos[i,k])^2 / {BOHR}^2", found=f"factor {c1}; {str(e.value)[:120]}")
        chk.ob("R05.4", DX, q, "the kernel is fed that abscissa array, the domain and the atom's own table row",
               a[0].key() == "r_view" and a[1].key() == "self.domain" and a[2].key() == f"self.rho_data[{i}]" and a[3].key() == "tmp_view",
               fingerprint="batch:args", found=[str(x) for x in a])
    if chk.want("R05.5"):
        acc = [x for x in ev.events if x.kind == "aug" and x.target.key().startswith("rho_view[")]
        okacc = len(acc) == 1 and acc[0].op == "Add" and acc[0].value.key() == f"tmp_view[{acc[0].loops[-1].index}]" and \
            acc[0].target.key() == f"rho_view[{acc[0].loops[-1].index}]" and acc[0].loops[0].k == e.loops[0].k
        chk.ob("R05.5", DX, q, "each atom's contribution is added to the running density of every point (no cross-atom term)", okacc,
               found=f"{acc[0].target} += {acc[0].value}" if acc else None)
        chk.ob("R05.5", DX, q, "the atom loop covers every atom and the point loops every point",
               e.loops[0].hi.key() == "self.positions.shape[0]" and e.loops[1].hi.key() == "pts.shape[0]" and e.loops[0].lo == P.const(0),
               found=f"{e.loops[0].hi} / {e.loops[1].hi}")
        # ... also the loop that adds the atom's contribution, and the three work arrays have one entry per point
        chk.ob("R05.5", DX, q, "the accumulation runs over every point (0 .. number of points)", len(acc) == 1 and acc[0].loops[-1].lo == P.const(0)
               and acc[0].loops[-1].hi is not None and acc[0].loops[-1].hi.key() == "pts.shape[0]", fingerprint="accumulate-all-points",
               found=f"[{acc[0].loops[-1].lo}, {acc[0].loops[-1].hi})" if acc else None)
        rv = dx.ev("PromoleculeDensity.rho")
        zeros = [x.value for x in rv.events if x.kind == "assign" and x.name == "rho" and "numpy.zeros" in x.value.key()]
        ecall = [x for x in rv.events if x.kind == "call" and call_name(x.value.as_atom() or ()) == ".evaluate_rho"]
        okz = bool(zeros) and bool(ecall) and len(ecall[0].extra["args"]) == 4 and ecall[0].extra["args"][1].key() == zeros[0].key() \
            and rv.returns[-1].value.key() == zeros[0].key() and ecall[0].extra["args"][0].key() == rv.param_names[1]
        chk.ob("R05.5", DX, "PromoleculeDensity.rho", "the accumulator starts at zero and is what gets returned", okz)
        npts_ = f"{rv.param_names[1]}.shape[0]"
        sizes = [x.value.as_atom()[3].as_atom()[2][0].key() if x.value.as_atom() and x.value.as_atom()[0] == "obj" else x.value.as_atom()[2][0].key()
                 for x in rv.events if x.kind == "assign" and x.value is not None and ("numpy.zeros(" in x.value.key() or "numpy.empty(" in x.value.key())]
        chk.ob("R05.5", DX, "PromoleculeDensity.rho", "the result and the work arrays have one entry per point", len(sizes) >= 1 and all(z == npts_ for z in sizes),
               fingerprint="one-entry-per-point", expected=npts_, found=sizes)
    q = "PromoleculeDensity.one_rho"
    ev = dx.ev(q, opaque={"r"})
    chk.saw(DX, q)
    rdefs = [v for k, v in sorted(ev.defs.items(), key=lambda kv: kv[0][2]) if k[1] == "r"]
    # chain r'0 = 0, r'k = r'(k-1) + diff^2, last = previous / c^2 : resolve the chain
    full = rdefs[-1]
    for _ in range(8):
        sub = {k: v for k, v in ev.defs.items() if k[1] == "r" and _mentions(full, k)}
        if not sub:
            break
        full = full.subs({k: v for k, v in sub.items()})
    position = P.name(ev.param_names[1])
    loop = ev.all_loops[0] if ev.all_loops else None
    i = [l for l in ev.all_loops if l.kind == "range"][0].index
    pos = P.atom(("attr", P.name("self"), "positions"))
    c2 = sq_dist_form(full, lambda k: P.atom(("sub", position, (P.const(k),))), lambda k: P.atom(("sub", pos, (i, P.const(k)))))
    call = [c for c in ev.events if c.kind == "call" and call_name(c.value.as_atom() or ()) == "interp_f_one"]
    chk.need(len(call) == 1, f"{q}: interp_f_one call not found")
    a = call[0].extra["args"]
    if chk.want("R05.4"):
        chk.ob("R05.4", DX, q, "the single-point abscissa is |point - atom|^2 / bohr^2 with the same constant as the batch path",
               c2 == 1 / (BOHR * BOHR) and c2 == c1, fingerprint="single:r2", expected=f"1/{BOHR}^2", found=f"factor {c2} (batch {c1})")
        chk.ob("R05.4", DX, q, "the kernel is fed that abscissa, the domain and the atom's own table row",
               a[0].as_atom() is not None and a[0].as_atom()[0] == "local" and a[1].key() == "self.domain" and a[2].key() == f"self.rho_data[{i}]",
               fingerprint="single:args", found=[str(x) for x in a])
    if chk.want("R05.5"):
        nloop = [l for l in ev.all_loops if l.kind == "range"][0]
        chk.ob("R05.5", DX, q, "the single-point sum runs over every atom", nloop.lo == P.const(0) and nloop.hi is not None and nloop.hi.key() == "self.positions.shape[0]",
               fingerprint="single:all-atoms", found=f"[{nloop.lo}, {nloop.hi})")
        acc = [x for x in ev.events if x.kind == "assign" and x.name == "rho" and x.extra.get("aug") == "Add"]
        chk.ob("R05.5", DX, q, "the single-point density is the sum over atoms of the interpolated values, starting from zero",
               len(acc) == 1 and acc[0].extra["delta"].key() == call[0].value.key() and acc[0].extra["old"].as_atom()[3] == P.const(0),
               found=str(acc[0].extra["delta"])[:100] if acc else None)


def t05(chk, repo):
    import numpy as np
    path = repo.path(NPZ)
    repo.read_log.append(NPZ)
    z = np.load(path)
    dom, rho = z["domain"], z["rho"]
    chk.table(NPZ, int(rho.shape[0]))
    chk.ob("T05", NPZ, "rho", "103 rows, one per element, each as long as the domain", rho.shape == (103, dom.shape[0]), found=str(rho.shape))
    d = np.diff(dom.astype(np.float64))
    chk.ob("T05", NPZ, "domain", "the domain is uniformly spaced to float32 precision (the kernel assumes it)",
           bool(np.all(d > 0) and np.max(np.abs(d - d[0])) <= 4e-7 * max(1.0, float(np.abs(dom).max()))), found=f"spacing {d.min()}..{d.max()}")
    chk.ob("T05", NPZ, "rho", "every tabulated density is strictly positive (so sums and weights are positive)", bool((rho > 0).all()),
           found=f"min {float(rho.min())}")
    mono = bool(np.all(np.diff(rho[:, : rho.shape[1] // 1], axis=1)[:, -10:] <= 0))
    chk.ob("T05", NPZ, "rho", "the tail of every row decays (interpolation beyond the table falls back to a tiny value)", mono)


def _blocked_delegation(ev, inner, pos, casts):
    """The block-wise spelling of a straight delegation:

        out = np.zeros(N);  for s in range(0, N, B): out[s:s+B] = inner(P[s:s+B])      (or min(s + B, N) as the upper end; or
        for i in range(ceil(N / B)): out[i*B:(i+1)*B] = inner(P[i*B:(i+1)*B]))

    with P the positions (or their float32 cast) and N their number.  The slices [s, s+B) for s = 0, B, 2B, ... tile [0, N) (numpy clips the
    last one), the same slice is read and written, so out == inner(P).  Every return is that array or the straight delegation itself."""
    P_ok = set(casts) | {pos}
    lens = set()
    for x in P_ok:
        lens |= {f"len({x})", f"{x}.shape[0]", f"{x}.size"}
    outs = {}
    for e in ev.events:
        if e.kind == "assign" and e.value is not None and e.value.as_atom() and e.value.as_atom()[0] == "obj":
            i = e.value.as_atom()[3].as_atom()
            if i and i[0] == "call" and call_name(i) in ("numpy.zeros", "numpy.empty") and i[2] and i[2][0].key() in lens:
                outs[e.value.key()] = i[2][0]
    if len(outs) != 1:
        return False
    (okey, N), = outs.items()
    stores = [e for e in ev.events if e.kind in ("store", "aug") and e.target.as_atom() and e.target.as_atom()[0] == "sub" and e.target.as_atom()[1].key() == okey]
    if len(stores) != 1 or stores[0].kind != "store" or len(stores[0].loops) != 1 or stores[0].loops[0].kind != "range":
        return False
    st, lp = stores[0], stores[0].loops[0]
    sl = st.target.as_atom()[2]
    if len(sl) != 1 or not (sl[0].as_atom() and sl[0].as_atom()[0] == "slice" and sl[0].as_atom()[3].key() == "None"):
        return False
    lo, hi = sl[0].as_atom()[1], sl[0].as_atom()[2]
    va = st.value.as_atom()
    if not (va and va[0] == "call" and va[1].key() == inner and len(va[2]) == 1 and not (len(va) > 3 and va[3])):
        return False
    arg = va[2][0].as_atom()
    if not (arg and arg[0] == "sub" and arg[1].key() in P_ok and len(arg[2]) == 1 and arg[2][0].key() == sl[0].key()):
        return False
    i = lp.index
    B = None
    if lp.lo == P.const(0) and lp.hi is not None and lp.hi.key() == N.key() and lp.step is not None and lp.step.const_value() and lp.step.const_value() > 0:
        # for s in range(0, N, B)
        B = lp.step
        if not (lo.key() == i.key() and (hi == i + B or hi.key() in (f"min({i + B}, {N})", f"min({N}, {i + B})"))):
            return False
    elif lp.lo == P.const(0) and lp.step == P.const(1):
        # for k in range(ceil(N / B)): [k*B, (k+1)*B)
        Bc = (hi - lo).const_value()
        if not Bc or Bc <= 0 or not (lo == i * P.const(Bc)):
            return False
        ceil_forms = {f"-(bin FloorDiv -{N} {Bc})", f"(bin FloorDiv {N + (Bc - 1)} {Bc})", f"(bin FloorDiv {(N + (Bc - 1))} {Bc})"}
        if lp.hi is None or lp.hi.key() not in ceil_forms:
            return False
    else:
        return False
    for r in ev.returns:
        if r.value is None or not (r.value.key() == okey or r.value.key() in {f"{inner}({c})" for c in P_ok}):
            return False
    return True


def r05_2_wrappers(chk, dp):
    """The Python wrappers hand positions and background to the compiled object unchanged."""
    casts = lambda p: {p, f"{p}.astype(numpy.float32)", f"numpy.asarray({p}, dtype=numpy.float32)", f"numpy.array({p}, dtype=numpy.float32)",
                       f"numpy.ascontiguousarray({p}, dtype=numpy.float32)"}
    for cls, meth, inner in [("StockholderWeight", "weights", "self.s.weights"), ("PromoleculeDensity", "rho", "self.dens.rho")]:
        q = f"{cls}.{meth}"
        if q not in dp.funcs:
            continue
        ev = dp.ev(q)
        chk.saw(DP, q)
        pos = ev.param_names[1]
        r = ev.returns.pick(-1).value          # every exit is examined below (directly, or by _blocked_delegation)
        forms = {f"{inner}({c})" for c in casts(pos)}
        ok = r.key() in forms and all(x.value is not None and x.value.key() in forms for x in ev.returns)
        if not ok and cls == "StockholderWeight":
            for c in casts(pos):
                try:
                    args_seen = {x[2][0].key(): x[2][0] for x in find_atoms(r, lambda t: t[0] == "call" and call_name(t) == ".rho" and t[2])}
                    for ak, av in args_seen.items():
                        if ak not in casts(pos):
                            continue
                        a = P.atom(("call", P.atom(("attr", P.atom(("attr", P.name("self"), "dens_a")), "rho")), (av,)))
                        b = P.atom(("call", P.atom(("attr", P.atom(("attr", P.name("self"), "dens_b")), "rho")), (av,)))
                        bg = P.atom(("attr", P.name("self"), "background"))
                        ok = ok or r == a / (a + b + bg)
                except Exception:
                    pass
        if not ok:
            ok = _blocked_delegation(ev, inner, pos, casts(pos))
        chk.ob("R05.2", DP, q, f"the wrapper returns the compiled result for the given points unchanged ({inner}(points))", ok,
               node=ev.returns.pick(-1).node, fingerprint="forward", expected=f"{inner}({pos}.astype(float32))", found=str(r)[:200])
    q = "StockholderWeight.from_arrays"
    ev = dp.ev(q)
    chk.saw(DP, q)
    fn = dp.func(q)
    call = [e for e in ev.events if e.kind == "call" and e.value.as_atom() and e.value.as_atom()[0] == "call" and e.value.as_atom()[1].key() == ev.param_names[0]]
    chk.need(len(call) == 1, f"{q}: constructor call not found")
    a = call[0].value.as_atom()
    kw = dict(a[3]) if len(a) > 3 else {}
    n1, p1, n2, p2 = ev.param_names[1:5]
    okpos = len(a[2]) == 2 and a[2][0].key() == f"PromoleculeDensity((tuple ({n1} {p1})))" and a[2][1].key() == f"PromoleculeDensity((tuple ({n2} {p2})))"
    chk.ob("R05.2", DP, q, "interior = (n1, p1), exterior = (n2, p2), in that order", okpos, node=call[0].node, fingerprint="order",
           found=[str(x) for x in a[2]])
    vk = fn.args.kwarg.arg if fn.args.kwarg else None
    okbg = (vk is not None and kw.get("**") is not None and kw["**"].key() == vk) or \
        ("background" in kw and kw["background"].key() == "background" and "background" in ev.param_names)
    chk.ob("R05.2", DP, q, "a background density given by the caller reaches the constructor", okbg, node=call[0].node, fingerprint="background",
           expected="cls(..., **kwargs) or background=background", found=str({k: str(v) for k, v in kw.items()}))
    # ... and when the caller gave none, the constructor's own default applies: the keyword mapping is forwarded as received (no
    # setdefault / update / item store puts a background into it), and a named `background` parameter has the constructor's default
    touched = []
    if vk is not None:
        for e in ev.events:
            if e.kind == "call" and e.target is not None and e.target.key() in (f"{vk}.setdefault", f"{vk}.update", f"{vk}.__setitem__"):
                a0 = (e.extra.get("args") or [None])[0]
                if not (e.target.key() != f"{vk}.update" and a0 is not None and a0.as_atom() and a0.as_atom()[0] == "str" and a0.as_atom()[1] != "background"):
                    touched.append(str(e.value)[:80])
            if e.kind in ("store", "aug") and e.target is not None and e.target.key().startswith(f"{vk}[") and not (
                    e.target.as_atom()[2][0].as_atom() and e.target.as_atom()[2][0].as_atom()[0] == "str" and e.target.as_atom()[2][0].as_atom()[1] != "background"):
                touched.append(str(e.target)[:40] + " = " + str(e.value)[:40])
            if e.kind == "assign" and e.name == vk:
                touched.append(f"{vk} = {str(e.value)[:60]}")
    def _default(fnode, name):
        names = [a.arg for a in fnode.args.args]
        if name in names:
            i = names.index(name) - (len(names) - len(fnode.args.defaults))
            return ast.dump(fnode.args.defaults[i]) if i >= 0 else None
        for a, d in zip(fnode.args.kwonlyargs, fnode.args.kw_defaults):
            if a.arg == name:
                return ast.dump(d) if d is not None else None
        return "<absent>"
    init = dp.func("StockholderWeight.__init__")
    d_init, d_here = _default(init, "background"), _default(fn, "background")
    same_default = d_here == "<absent>" or d_here == d_init
    chk.ob("R05.2", DP, q, "when the caller names no background the constructor's own default applies (the forwarded keywords are not given one, "
           "and a named background parameter has the constructor's default)", not touched and same_default, node=call[0].node,
           fingerprint="background-default", expected="kwargs forwarded as received", found=touched or [d_here, d_init])
