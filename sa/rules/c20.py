"""C20 — quasi-random sequences: batch = single kernels, range by construction, determinism, direction numbers, front end."""
from __future__ import annotations

import ast

from ..core import AnalysisError
from ..poly import P
from ..symex import Ev, find_atoms, call_name, seq_items, obj_init
from .generic import string_value, dict_items

SB = "sampling/_sobol.pyx"
LD = "sampling/_lds.pyx"
FE = "sampling/__init__.py"
NPZ = "sampling/_sobol_parameters.npz"


def run(chk):
    repo = chk.repo
    sb = repo.module(SB)
    ld = repo.module(LD)
    fe = repo.module(FE)
    chk.explanation = ("sampling/: the single-point and batch Sobol kernels are summarised as array updates and compared after N -> end; "
                       "output indices are affine in the seed; C types give the range of the scaled integers; no global is written and no "
                       "random source is used; the Joe-Kuo table is checked row by row (m_k odd, m_k < 2^k) which makes every generator "
                       "matrix unit upper triangular over GF(2); front-end dispatch and window length.")
    chk.rule("R20.1", "batch = single: identical direction-number and Gray-code recurrences; row idx of the batch reads X[start-1+idx], the single generator reads X[N-1]; same Korobov formula", 8)
    chk.rule("R20.2", "range by construction: Sobol coordinates are a uint32 divided by 2^32; Korobov coordinates are (positive) % 1", 4)
    chk.rule("R20.3", "determinism: the generators read their arguments and one table loaded at import; nothing global is written, no random source", 4)
    nrows = 1000 if chk.tier == "quick" else None
    chk.rule("T20.4", "direction numbers: every initial m_k is odd and below 2^k, so each generator matrix is unit upper triangular over GF(2) (each coordinate stratifies for every m)", 999 if chk.tier == "quick" else 21000)
    chk.rule("R20.5", "front end: _SINGLE and _BATCH have the same keys bound to the generators of the same family; the batch window [seed, seed+d1-1] has d1 points", 4)
    chk.rule("R20.6", "simple bounds: loop indices into X, C stay below the allocated length; V has L+1 entries for indices 1..L; poly[j+1] for j < D", 6)
    if chk.want("R20.1"):
        r20_1(chk, sb, ld)
    if chk.want("R20.2"):
        r20_2(chk, sb, ld)
    if chk.want("R20.3"):
        r20_3(chk, sb, ld)
    if chk.want("T20.4"):
        t20_4(chk, repo, nrows)
    if chk.want("R20.5"):
        r20_5(chk, fe)
    if chk.want("R20.6"):
        r20_6(chk, sb)
    chk.assume("the (0,m,2)-net property of the first two coordinates, the bound C[i] <= L (bit reasoning) and float rounding in ceil(log N / log 2) are not decided")
    chk.assume("the kernels implement the Joe-Kuo recurrence: R20.1 ties the two kernels to each other, not to the literature")
    chk.assume("the installed .so files may lag the .pyx sources (Cython is not available to rebuild)")


def kernel_summary(ev, rename):
    """canonical strings of all stores into C, V, X (after renaming N->end etc.)."""
    out = []
    for e in ev.events:
        if e.kind not in ("store", "aug"):
            continue
        t = e.target.as_atom()
        base = t[1].as_atom()
        nm = base[1] if base and base[0] in ("obj", "name") else None
        if nm not in ("C", "V", "X"):
            continue
        loops = []
        sub = dict(rename)
        for d, l in enumerate(e.loops):
            if l.index is not None:
                sub[l.index.as_atom()] = P.atom(("role", f"v{d}"))
        for d, l in enumerate(e.loops):
            if l.kind == "range":
                loops.append(f"v{d} in [{l.lo.subs(sub)}, {l.hi.subs(sub)})")
            elif l.kind == "while":
                loops.append(f"while {l.iter.subs(sub)}")
            else:
                loops.append(l.kind)
        asserts = {x.value.key() for x in ev.events if x.kind == "assert"}
        g = sorted(f"{'' if p else 'not '}{c.subs(sub)}" for c, p in e.guards
                   if c.key() not in asserts and not any(c.key() == l.iter.key() for l in e.loops if l.kind == "while"))
        idx = ", ".join(str(i.subs(sub)) for i in t[2])
        val = e.value.subs(sub)
        out.append(f"{nm}[{idx}] {e.op or '='} {val} | {'; '.join(loops)} | {' & '.join(g)}")
    return out


def search_summary(ev, rename):
    """canonical strings of what decides the loop-carried scalars the recurrences read (the degree s found by a search loop with break, the
    coefficient word a, the table row m): their assignments and the breaks, with the loops and conditions they sit under."""
    out = []
    skip = {"idx", "seed"}
    for e in ev.events:
        if e.kind == "break" or (e.kind == "assign" and e.name not in skip and not e.name.startswith("pts") and not e.name.endswith("_arr")
                                 and e.value is not None and "pts" not in e.value.key()
                                 and not (e.value.as_atom() and e.value.as_atom()[0] == "obj")):
            sub = dict(rename)
            for d, l in enumerate(e.loops):
                if l.index is not None:
                    sub[l.index.as_atom()] = P.atom(("role", f"v{d}"))
            loops = [f"v{d} in [{l.lo.subs(sub)}, {l.hi.subs(sub)})" if l.kind == "range" else (f"while {l.iter.subs(sub)}" if l.kind == "while" else l.kind)
                     for d, l in enumerate(e.loops)]
            asserts = {x.value.key() for x in ev.events if x.kind == "assert"}
            g = sorted(f"{'' if p else 'not '}{c.subs(sub)}" for c, p in e.guards if c.key() not in asserts)
            what = "break" if e.kind == "break" else f"{e.name} = {e.value.subs(sub)}"
            out.append(f"{what} | {'; '.join(loops)} | {' & '.join(g)}")
    return out


def strip_objs(s: str) -> str:
    import re
    s = re.sub(r"<(\w+)@\d+>", r"\1", s)
    s = re.sub(r"\((after|lc) (\w+) \d+", r"(\1 \2", s)
    return s


def r20_1(chk, sb, ld):
    s1 = sb.ev("quasirandom_sobol")
    s2 = sb.ev("quasirandom_sobol_batch")
    chk.saw(SB, "quasirandom_sobol")
    chk.saw(SB, "quasirandom_sobol_batch")
    a = [strip_objs(x) for x in kernel_summary(s1, {("name", "N"): P.name("END")})]
    b = [strip_objs(x) for x in kernel_summary(s2, {("name", "end"): P.name("END")})]
    chk.need(len(a) >= 8 and len(b) >= 8, "Sobol kernels: recurrence stores not found")
    for i, (x, y) in enumerate(zip(a, b)):
        chk.ob("R20.1", SB, "quasirandom_sobol_batch", f"recurrence step {i} is identical in the single and the batch kernel (N -> end)", x == y,
               fingerprint=f"step:{i}", expected=x[:300], found=y[:300])
    chk.ob("R20.1", SB, "quasirandom_sobol_batch", "both kernels have the same number of recurrence steps", len(a) == len(b), found=f"{len(a)} vs {len(b)}")
    # ... and what the recurrences read is found the same way in both: the degree search (range, test, break), the coefficient word, the table row
    sa_ = [strip_objs(x) for x in search_summary(s1, {("name", "N"): P.name("END")})]
    sb_ = [strip_objs(x) for x in search_summary(s2, {("name", "end"): P.name("END")})]
    only1 = [x for x in sa_ if x not in sb_]
    only2 = [x for x in sb_ if x not in sa_]
    chk.ob("R20.1", SB, "quasirandom_sobol_batch", "the scalars the recurrences read (degree search with its break, coefficient word, table row, bit scan) are "
           "computed identically in the single and the batch kernel", not only1 and not only2 and len(sa_) >= 6, fingerprint="search-steps",
           expected="the same assignments and breaks under the same loops and conditions", found=(only1[:1] + only2[:1]) or f"{len(sa_)} steps")
    # outputs
    outs1 = [e for e in s1.events if e.kind == "store" and "pts_view" in e.target.key()]
    outs2 = [e for e in s2.events if e.kind == "store" and "pts_view" in e.target.key()]
    chk.need(len(outs1) == 2 and len(outs2) == 2, "Sobol kernels: output stores not found")
    # coordinate 0 is written outside the loop over the dimensions, coordinate j inside it (last index of the output)
    for e in outs1 + outs2:
        col = e.target.as_atom()[2][-1]
        jl = [l for l in e.loops if l.kind == "range" and l.hi is not None and l.hi.key() == "D"]
        okcol = (col == jl[0].index) if jl else (col == P.const(0))
        chk.ob("R20.1", SB, "quasirandom_sobol" if e in outs1 else "quasirandom_sobol_batch", "the value computed for dimension j is stored as coordinate j "
               "(coordinate 0 before the loop over the other dimensions)", okcol, node=e.node, fingerprint=f"out-column:{'single' if e in outs1 else 'batch'}:{bool(jl)}",
               found=str(e.target)[:80])
    for e in outs1:
        x = find_atoms(e.value, lambda t: t[0] == "sub" and t[1].as_atom() and t[1].as_atom()[0] in ("obj", "name") and t[1].as_atom()[1] == "X")
        ok = len(x) == 1 and x[0][2][0] == P.name("N") - 1
        chk.ob("R20.1", SB, "quasirandom_sobol", "the single generator reads X[N-1] for seed N", ok, node=e.node, fingerprint=f"single-out:{len(e.loops)}",
               found=str(e.value)[:120])
    for e in outs2:
        t = e.target.as_atom()
        row = t[2][0]
        x = find_atoms(e.value, lambda t2: t2[0] == "sub" and t2[1].as_atom() and t2[1].as_atom()[0] in ("obj", "name") and t2[1].as_atom()[1] == "X")
        ok = False
        if len(x) == 1:
            seed = x[0][2][0]
            ok = (seed - row) == P.name("start") - 1
            loop = e.loops[-1]
            ok = ok and loop.lo == P.name("start") - 1 and loop.hi == P.name("end")
        chk.ob("R20.1", SB, "quasirandom_sobol_batch", "row idx of the batch is seed start+idx: it reads X[start-1+idx], seeds run start..end inclusive",
               ok, node=e.node, fingerprint=f"batch-out:{len(e.loops)}", found=f"{e.target} <- {str(e.value)[:100]}")
    same_scale = {strip_objs(str(e.value / P.atom(find_atoms(e.value, lambda t: t[0] == "sub" and "X" in t[1].key())[0]))) for e in outs1 + outs2}
    chk.ob("R20.1", SB, "quasirandom_sobol_batch", "single and batch scale the integers identically", len(same_scale) == 1, found=sorted(same_scale))
    # Korobov
    k1 = ld.ev("quasirandom_kgf", opaque={"a"})
    k2 = ld.ev("quasirandom_kgf_batch", opaque={"a", "N"})
    chk.saw(LD, "quasirandom_kgf")
    chk.saw(LD, "quasirandom_kgf_batch")
    r1, r2 = k1.returns[-1].value, k2.returns[-1].value
    a1 = r1.as_atom()
    a2 = r2.as_atom()
    ok1 = bool(a1 and a1[0] == "bin" and a1[1] == "Mod" and a1[3] == P.const(1))
    ok2 = bool(a2 and a2[0] == "bin" and a2[1] == "Mod" and a2[3] == P.const(1))
    f1 = strip_objs(a1[2].key()) if ok1 else ""
    f2 = strip_objs(a2[2].key()) if ok2 else ""
    A = P.atom(("local", "a", 0))
    chk.ob("R20.1", LD, "quasirandom_kgf", "single Korobov point is (1/2 + a (N+1)) % 1", ok1 and a1[2] == P.const(1) / 2 + A * (P.name("N") + 1), found=str(r1))
    NONE = P.atom(("const", None))
    full = P.atom(("slice", NONE, NONE, NONE))
    nax = P.name("numpy.newaxis")
    Nb = P.atom(("local", "N", 0))
    want = P.const(1) / 2 + P.atom(("sub", A, (nax, full))) * (P.atom(("sub", Nb, (full, nax))) + 1)
    okb = ok2 and a2[2] == want
    ndef = [v for k, v in k2.defs.items() if k[1] == "N"]
    chk.ob("R20.1", LD, "quasirandom_kgf_batch", "the batch applies the same formula with N = arange(L, U+1) broadcast against a",
           okb and bool(ndef) and strip_objs(obj_init(ndef[0]).key()).startswith("numpy.arange(L, 1 + U"),
           expected=str(want), found=str(r2)[:160])
    al1 = [e for e in k1.events if e.kind == "call" and call_name(e.value.as_atom() or ()) == "alpha"]
    al2 = [e for e in k2.events if e.kind == "call" and call_name(e.value.as_atom() or ()) == "alpha"]
    chk.ob("R20.1", LD, "quasirandom_kgf_batch", "both use the same lattice vector alpha(D)", len(al1) == 1 and len(al2) == 1)


def r20_2(chk, sb, ld):
    for q in ("quasirandom_sobol", "quasirandom_sobol_batch"):
        ev = sb.ev(q)
        ct = ev.ctypes
        outs = [e for e in ev.events if e.kind == "store" and "pts_view" in e.target.key()]
        okt = (ct.get("X") or "").replace(" ", "") == "unsignedint[::1]" and "np.uint32_t" in (ct.get("X_arr") or "")
        chk.ob("R20.2", SB, q, "X holds unsigned 32-bit integers", okt, fingerprint=f"{q}:ctype", found=f"X: {ct.get('X')}; X_arr: {ct.get('X_arr')}")
        okd = True
        for e in outs:
            x = find_atoms(e.value, lambda t: t[0] == "sub" and "X" in t[1].key())
            d = P.atom(x[0]) / e.value if x else None
            okd = okd and d is not None and d.key() in ("pow(2, 32)", "libc.math.pow(2, 32)", "4294967296", "(bin Pow 2 32)")
        chk.ob("R20.2", SB, q, "each coordinate is that integer divided by 2^32, hence in [0, 1)", okd and bool(outs), fingerprint=f"{q}:scale",
               found=[str(e.value)[:80] for e in outs])
    # the seeds are C 'unsigned int' (0 .. 2^32-1): the batch must carry them in a type that holds them and their successor
    kb = ld.ev("quasirandom_kgf_batch")
    ar = [e for e in kb.events if e.kind == "call" and call_name(e.value.as_atom() or ()) == "numpy.arange"]
    dt = dict(ar[0].extra["kwargs"]).get("dtype").key() if ar and dict(ar[0].extra["kwargs"]).get("dtype") is not None else None
    pt = {p: (kb.ctypes.get(p) or "") for p in kb.param_names}
    unsigned = any("unsigned" in v for v in pt.values())
    chk.ob("R20.2", LD, "quasirandom_kgf_batch", "the seed vector of the batch holds every unsigned-int seed and seed + 1 (int32 wraps at 2^31 - 1, where the "
           "single-point generator still works)", bool(ar) and dt in ("numpy.int64", "numpy.uint64", "numpy.float64", None) or not unsigned,
           fingerprint="seed-width", expected="dtype=np.int64 (or float64)", found=f"numpy.arange(..., dtype={dt}) for parameters {pt}")
    # the table has a fixed number of rows: a dimension beyond it must be refused, not read past the end (boundscheck is off)
    for q in ("quasirandom_sobol", "quasirandom_sobol_batch"):
        ev = sb.ev(q)
        dpar = "D"
        guard = any(e.kind in ("assert", "raise", "test") and e.value is not None and dpar in {a[1] for a in find_atoms(e.value, lambda a: a[0] == "name")}
                    and ("shape" in e.value.key() or "len(" in e.value.key() or "21201" in e.value.key()) for e in ev.events)
        chk.ob("R20.2", SB, q, "the dimension is checked against the number of rows of the direction-number table before poly[j + 1] is read",
               guard, fingerprint=f"{q}:dimension-bound", expected="if D > _SOBOL_DATA.shape[0] - 1: raise ValueError",
               found="no test of D against the table size (poly[j + 1] with boundscheck off reads past the table for D > 21201)")
    for q in ("quasirandom_kgf", "quasirandom_kgf_batch"):
        ev = ld.ev(q)
        a = ev.returns[-1].value.as_atom()
        ok = bool(a and a[0] == "bin" and a[1] == "Mod" and a[3] == P.const(1))
        chk.ob("R20.2", LD, q, "each coordinate is reduced % 1 (of a positive quantity: offset 1/2, a in [0,1), unsigned seed)", ok,
               fingerprint=f"{q}:mod", found=str(ev.returns[-1].value)[:100])


def r20_3(chk, sb, ld):
    for mod, rel, quals in ((sb, SB, ("quasirandom_sobol", "quasirandom_sobol_batch")), (ld, LD, ("quasirandom_kgf", "quasirandom_kgf_batch", "alpha", "phi"))):
        for q in quals:
            fn = mod.func(q)
            glob = [n for n in ast.walk(fn) if isinstance(n, (ast.Global, ast.Nonlocal))]
            ev = mod.ev(q)
            rnd = sorted({call_name(e.value.as_atom() or ()) or "" for e in ev.events if e.kind == "call"
                          and any(w in (call_name(e.value.as_atom() or ()) or "") for w in ("random", "urandom", "time.", "getpid", "default_rng", "rand"))
                          and "quasirandom" not in (call_name(e.value.as_atom() or ()) or "")})
            stores_global = [e for e in ev.events if e.kind in ("store", "aug") and e.target.as_atom()[1].as_atom()
                             and e.target.as_atom()[1].as_atom()[0] == "name" and e.target.as_atom()[1].as_atom()[1] not in ev.param_names
                             and not e.target.as_atom()[1].key() in ("a", "a_view", "pts_view")]
            chk.ob("R20.3", rel, q, "no global is written and no random / clock source is consulted", not glob and not rnd and not stores_global,
                   fingerprint=f"{q}:pure", found=f"global stmts {len(glob)}, sources {rnd}, global stores {[str(e.target) for e in stores_global]}")
    node = sb.toplevel_assign("_SOBOL_DATA")
    chk.ob("R20.3", SB, "_SOBOL_DATA", "the parameter table is loaded once at import from the shipped file",
           isinstance(node, ast.Call) and sb.seg(node) == "_load_data()" and "_sobol_parameters.npz" in sb.seg(sb.func("_load_data")), found=sb.seg(node))


def t20_4(chk, repo, nrows):
    import numpy as np
    path = repo.path(NPZ)
    repo.read_log.append(NPZ)
    poly = np.load(path)["poly"]
    chk.table(NPZ, int(poly.shape[0]))
    last = poly.shape[0] - 1 if nrows is None else min(nrows, poly.shape[0] - 1)
    # the kernel uses row j+1 for coordinate j (j >= 1): rows 2..D
    for r in range(2, last + 1):
        m = poly[r]
        s = 0
        for k in range(1, len(m)):
            if m[k] == 0:
                break
            s = k
        bad = None
        if s == 0:
            bad = "no direction numbers"
        else:
            for k in range(1, s + 1):
                mk = int(m[k])
                if mk % 2 == 0 or mk >= (1 << k):
                    bad = f"m_{k} = {mk}"
                    break
            if bad is None and int(m[0]) >= (1 << max(s - 1, 0)):
                bad = f"polynomial coefficient word a = {int(m[0])} has more than s-1 = {s - 1} bits"
        chk.ob("T20.4", NPZ, f"row {r}", f"coordinate {r - 1}: initial direction numbers m_1..m_{s} are odd and m_k < 2^k", bad is None,
               fingerprint=f"row:{r}", found=bad)
    chk.ob("T20.4", SB, "quasirandom_sobol", "coordinate 0 uses m_k = 1 for every k (van der Corput): V[i] = 1 << (32 - i)",
           any("(bin LShift 1 32 - " in e.value.key() or "<< " in e.value.key() for e in repo.module(SB).ev("quasirandom_sobol").events
               if e.kind == "store" and e.target.key().startswith("<V@") and len(e.loops) == 1 and e.loops[0].lo == P.const(1)),
           fingerprint="vdc")


COMPILED = {"quasirandom_kgf": "chmpy.sampling._lds.quasirandom_kgf", "quasirandom_kgf_batch": "chmpy.sampling._lds.quasirandom_kgf_batch",
            "quasirandom_sobol": "chmpy.sampling._sobol.quasirandom_sobol", "quasirandom_sobol_batch": "chmpy.sampling._sobol.quasirandom_sobol_batch"}


def _strip_int(t: P) -> P:
    a = t.as_atom()
    if a and a[0] == "call" and call_name(a) == "int" and len(a[2]) == 1:
        return a[2][0]
    return t


def _resolves_to(fe, callee: P, want_full: str) -> bool:
    """callee (a name term) is bound, in the front-end module, to the compiled generator want_full."""
    a = callee.as_atom()
    if not a or a[0] != "name":
        return False
    return a[1] == want_full or fe.ctx.alias.get(a[1].split(".")[-1]) == want_full


def wrapper_contract(chk, fe, name):
    """A public generator name that the front end binds to a Python function instead of the compiled generator:
    the function must hand its own arguments to that generator (directly, or window by window into a result array)."""
    from .generic import inline_single_return_hook
    want = COMPILED[name]
    batch = name.endswith("_batch")
    ev = fe.ev(name, call_hook=inline_single_return_hook(fe, skip=(name,)))
    chk.saw(FE, name)
    params = [P.name(x) for x in ev.param_names]
    chk.need(len(params) == (3 if batch else 2), f"{name}: wrapper has {len(params)} parameters")
    for r in ev.returns:
        v = r.value
        a = v.as_atom()
        if a and a[0] == "call" and _resolves_to(fe, a[1], want):
            args = [_strip_int(x) for x in a[2]]
            chk.ob("R20.5", FE, name, "the Python wrapper hands its own arguments, unchanged and in order, to the compiled generator",
                   [x.key() for x in args] == [x.key() for x in params] and (len(a) < 4 or not a[3]), node=r.node, fingerprint=f"forward:{name}",
                   expected=f"{want.split('.')[-1]}({', '.join(map(str, params))})", found=str(v)[:160])
            continue
        if a and a[0] == "obj" and batch:
            L, U, D = params
            stores = [e for e in ev.events if e.kind == "store" and e.target.as_atom() and e.target.as_atom()[0] == "sub"
                      and e.target.as_atom()[1].key() == v.key()]
            chk.need(stores, f"{name}: result array is never filled")
            for e in stores:
                sl = e.target.as_atom()[2][0].as_atom()
                va = e.value.as_atom()
                okshape = bool(sl and sl[0] == "slice" and va and va[0] == "call" and _resolves_to(fe, va[1], want) and len(va[2]) == 3)
                if not okshape:
                    raise AnalysisError(f"{FE}:{name}: unrecognised way of filling the result array: {e.target} = {str(e.value)[:80]}")
                lo_row, hi_row = sl[1], sl[2]
                s0, s1, d = [_strip_int(x) for x in va[2]]
                chk.ob("R20.5", FE, name, "rows [a, b) of the result hold the seeds L + a .. L + b - 1 (window contract of the inclusive batch generator)",
                       s0 == L + lo_row and s1 == L + hi_row - 1 and d.key() == D.key(), node=e.node, fingerprint=f"window:{name}",
                       expected=f"({L + lo_row}, {L + hi_row - 1}, {D})", found=f"rows [{lo_row}, {hi_row}) <- ({s0}, {s1}, {d})")
            init = obj_init(v).as_atom()
            shape = seq_items(init[2][0]) if init and init[2] else None
            chk.ob("R20.5", FE, name, "the result array has U - L + 1 rows and D columns", bool(shape) and len(shape) == 2 and shape[0] == U - L + 1
                   and shape[1].key() == D.key(), fingerprint=f"shape:{name}", found=str(obj_init(v))[:120])
            continue
        raise AnalysisError(f"{FE}:{name}: unrecognised wrapper around the compiled generator: returns {str(v)[:120]}")


def _positive_step(B, consts):
    import ast as _ast
    if B.const_value() is not None:
        return B.const_value() > 0
    a = B.as_atom()
    if a and a[0] == "name" and a[1] in consts:
        v = consts[a[1]]
        try:
            val = eval(compile(_ast.Expression(v), "<const>", "eval"), {"__builtins__": {}}) if isinstance(v, (_ast.Constant, _ast.BinOp)) else None
        except Exception:      # noqa: BLE001
            val = None
        return isinstance(val, int) and val > 0
    return False


def _blocked_batch(ev, out, seed, d1, d2, generator_of, methods, consts=None):
    """The batch generated block by block into one array:

        pts = np.empty((d1, d2));  for lo in range(seed, seed + d1, B): hi = min(lo + B - 1, seed + d1 - 1); pts[lo - seed : hi - seed + 1] = BATCH(lo, hi, d2)

    -> None when the code is not of this shape at all; otherwise whether the windows [lo, hi] tile the seeds seed .. seed + d1 - 1 (the loop's
    exclusive upper bound is seed + d1: with the inclusive last seed as the bound the final one-seed block is never generated) and every
    block lands on its own rows."""
    init = out.as_atom()[3].as_atom()
    if not (init and init[0] == "call" and call_name(init) in ("numpy.empty", "numpy.zeros") and init[2]):
        return None
    shape = seq_items(init[2][0])
    stores = [e for e in ev.events if e.kind == "store" and e.target.as_atom() and e.target.as_atom()[0] == "sub" and e.target.as_atom()[1].key() == out.key()]
    if len(stores) != 1 or len(stores[0].loops) != 1 or stores[0].loops[0].kind != "range":
        return None
    st, lp = stores[0], stores[0].loops[0]
    va = st.value.as_atom()
    sl = st.target.as_atom()[2]
    if not (va and va[0] == "call" and len(va[2]) == 3 and len(sl) == 1 and sl[0].as_atom() and sl[0].as_atom()[0] == "slice"):
        return None
    if not all(generator_of(va[1], k) and generator_of(va[1], k).endswith(f"quasirandom_{k}_batch") for k in methods):
        return None
    i = lp.index
    lo_w, hi_w, dim = va[2]
    last = seed + d1 - 1
    B = lp.step
    ok = bool(shape and len(shape) == 2 and shape[0].key() == d1.key() and shape[1].key() == d2.key())
    ok = ok and lp.lo is not None and lp.lo.key() == seed.key() and lp.hi is not None and (lp.hi - seed - d1).is_zero() \
        and B is not None and _positive_step(B, consts or {})
    ok = ok and lo_w.key() == i.key() and dim.key() == d2.key()
    ha = hi_w.as_atom()
    ok = ok and bool(ha and ha[0] == "call" and call_name(ha) == "min" and len(ha[2]) == 2
                     and {x.key() for x in ha[2]} == {(i + B - 1).key(), last.key()})
    s0, s1 = sl[0].as_atom()[1], sl[0].as_atom()[2]
    ok = ok and (s0 - (i - seed)).is_zero() and (s1 - (hi_w - seed + 1)).is_zero() if ok else False
    return bool(ok)


def r20_5(chk, fe):
    from .generic import inline_single_return_hook, specialise
    # how a method name is turned into a generator: two registries (dict literals) or a chain of comparisons; either way the question
    # is what quasirandom calls for each method name, which is answered below by writing the name into the returned call
    regs = {}
    for nm in ("_SINGLE", "_BATCH"):
        try:
            node = fe.toplevel_assign(nm)
        except AnalysisError:
            node = None
        if isinstance(node, ast.Call) and isinstance(node.func, ast.Name) and node.func.id in fe.funcs:
            # a registry computed at import time from literals only (a loop over {name: module}): the dictionary it builds (sa/miniinterp.py)
            from ..miniinterp import evaluate_call
            lit = evaluate_call(fe.tree, node)
            if isinstance(lit, ast.Dict) and all(isinstance(k, ast.Constant) for k in lit.keys):
                regs[nm] = {}
                for k, v in zip(lit.keys, lit.values):
                    src = ast.unparse(v)
                    head, _, rest = src.partition(".")
                    full = fe.ctx.alias.get(src) or ((fe.ctx.alias.get(head, head) + "." + rest) if rest else fe.ctx.alias.get(head, head))
                    regs[nm][k.value] = full
        if isinstance(node, ast.DictComp) and len(node.generators) == 1 and not node.generators[0].ifs:
            # {name: batch for name, _, batch in _GENERATORS}: the rows of a module-level literal table, written out
            import copy
            from ..normalise import _destructure, _Replace
            g = node.generators[0]
            src = g.iter
            if isinstance(src, ast.Name) and src.id in fe.ctx.consts:
                src = fe.ctx.consts[src.id]
            if isinstance(src, (ast.Tuple, ast.List)):
                keys, vals = [], []
                for row in src.elts:
                    m = {}
                    if not _destructure(g.target, row, m):
                        keys = None
                        break
                    keys.append(_Replace(m).visit(copy.deepcopy(node.key)))
                    vals.append(_Replace(m).visit(copy.deepcopy(node.value)))
                if keys is not None and all(isinstance(k, ast.Constant) for k in keys):
                    node = ast.Dict(keys=keys, values=vals)
        if isinstance(node, ast.Dict):
            regs[nm] = {k.value: fe.ctx.alias.get(ast.unparse(v), ast.unparse(v)) for k, v in zip(node.keys, node.values)}
    # what do the public names denote in this module: the compiled generators, or Python wrappers around them?
    for name, full in sorted(COMPILED.items()):
        if name in fe.funcs:
            wrapper_contract(chk, fe, name)
        else:
            chk.ob("R20.5", FE, name, "the public name is the compiled generator of that name", fe.ctx.alias.get(name) == full,
                   fingerprint=f"binding:{name}", expected=full, found=str(fe.ctx.alias.get(name)))
    ev = fe.ev("quasirandom", call_hook=inline_single_return_hook(fe, skip=("quasirandom",)))
    chk.saw(FE, "quasirandom")
    d1, d2, method, seed = [P.name(x) for x in ev.param_names]
    from .generic import specialise
    ck = f"(is None {d2})"
    cases = {True: [], False: []}
    for e in ev.returns:
        g = {c.key(): pol for c, pol in e.guards}
        for truth in (True, False):
            if ck in g and g[ck] != truth:
                continue
            cases[truth].append((e, specialise(e.value, ck, truth)))
    chk.need(cases[True] and cases[False], "quasirandom: no return path for one of the two call forms (d2 given / not given)")
    mstr = lambda k: P.atom(("str", k))

    def names_in(term):
        out = set()
        for r in regs.values():
            out |= set(r)
        for a_ in find_atoms(term, lambda t: t[0] in ("eq", "ne")):
            for x, y in ((a_[1], a_[2]), (a_[2], a_[1])):
                if x.key() == method.key() and y.as_atom() and y.as_atom()[0] == "str":
                    out.add(y.as_atom()[1])
        return out

    def generator_of(callee, k):
        """The function `callee` denotes when method == k: registries looked up, comparisons with the name decided."""
        t = specialise(callee.subs({method.as_atom(): mstr(k)}), "-", True)
        ta = t.as_atom()
        if ta and ta[0] == "sub" and ta[1].key() in regs and len(ta[2]) == 1 and ta[2][0].as_atom() and ta[2][0].as_atom()[0] == "str":
            return regs[ta[1].key()].get(ta[2][0].as_atom()[1])
        if ta and ta[0] == "name":
            return ta[1]
        return None

    methods = set()
    for truth in (True, False):
        for e, v in cases[truth]:
            methods |= names_in(v)
    chk.need(methods, "quasirandom: no method names found (neither registries nor comparisons with the method argument)")
    resolved = {True: {}, False: {}}
    for truth in (True, False):
        for e, v in cases[truth]:
            va = v.as_atom()
            # row 0 of a one-seed batch is a single vector as well
            call = va[1].as_atom() if va and va[0] == "sub" and va[2] and va[2][0] == P.const(0) else va
            if not (call and call[0] == "call"):
                continue
            for k in sorted(methods):
                g = generator_of(call[1], k)
                if g is not None:
                    resolved[truth].setdefault(k, []).append((e, g, call[2], va is not call))
    # the names the registries and the module export are the compiled generators themselves: no module-level statement rebinds a name
    # imported from ._sobol / ._lds (a wrapper installed under the generator's name answers differently from the generator for some seeds)
    imported = {}
    for st in fe.tree.body:
        if isinstance(st, ast.ImportFrom) and st.module and st.module.lstrip(".").split(".")[-1] in ("_sobol", "_lds"):
            for a_ in st.names:
                imported[a_.asname or a_.name] = st.module
    rebound = []
    for st in fe.tree.body:
        tg = []
        if isinstance(st, (ast.Assign, ast.AugAssign, ast.AnnAssign)):
            tg = [t for t in (st.targets if isinstance(st, ast.Assign) else [st.target])]
        elif isinstance(st, (ast.FunctionDef, ast.ClassDef)):
            if st.name in imported:
                rebound.append((st, st.name))
        for t in tg:
            for n_ in ast.walk(t):
                if isinstance(n_, ast.Name) and n_.id in imported:
                    rebound.append((st, n_.id))
    chk.ob("R20.5", FE, "<module>", "the generator names exported by chmpy.sampling are the compiled generators (no module-level rebinding / wrapping "
           "under the same name)", bool(imported) and not rebound, node=rebound[0][0] if rebound else None, fingerprint="exports-compiled",
           found=[f"line {st.lineno}: {nm} = {ast.unparse(st.value)[:60] if hasattr(st, 'value') and st.value is not None else 'def'}" for st, nm in rebound][:2])
    ks, kb = set(resolved[True]), set(resolved[False])
    chk.ob("R20.5", FE, "_SINGLE", "single and batch registries have the same keys", ks == kb and bool(ks), found=f"{sorted(ks)} vs {sorted(kb)}")
    for k in sorted(ks | kb):
        sg = {g.split(".")[-1] for _, g, _, row0 in resolved[True].get(k, []) if not row0}
        bg = {g.split(".")[-1] for _, g, _, _ in resolved[False].get(k, [])}
        okp = bg == {f"quasirandom_{k}_batch"} and sg <= {f"quasirandom_{k}"}
        chk.ob("R20.5", FE, "_BATCH", f"method '{k}': the batch generator is the batch version of the single generator",
               okp, fingerprint=f"pair:{k}", found=f"{sorted(sg)} / {sorted(bg)}")
    for e, v in cases[True]:
        ok1 = True
        for k in sorted(methods):
            hits = [(g, a_, row0) for e2, g, a_, row0 in resolved[True].get(k, []) if e2 is e]
            if not hits:
                ok1 = False
                continue
            g, a_, row0 = hits[0]
            if row0:
                ok1 = ok1 and g.split(".")[-1] == f"quasirandom_{k}_batch" and len(a_) == 3 and a_[0].key() == seed.key() and a_[1].key() == seed.key() and a_[2].key() == d1.key()
            else:
                ok1 = ok1 and len(a_) == 2 and a_[0].key() == seed.key() and a_[1].key() == d1.key()
        chk.ob("R20.5", FE, "quasirandom", "one vector: the single generator gets (seed, dimension) (or row 0 of the one-seed batch, equal by R20.1)",
               ok1, node=e.node, fingerprint="single-call", found=str(v)[:160])
    for e, b in cases[False]:
        okb = False
        ba = b.as_atom()
        if ba and ba[0] == "call" and all(any(e2 is e for e2, _, _, _ in resolved[False].get(k, [])) for k in methods):
            a = ba[2]
            okb = len(a) == 3 and a[0].key() == seed.key() and (a[1] - a[0] + 1) == d1 and a[2].key() == d2.key()
        elif ba and ba[0] == "ite":
            okb = False        # the result for a given d2 depends on something else than (seed, d1, d2): reported with the condition
        elif ba and ba[0] == "obj":
            blk = _blocked_batch(ev, b, seed, d1, d2, generator_of, methods, fe.ctx.consts)
            if blk is None:
                raise AnalysisError(f"{FE}:quasirandom: unrecognised construction of the batch result: {str(b)[:120]}")
            okb = blk
        elif ba and ba[0] == "sub" and ba[1].as_atom() and ba[1].as_atom()[0] == "call" and len(ba[2]) == 2 \
                and ba[2][0].key() in ("numpy.newaxis", "None") and ba[2][1].key() == "(slice None None None)":
            # a one-row sequence made from the single generator: right exactly when the path is taken for d1 == 1 only and the single generator
            # gets the first (= only) seed of the window and the dimension
            ca_ = ba[1].as_atom()
            gens = {k: generator_of(ca_[1], k) for k in sorted(methods)}
            one = any(pol and c.key() in (f"(eq 1 {d1})", f"(eq {d1} 1)") for c, pol in e.guards)
            okb = all(g is not None and g.split(".")[-1] == f"quasirandom_{k}" for k, g in gens.items()) and one \
                and len(ca_[2]) == 2 and ca_[2][0].key() == seed.key() and ca_[2][1].key() == d2.key()
        elif not (ba and ba[0] == "call"):
            raise AnalysisError(f"{FE}:quasirandom: unrecognised construction of the batch result: {str(b)[:120]}")
        extra = [c for c, pol in e.guards if c.key() != ck]
        chk.ob("R20.5", FE, "quasirandom", "a sequence: the batch gets the inclusive window [seed, seed + d1 - 1] (d1 points) and the dimension, and its "
               "array is returned as it is (one row per seed, also for d1 == 1)", okb,
               node=e.node, fingerprint="batch-window" + (":" + extra[0].key()[:30] if extra else ""), found=str(b)[:200])


def r20_6(chk, sb):
    for q, n in (("quasirandom_sobol", "N"), ("quasirandom_sobol_batch", "end")):
        ev = sb.ev(q)
        sizes = {}
        for e in ev.events:
            if e.kind == "assign" and e.name in ("C_arr", "V_arr", "X_arr"):
                a = obj_init(e.value).as_atom()
                if a and call_name(a) == "numpy.empty":
                    sizes[e.name[0]] = a[2][0]
        Lk = None
        for e in ev.events:
            if e.kind == "assign" and e.name == "L":
                Lk = e.value
        okalloc = sizes.get("C") is not None and sizes["C"].key() == n and sizes["X"].key() == n and Lk is not None and sizes["V"] == Lk + 1
        chk.ob("R20.6", SB, q, f"C and X have {n} entries and V has L+1", okalloc, fingerprint=f"{q}:alloc", found={k: str(v) for k, v in sizes.items()})
        bad = []
        nchecked = 0
        for e in ev.events:
            if e.kind not in ("store", "aug"):
                continue
            t = e.target.as_atom()
            base = t[1].as_atom()
            nm = base[1] if base and base[0] in ("obj", "name") else None
            if nm not in ("C", "X", "V") or not e.loops:
                continue
            idx = t[2][0]
            rl = [l for l in e.loops if l.kind == "range" and l.index is not None and l.index.key() == idx.key()]
            if not rl:
                continue
            nchecked += 1
            hi = rl[-1].hi
            limit = P.name(n) if nm in ("C", "X") else Lk + 1
            ok = hi == limit
            if not ok and nm == "V":
                # for i in range(1, s + 1) under the guard not (L <= s), canonically (s < L): s + 1 <= L
                for c, pol in e.guards:
                    ca = c.as_atom()
                    if ca and ca[0] == "lt" and pol and ca[2] == Lk and hi == ca[1] + 1:
                        ok = True
            if not ok:
                bad.append(f"{nm}[{idx}] with {idx} < {hi}, allocated {limit}")
            if rl[-1].lo.const_value() is not None and rl[-1].lo.const_value() < 0:
                bad.append(f"{nm}[{idx}] from {rl[-1].lo}")
        chk.ob("R20.6", SB, q, "every loop-indexed store into C, X, V stays inside the allocation", not bad and nchecked >= 4, fingerprint=f"{q}:bounds",
               found=bad or f"{nchecked} stores checked")
        pj = [e for e in ev.events if e.kind == "assign" and e.name == "m" and "_SOBOL_DATA" in e.value.key()]
        okp = bool(pj) and pj[0].loops and pj[0].loops[0].hi.key() == "D" and pj[0].loops[0].lo == P.const(1) and \
            pj[0].value.as_atom()[2][0] == pj[0].loops[0].index + 1
        chk.ob("R20.6", SB, q, "coordinate j >= 1 uses table row j+1, j < D", okp, fingerprint=f"{q}:poly", found=str(pj[0].value) if pj else None)
