"""C13 — re-expressing a crystal (trigonal axes, P1, supercells) preserves the structure."""
from __future__ import annotations

import ast
from fractions import Fraction

from ..core import AnalysisError
from ..poly import P
from ..symex import Ev, find_atoms, call_name, seq_items, matrix_items, matmul
from ..tables import sgmodel as M
from ..tags import angle_unit, space_of
from .generic import string_value

CR = "crystal/crystal.py"
UC = "crystal/unit_cell.py"
TABLE = "crystal/sgdata.json"
R_GROUPS = (146, 148, 155, 160, 161, 166, 167)


def const_matrix(term: P):
    """3x3 matrix of Fractions from k * array(literal) / array(literal)."""
    scale = Fraction(1)
    a = term.as_atom()
    if a is None and term.is_poly() and len(term.n) == 1:
        (m, c), = term.n.items()
        if len(m) == 1 and m[0][1] == 1:
            scale = c
            a = m[0][0]
    if a is None:
        return None
    rows = matrix_items(P.atom(a))
    if rows is None or len(rows) != 3:
        return None
    out = []
    for r in rows:
        if len(r) != 3:
            return None
        vals = [x.const_value() for x in r]
        if any(v is None for v in vals):
            return None
        out.append([v * scale for v in vals])
    return out


def mat_mul(A, B):
    return [[sum(A[i][k] * B[k][j] for k in range(3)) for j in range(3)] for i in range(3)]


def mat_det(Mx):
    a, b, c = Mx[0]
    d, e, f = Mx[1]
    g, h, i = Mx[2]
    return a * (e * i - f * h) - b * (d * i - f * g) + c * (d * h - e * g)


def mat_inv(Mx):
    d = mat_det(Mx)
    a, b, c = Mx[0]
    dd, e, f = Mx[1]
    g, h, i = Mx[2]
    adj = [[e * i - f * h, c * h - b * i, b * f - c * e],
           [f * g - dd * i, a * i - c * g, c * dd - a * f],
           [dd * h - e * g, b * g - a * h, a * e - b * dd]]
    return [[x / d for x in row] for row in adj]


def run(chk):
    repo = chk.repo
    cr = repo.module(CR)
    uc = repo.module(UC)
    chk.explanation = ("choose_trigonal_lattice, the supercell builders and density: the two basis-change matrices as exact rational "
                       "matrices (mutual inverses, determinants, agreement between crystal.py and unit_cell.py); exact conjugation "
                       "of the hexagonal-setting operations of the seven R-lattice groups in sgdata.json onto their rhombohedral "
                       "rows; statement ordering old cell -> Cartesian -> new cell -> fractional; supercell construction with "
                       "coordinate-space and angle-unit tags.")
    chk.rule("R13.1", "the H->R and R->H basis-change matrices are exact mutual inverses, identical in crystal.py and unit_cell.py, with |det| 3 and 1/3", 6)
    chk.rule("T13.2", "conjugating the hexagonal-setting operations of each R-lattice group by the code's H->R matrix gives exactly the rhombohedral-setting row", 7)
    chk.rule("R13.3", "trigonal switch ordering: Cartesian positions under the old cell, then the new cell, then fractional positions under the new cell, then the space group of the same number", 7)
    chk.rule("R13.4", "supercells: new cell from (n a, n b, n c) and the old angles in radians; every unit-cell molecule translated by every cell vector; new fractional coordinates under the new cell; space group P1", 14)
    chk.rule("R13.5", "density is the mass of the unit-cell contents over the cell volume", 2)
    q = "Crystal.choose_trigonal_lattice"
    ev = cr.ev(q, opaque={"T", "new_uc", "cart_asym_pos"})
    chk.saw(CR, q)
    Ts = {}
    unselected = []
    def module_matrix(term):
        """(value, name) of a module-level constant a term names (matrices hoisted out of the function), else (term, None)."""
        a_ = term.as_atom() if term is not None else None
        if a_ and a_[0] == "name" and a_[1] in cr.ctx.consts:
            return Ev([], cr.ctx).ev(cr.ctx.consts[a_[1]]), a_[1]
        return term, None
    shared_written = []
    for e in ev.events:
        if e.kind == "assign" and e.name == "T":
            val, shared = module_matrix(e.value)
            # a local bound to a module-level array and then updated in place (T /= 3) changes the module's array: the next call starts from it
            for la in find_atoms(val, lambda t: t[0] == "local" and t[1] == "T"):
                prev, pshared = module_matrix(ev.defs.get(la))
                if prev is not None:
                    val = val.subs({la: prev})
                    if pshared and isinstance(e.node, ast.AugAssign):
                        shared_written.append((e, pshared))
            m = const_matrix(val)
            if m is None and isinstance(e.node, ast.AugAssign):
                continue
            chk.need(m is not None, f"{q}: basis-change matrix is not a constant 3x3 literal: {e.value}")
            when_R = None
            for c, pol in e.guards:
                ca = c.as_atom()
                if ca and ca[0] in ("eq", "ne") and "'R'" in c.key() and "space_group.choice" in c.key():
                    when_R = (ca[0] == "eq") == pol
            if when_R is None and e.guards:
                unselected.append((e, m))
                continue
            Ts["R2H" if when_R else "H2R"] = m
    chk.ob("R13.1", CR, q, "the basis-change matrices are the same on every call: a matrix kept at module level is not updated in place",
           not shared_written, node=shared_written[0][0].node if shared_written else None, fingerprint="matrices-constant",
           expected="T = CONSTANT / 3 (a new array)", found=[f"in-place update of {nm}" for _, nm in shared_written])
    if len(unselected) == 2 and not Ts:
        # two matrices, chosen by something other than the space group's current setting: the direction of the change is decided by the setting
        # the crystal IS in (the same attribute the early return and the relabelling use), not by a property of the cell metric
        chk.ob("R13.1", CR, q, "the basis-change matrix is selected by the space group's current setting (space_group.choice == 'R' -> R->H, else H->R)",
               False, node=unselected[0][0].node, fingerprint="selected-by-setting", expected="if self.space_group.choice == 'R': T = T(R->H) else: T = T(H->R)",
               found=[str(c)[:80] for c, _ in unselected[0][0].guards][-1:])
        for e, m in unselected:
            Ts["R2H" if abs(mat_det(m)) > 1 else "H2R"] = m
    elif set(Ts) == {"R2H", "H2R"} and not unselected:
        chk.ob("R13.1", CR, q, "the basis-change matrix is selected by the space group's current setting (space_group.choice == 'R' -> R->H, else H->R)",
               True, fingerprint="selected-by-setting")
    chk.need(set(Ts) == {"R2H", "H2R"}, f"{q}: the two basis-change matrices (one per current setting) were not found")
    if chk.want("R13.1"):
        prod = mat_mul(Ts["R2H"], Ts["H2R"])
        ident = [[Fraction(int(i == j)) for j in range(3)] for i in range(3)]
        chk.ob("R13.1", CR, q, "T(R->H) . T(H->R) == I exactly", prod == ident, found=str([[str(x) for x in r] for r in prod]))
        chk.ob("R13.1", CR, q, "|det T(R->H)| == 3 (the hexagonal cell is three times the rhombohedral one)",
               abs(mat_det(Ts["R2H"])) == 3, found=str(mat_det(Ts["R2H"])))
        chk.ob("R13.1", CR, q, "|det T(H->R)| == 1/3", abs(mat_det(Ts["H2R"])) == Fraction(1, 3), found=str(mat_det(Ts["H2R"])))
        chk.ob("R13.1", CR, q, "both basis changes are proper (positive determinant): an improper one turns the cell left-handed and the structure "
               "into its mirror image once the cell is rebuilt from lengths and angles (P1 expansion, CIF/SHELX export)",
               mat_det(Ts["R2H"]) > 0 and mat_det(Ts["H2R"]) > 0, fingerprint="proper-basis", expected="det = +3 and +1/3",
               found=f"det T(R->H) = {mat_det(Ts['R2H'])}, det T(H->R) = {mat_det(Ts['H2R'])}")
        for meth, key in (("as_rhombohedral", "H2R"), ("as_hexagonal", "R2H")):
            fn = uc.func(f"UnitCell.{meth}")
            chk.saw(UC, f"UnitCell.{meth}")
            chk.need(fn.args.defaults, f"UnitCell.{meth}: default matrix not found")
            sub = Ev([], uc.ctx)
            m = const_matrix(sub.ev(fn.args.defaults[-1]))
            chk.ob("R13.1", UC, f"UnitCell.{meth}", f"the default matrix equals the one crystal.py uses for {key}", m == Ts[key],
                   expected=str([[str(x) for x in r] for r in Ts[key]]), found=str([[str(x) for x in r] for r in m]) if m else None)
            mv = uc.ev(f"UnitCell.{meth}")
            okm = any("numpy.array(T)" in e.value.key() or "matmul" in e.value.key() for e in mv.returns)
            want = matmul(P.atom(("call", P.name("numpy.array"), (P.name("T"),))), P.atom(("attr", P.name("self"), "direct")))
            chk.ob("R13.1", UC, f"UnitCell.{meth}", "the new cell is T . direct (rows of T combine the old lattice vectors)",
                   any(e.value.as_atom() and e.value.as_atom()[2] and e.value.as_atom()[2][0] == want for e in mv.returns),
                   expected=f"UnitCell({want})", found=str(mv.returns[-1].value))
    if chk.want("T13.2"):
        t13_2(chk, Ts["H2R"])
    if chk.want("R13.3"):
        r13_3(chk, cr, ev, q)
    if chk.want("R13.4"):
        for q2 in ("Crystal.to_translational_symmetry", "Crystal.as_P1_supercell"):
            r13_4(chk, cr, q2)
        pv = cr.ev("Crystal.as_P1")
        chk.ob("R13.4", CR, "Crystal.as_P1", "as_P1 is the 1x1x1 supercell", pv.returns[0].value.key() == "self.as_P1_supercell((tuple (1 1 1)))",
               found=str(pv.returns[0].value))
    if chk.want("R13.5"):
        dv = cr.ev("Crystal.density")
        chk.saw(CR, "Crystal.density")
        ret = dv.returns.pick(-1).value
        mass = [e for e in dv.events if e.kind == "assign" and e.name == "uc_mass"]
        okm = False
        if not mass:
            # whatever the locals are called: the mass is what the returned ratio has over volume * 0.6022
            class _M:
                pass
            m0 = _M()
            m0.value = ret * P.atom(("call", P.atom(("attr", P.atom(("attr", P.name("self"), "unit_cell")), "volume")), ())) * P.const(Fraction("0.6022"))
            m0.node = dv.returns.pick(-1).node
            mass = [m0]
        ma = mass[0].value.as_atom()
        comp0 = ma[2][0].as_atom() if ma and call_name(ma) in ("sum", "numpy.sum") and len(ma[2]) == 1 else None
        mk = mass[0].value.key()
        if ".mass" in mk and "self.unit_cell_atoms()" not in mk and ("len(self.space_group" in mk or "symmetry_operations)" in mk) \
                and ("site_atoms" in mk or "asymmetric_unit" in mk):
            chk.ob("R13.5", CR, "Crystal.density", "the mass is the sum of Element[x].mass over every atom x of the unit-cell contents, each counted once",
                   False, node=mass[0].node, expected="a sum over unit_cell_atoms() (coincident images on special positions are merged there)",
                   found=f"{str(mass[0].value)[:140]}: asymmetric-unit mass times the number of operations counts a site on a special position once per operation")
            return
        chk.need(comp0 and comp0[0] == "comp" and "self.unit_cell_atoms()" in mass[0].value.key() and ".mass" in mass[0].value.key(),
                 f"Crystal.density: unrecognised form of the unit-cell mass: {str(mass[0].value)[:120]}")
        if mass:
            if ma and call_name(ma) in ("sum", "numpy.sum") and len(ma[2]) == 1:
                comp = ma[2][0].as_atom()
                if comp and comp[0] == "comp" and len(comp[3]) == 1 and comp[3][0][0] == "iter" and not comp[3][0][2] \
                        and comp[3][0][1].key() == "self.unit_cell_atoms()['element']":
                    # the summand is the mass of that one atom with weight one: every entry of unit_cell_atoms() is one
                    # atom (merged sites carry the *sum* of the merged occupancies, so it is not a weight)
                    elt = comp[2].as_atom()
                    okm = bool(elt and elt[0] == "attr" and elt[2] == "mass" and elt[1].as_atom() and elt[1].as_atom()[0] == "sub"
                               and elt[1].as_atom()[1].key().endswith("Element")
                               and elt[1].as_atom()[2][0].key().startswith("self.unit_cell_atoms()['element'][_it#"))
        chk.ob("R13.5", CR, "Crystal.density", "the mass is the sum of Element[x].mass over every atom x of the unit-cell contents, each counted once", okm,
               found=str(mass[0].value)[:160] if mass else None)
        vol = P.atom(("call", P.atom(("attr", P.atom(("attr", P.name("self"), "unit_cell")), "volume")), ()))
        okr = bool(mass) and ret == mass[0].value / vol / P.const(Fraction("0.6022"))
        chk.ob("R13.5", CR, "Crystal.density", "density = mass / volume / 0.6022 (g/cm^3 from amu/A^3)", okr, found=str(ret)[:160])
    chk.rule("R13.8", "the unit-cell contents that P1 / supercell / translational re-expressions copy are the distinct sites of the cell: wrap before merge, periodic and distance-based coincidence, aligned per-atom columns, occupancy-conserving merge (= C01 R01.2, R01.3, R01.4)", 4)
    if chk.want("R13.8"):
        from ..inherit import inherit
        inherit(chk, "R13.8", "c01", ["R01.2", "R01.3", "R01.4"])
    chk.rule("R13.10", "the molecules the P1 / supercell expansions copy pair every per-atom array with the same atoms: one index chain for "
                       "elements, positions, parent indices, labels and generator codes (= C04 R04.2)", 6)
    if chk.want("R13.10"):
        from ..inherit import inherit
        inherit(chk, "R13.10", "c04", ["R04.2"])
    chk.rule("R13.11", "the translated copies a supercell is made of are copies: the cached unit-cell molecules are not moved in place by the "
                       "expansion (a shallow copy in Molecule.translated shares its position array with the original, so all images coincide) "
                       "(= C14 R14.3 for the supercell builders)", 2)
    if chk.want("R13.11"):
        from ..inherit import inherit
        inherit(chk, "R13.11", "c14", ["R14.3"], functions={"Crystal.as_P1_supercell", "Crystal.to_translational_symmetry", "Crystal.as_P1",
                                                          "Crystal.molecular_shell", "Crystal.symmetry_unique_dimers"})
    chk.assume("coincidence of atoms between the two descriptions (geometry) is not decided")
    chk.rule("R13.7", "a cell built from vectors keeps them: direct is the given matrix, inverse its numerical inverse, and coordinates are converted "
                      "with those matrices (= C12 R12.3, R12.5); the trigonal switch and the frame argument of R13.4 rest on it", 8)
    if chk.want("R13.7"):
        from ..inherit import inherit
        inherit(chk, "R13.7", "c12", ["R12.3", "R12.5"])
    chk.rule("R13.6", "memo discipline of class Crystal (= C14 R14.2): every state-changing method drops every memoised quantity, including any newly introduced cache", 2)
    if chk.want("R13.6"):
        from .c14 import crystal_memo_rule
        crystal_memo_rule(chk, "R13.6")


def t13_2(chk, T):
    raw = chk.repo.json(TABLE)
    Tinv = mat_inv(T)
    TinvT = [[Tinv[j][i] for j in range(3)] for i in range(3)]
    TT = [[T[j][i] for j in range(3)] for i in range(3)]
    for num in R_GROUPS:
        rows = {r[6]: r for r in raw[str(num)]}
        chk.need("H" in rows and "R" in rows, f"sgdata.json: group {num} lacks an H or R setting")
        Hops = [M.decode(c) for c in rows["H"][8]]
        Rcodes = set(rows["R"][8])
        got = set()
        bad = None
        for (R, t) in Hops:
            Rm = [[Fraction(R[3 * i + j]) for j in range(3)] for i in range(3)]
            RR = mat_mul(mat_mul(TinvT, Rm), TT)
            tt = [sum(TinvT[i][k] * Fraction(t[k], 12) for k in range(3)) for i in range(3)]
            ints = [x for row in RR for x in row]
            tw = [(x * 12) for x in tt]
            if any(x.denominator != 1 or x not in (-1, 0, 1) for x in ints) or any(x.denominator != 1 for x in tw):
                bad = f"operation {M.encode(R, t)} maps to a non-crystallographic operation in the rhombohedral basis"
                break
            got.add(M.encode(tuple(int(x) for x in ints), tuple(int(x) % 12 for x in tw)))
        chk.ob("T13.2", TABLE, f"group {num}", f"H-setting operations ({len(Hops)}) conjugated by the H->R matrix == R-setting row ({len(Rcodes)})",
               bad is None and got == Rcodes, fingerprint=f"conj:{num}", found=bad or f"{len(got)} images, {len(got & Rcodes)} in the R row")


def r13_3(chk, cr, ev, q):
    idx = {}
    for i, e in enumerate(ev.events):
        if e.kind == "call" and call_name(e.value.as_atom() or ()) == ".to_cartesian" and "asymmetric_unit.positions" in e.value.key():
            idx.setdefault("read_cart", i)
        if e.kind == "store" and e.target.key() == "self.unit_cell":
            idx["store_uc"] = i
            idx["uc_val"] = e.value
        if e.kind == "store" and e.target.key() == "self.asymmetric_unit.positions":
            idx["store_pos"] = i
            idx["pos_val"] = e.value
        if e.kind == "call" and call_name(e.value.as_atom() or ()) == ".to_fractional":
            idx["to_frac"] = i
        if e.kind == "store" and e.target.key() == "self.space_group":
            idx["store_sg"] = i
            idx["sg_val"] = e.value
    chk.need(all(k in idx for k in ("read_cart", "store_uc", "store_pos", "to_frac", "store_sg")), f"{q}: anchors of the switch not found: {sorted(idx)}")
    chk.ob("R13.3", CR, q, "Cartesian positions are computed under the old cell, before the cell is replaced",
           idx["read_cart"] < idx["store_uc"], fingerprint="order:cart-before-cell")
    chk.ob("R13.3", CR, q, "fractional positions are recomputed after the cell was replaced (with the new cell)",
           idx["store_uc"] < idx["to_frac"] <= idx["store_pos"], fingerprint="order:frac-after-cell")
    chk.ob("R13.3", CR, q, "the new fractional positions are to_fractional of those Cartesian positions",
           idx["pos_val"].key() == "self.to_fractional($cart_asym_pos)" and
           [v for k, v in ev.defs.items() if k[1] == "cart_asym_pos"][0].key() == "self.to_cartesian(self.asymmetric_unit.positions)",
           found=str(idx["pos_val"]))
    # the value stored as the new cell (directly, or through a temporary): UnitCell(T . old direct) with T the matrix chosen by the setting
    ucv = idx["uc_val"]
    newuc = [v for k, v in ev.defs.items() if k[1] == "new_uc"]
    if ucv.key().startswith("$new_uc") and newuc:
        ucv = newuc[0]
    ua = ucv.as_atom()
    arg = ua[2][0] if ua and ua[0] == "call" and (call_name(ua) or "").endswith("UnitCell") and len(ua[2]) == 1 else None
    aa = arg.as_atom() if arg is not None else None
    okuc = bool(aa and aa[0] == "matmul" and len(aa[1]) == 2 and aa[1][1].key() == "self.unit_cell.direct" and "$T" in aa[1][0].key())
    chk.ob("R13.3", CR, q, "the new cell is T . (old direct matrix)", okuc, found=str(ucv)[:160])
    sg = idx["sg_val"].as_atom()
    oksg = bool(sg and call_name(sg).endswith("SpaceGroup") and sg[2][0].key() == "self.space_group.international_tables_number"
                and dict(sg[3]).get("choice") is not None and dict(sg[3])["choice"].key() == ev.param_names[1])
    chk.ob("R13.3", CR, q, "the space group is replaced by the same IT number in the requested setting", oksg, found=str(idx["sg_val"]))
    rets = [e for e in ev.returns if e.value.key() == "None"]
    okret = len(rets) == 1 and any(pol and c.as_atom() and c.as_atom()[0] == "eq" and "space_group.choice" in c.key() and
                                   ev.param_names[1] in c.key() for c, pol in rets[0].guards)
    chk.ob("R13.3", CR, q, "the only early return is when the requested setting is already current", okret,
           found=[f"{'' if p else 'not '}{c}" for e in rets for c, p in e.guards][:3])
    rs = [e for e in ev.events if e.kind == "raise"]
    chk.ob("R13.3", CR, q, "groups without hexagonal/rhombohedral choices are rejected",
           any("has_hexagonal_rhombohedral_choices" in c.key() for e in rs for c, _ in e.guards))


def _plain_size(term: P, size: P) -> P:
    """numpy.asarray(size, ...) / numpy.array(size, ...) / tuple(size) -> size"""
    m = {}
    for a in find_atoms(term, lambda a: a[0] == "call" and call_name(a) in ("numpy.asarray", "numpy.array", "tuple", "list") and a[2]
                        and a[2][0].key() == size.key()):
        m[a] = size
    return term.subs(m) if m else term


def cell_frame(sc, size):
    """Frame of a supercell built from vectors: 'self' when its rows are the own cell's rows scaled by the size, else None/'cols'."""
    if sc is None:
        return None
    a = sc.as_atom()
    if not (a and a[0] == "call" and call_name(a).endswith("UnitCell") and a[2]):
        return None
    v = _plain_size(a[2][0], size)
    k = v.key()
    D = ("self.unit_cell.direct", "self.unit_cell.lattice")
    sz = (str(size),)
    for d in D:
        for z in sz:
            rows = {f"{d}*{z}[(slice None None None), numpy.newaxis]", f"{z}[(slice None None None), numpy.newaxis]*{d}",
                    f"(matmul (numpy.diag({z}) {d}))", f"(matmul (numpy.diag({size}) {d}))"}
            if k in rows:
                return "self"
            if k in (f"{d}*{z}", f"{z}*{d}"):
                return "cols"
    return None


def frac_in_supercell(fr: P, size: P, sc_frame):
    """(ok?, description) for the fractional coordinates handed to the new asymmetric unit; None = unrecognised."""
    fr = _plain_size(fr, size)
    k = fr.key()
    sz = (str(size),)
    own = ("self.to_fractional($asym_pos)", "self.unit_cell.to_fractional($asym_pos)")
    for o in own:
        for z in sz:
            if k in (f"({o})/({z})",):
                return True, f"{fr}"
            if k == o and False:
                return False, "fractional coordinates of the old cell used unscaled"
        if k == o:
            return False, f"{fr}: fractional coordinates of the old cell, not divided by the supercell size"
    if k == "$sc.to_fractional($asym_pos)":
        if sc_frame == "self":
            return True, f"{fr} with the supercell built from the own cell's vectors"
        if sc_frame == "std":
            return False, (f"{fr}: the positions are in the frame of self.unit_cell, the supercell comes from from_lengths_and_angles "
                           "(standard orientation); the two differ after choose_trigonal_lattice or for a cell given by vectors")
        if sc_frame == "cols":
            return False, f"{fr}: the supercell scales the x, y, z columns of the cell matrix, not its a, b, c rows"
        return None, None
    return None, None


def _batched_supercell(chk, q, defs, size):
    """The copies made in one go:  positions = (P[newaxis, :, :] + SHIFTS[:, newaxis, :]).reshape(-1, 3)  with P the stacked positions of the
    unit-cell molecules and SHIFTS = [[q, r, s] @ lattice for (q, r, s) in product(arange(n1), arange(n2), arange(n3))], atomic numbers
    = tile(stacked numbers, len(SHIFTS)): both cell-major (cell c, atom a at row c * natoms + a).  Emits the obligations of the loop form;
    False when the construction is not of this shape."""
    pos, nums = defs.get("asym_pos"), defs.get("asym_nums")
    if pos is None or nums is None:
        return False
    pa = pos.as_atom()
    if not (pa and pa[0] == "call" and call_name(pa) == ".reshape" and [x.key() for x in pa[2]] in (["-1", "3"], ["(tuple (-1 3))"])):
        return False
    total = pa[1].as_atom()[1]
    if not (total.is_poly() and len(total.n) == 2):
        return False
    parts = {}
    for mono, coef in total.n.items():
        if coef != 1 or len(mono) != 1 or mono[0][1] != 1:
            return False
        at = mono[0][0]
        if at[0] != "sub" or len(at[2]) != 3:
            return False
        shape = tuple("n" if x.key() in ("numpy.newaxis", "None") else ":" if x.key().startswith("(slice None None None)") else "?" for x in at[2])
        parts[shape] = at[1]
    if set(parts) != {("n", ":", ":"), (":", "n", ":")}:
        return False
    P_, S_ = parts[("n", ":", ":")], parts[(":", "n", ":")]

    def comp_of(t):
        a = t.as_atom()
        while a and a[0] == "call" and call_name(a) in ("numpy.asarray", "numpy.array", "numpy.vstack", "numpy.hstack", "numpy.stack", "numpy.concatenate") and a[2]:
            t = a[2][0]
            a = t.as_atom()
        return a if a and a[0] == "comp" and a[1] in ("ListComp", "GeneratorExp") and len(a) == 4 and len(a[3]) == 1 and not a[3][0][2] else None
    sc_, pc = comp_of(S_), comp_of(P_)
    na = nums.as_atom()
    if sc_ is None or pc is None or not (na and call_name(na) == "numpy.tile" and len(na[2]) == 2):
        return False
    nc = comp_of(na[2][0])
    if nc is None:
        return False
    it = sc_[3][0][1]
    prod_ok = call_name(it.as_atom() or ()) == "itertools.product" and len(it.as_atom()[2]) == 3
    ranges_ok = prod_ok and all(x.key() == f"numpy.arange({size}[{k}])" for k, x in enumerate(it.as_atom()[2]))
    chk.ob("R13.4", CR, q, "cell offsets run over the product of arange(n1), arange(n2), arange(n3)", bool(ranges_ok), fingerprint="product", found=str(it)[:160])

    def source(c):
        """the sequence a comprehension runs over, through `M if <cells> else []`"""
        m = c[3][0][1]
        ma = m.as_atom()
        if ma and ma[0] == "ite" and ma[3].key() == "(tuple ())":
            m = ma[2]
        return m
    chk.ob("R13.4", CR, q, "every molecule of the unit cell is used in every cell", source(pc).key() == "self.unit_cell_molecules()",
           fingerprint="mols", found=str(source(pc))[:120])
    sh = sc_[2].as_atom()
    okt = False
    if sh and sh[0] == "matmul":
        qrs, lat = sh[1]
        idx = [x for x in find_atoms(sc_[2], lambda t: t[0] == "lv")]
        cell = P.atom(("sub", it, (P.atom(idx[0]),))) if idx else None
        its = seq_items(qrs.as_atom()[2][0]) if qrs.as_atom() and qrs.as_atom()[0] == "call" else None
        okt = bool(cell is not None and its and [x.key() for x in its] == [P.atom(("sub", cell, (P.const(k),))).key() for k in range(3)]
                   and lat.key() in ("self.unit_cell.lattice", "self.unit_cell.direct"))
    import re as _re
    noit = lambda k: _re.sub(r"#\d+", "#", k)
    okt = okt and noit(pc[2].key()) == noit(P.atom(("attr", P.atom(("sub", pc[3][0][1], (P.atom(("lv", "_it", 0)),))), "positions")).key())
    chk.ob("R13.4", CR, q, "each copy is the molecule translated (a copy, not in place) by [q, r, s] . lattice", okt, fingerprint="translate",
           found=str(sc_[2])[:160])
    same_src = noit(source(pc).key()) == noit(source(nc).key()) and ".atomic_numbers" in nc[2].key() and ".positions" in pc[2].key()
    count = na[2][1].as_atom()
    cells_counted = bool(count and call_name(count) == "len" and noit(count[2][0].key()) in (noit(S_.key()), noit(P.atom(sc_).key())))
    chk.ob("R13.4", CR, q, "positions and atomic numbers are stacked from the same list of molecules, in the same order",
           same_src and cells_counted, fingerprint="stack", expected="cell-major both: (cells, atoms, 3).reshape(-1, 3) and tile(numbers, number of cells)",
           found=f"{str(nums)[:100]}")
    return True


def r13_4(chk, cr, q):
    ev = cr.ev(q, opaque={"sc", "molecules", "sc_mols", "asym_pos", "asym_nums", "asymmetric_unit"})
    chk.saw(CR, q)
    defs = {k[1]: v for k, v in ev.defs.items()}
    size = P.name(ev.param_names[1])
    sc = defs.get("sc")
    ok = False
    if sc is not None and sc.as_atom() and call_name(sc.as_atom()).endswith("from_lengths_and_angles"):
        args = sc.as_atom()[2]
        lens = seq_items(args[0])
        L = P.atom(("attr", P.atom(("attr", P.name("self"), "unit_cell")), "lengths"))
        if lens is not None and len(lens) == 3:
            ok = all(lens[k] == P.atom(("sub", size, (P.const(k),))) * P.atom(("sub", L, (P.const(k),))) for k in range(3))
        unit = dict(sc.as_atom()[3]).get("unit") if len(sc.as_atom()) > 3 else None
        ang_ok = angle_unit(args[1]) == "rad" and (unit is None or string_value(unit) == "radians")
        chk.ob("R13.4", CR, q, "the supercell has lengths (n1 a, n2 b, n3 c)", ok, fingerprint="lengths", found=str(args[0]))
        chk.ob("R13.4", CR, q, "the supercell keeps the old angles, passed in radians", ang_ok and args[1].key() == "self.unit_cell.angles",
               fingerprint="angles", found=f"{args[1]} unit={unit}")
    else:
        fr0 = cell_frame(sc, size)
        if fr0 is None:
            raise AnalysisError(f"{q}: unrecognised construction of the supercell: {str(sc)[:120]}")
        chk.ob("R13.4", CR, q, "the supercell's rows are the own cell's vectors a, b, c scaled by (n1, n2, n3)", fr0 == "self", fingerprint="lengths",
               found=str(sc)[:160])
    # translation of every molecule by every cell vector
    app = [e for e in ev.events if e.kind == "call" and e.target is not None and e.target.key().endswith(".append") and len(e.loops) == 2]
    batched = False
    if not app:
        batched = _batched_supercell(chk, q, defs, size)
    chk.need(len(app) == 1 or batched, f"{q}: molecule append inside the double loop not found")
    if not batched:
        e = app[0]
        outer, inner = e.loops
        prod_ok = outer.iter is not None and call_name(outer.iter.as_atom() or ()) == "itertools.product" and len(outer.iter.as_atom()[2]) == 3
        ranges_ok = prod_ok and all(x.key() == f"numpy.arange({size}[{k}])" for k, x in enumerate(outer.iter.as_atom()[2]))
        chk.ob("R13.4", CR, q, "cell offsets run over the product of arange(n1), arange(n2), arange(n3)", bool(ranges_ok), fingerprint="product",
               found=str(outer.iter))
        chk.ob("R13.4", CR, q, "every molecule of the unit cell is used in every cell", inner.iter is not None and inner.iter.key() == "self.unit_cell_molecules()",
               fingerprint="mols", found=str(inner.iter))
        arg = e.extra["args"][0].as_atom()
        okt = False
        if arg and call_name(arg) == ".translated":
            sh = arg[2][0].as_atom()
            if sh and sh[0] == "matmul":
                qrs, lat = sh[1]
                cell = P.atom(("sub", outer.iter, (outer.index,)))
                it = seq_items(qrs.as_atom()[2][0]) if qrs.as_atom() and qrs.as_atom()[0] == "call" else None
                okt = bool(it and [x.key() for x in it] == [P.atom(("sub", cell, (P.const(k),))).key() for k in range(3)]
                           and lat.key() in ("self.unit_cell.lattice", "self.unit_cell.direct"))
            okt = okt and arg[1].as_atom()[1].key() == P.atom(("sub", inner.iter, (inner.index,))).key()
        chk.ob("R13.4", CR, q, "each copy is the molecule translated (a copy, not in place) by [q, r, s] . lattice", okt, fingerprint="translate",
               found=str(e.extra["args"][0])[:160])
        lst = "$molecules" if "molecules" in defs else "$sc_mols"
        pos, nums, asym = defs.get("asym_pos"), defs.get("asym_nums"), defs.get("asymmetric_unit")
        chk.ob("R13.4", CR, q, "positions and atomic numbers are stacked from the same list of molecules, in the same order",
               pos is not None and nums is not None and "numpy.vstack" in pos.key() and ".positions" in pos.key() and lst in pos.key()
               and "numpy.hstack" in nums.key() and ".atomic_numbers" in nums.key() and lst in nums.key(), fingerprint="stack",
               found=f"{pos} / {nums}")
    asym = defs.get("asymmetric_unit")
    # Cartesian frames: the stacked positions are in the frame of self.unit_cell (translated copies of its molecules); a cell built
    # by from_lengths_and_angles is in the standard orientation, which self.unit_cell need not be (choose_trigonal_lattice, cells
    # given by vectors).  Converting positions with a cell of another frame scrambles the structure.
    chk.need(asym is not None and asym.as_atom() and len(asym.as_atom()[2]) >= 2, f"{q}: AsymmetricUnit(elements, positions) not found")
    fr = asym.as_atom()[2][1]
    sc_frame = "std" if sc is not None and sc.as_atom() and call_name(sc.as_atom()).endswith("from_lengths_and_angles") else cell_frame(sc, size)
    verdict, why = frac_in_supercell(fr, size, sc_frame)
    if verdict is None:
        raise AnalysisError(f"{q}: unrecognised computation of the supercell's fractional coordinates: {str(fr)[:120]}")
    chk.ob("R13.4", CR, q, "the new fractional coordinates are those of the stacked positions in the supercell: converted by a cell in the "
           "same Cartesian frame as the crystal's own cell (or taken in the own cell and divided by the size)", verdict, fingerprint="frac-new-cell",
           expected="self.to_fractional(positions) / size, or to_fractional of a supercell built from self.unit_cell's own vectors", found=why)
    chk.ob("R13.4", CR, q, "the elements handed to the new asymmetric unit come from the same stacking", "$asym_nums" in asym.as_atom()[2][0].key(),
           fingerprint="elements", found=str(asym.as_atom()[2][0])[:120])
    # the returned value: the constructor call itself, or the local object it was bound to (which may get its title set afterwards)
    ret = ev.returns[-1].value if ev.returns else None
    ra = ret.as_atom() if ret is not None else None
    if ra and ra[0] == "obj":
        ra = ra[3].as_atom()
    okc = bool(ra and call_name(ra).endswith("Crystal") and ra[2][0].key() == "$sc" and "SpaceGroup(1)" in ra[2][1].key() and ra[2][2].key() == "$asymmetric_unit")
    chk.ob("R13.4", CR, q, "the result is Crystal(new cell, P1, new asymmetric unit)", okc, fingerprint="result", found=str(ret)[:160])
