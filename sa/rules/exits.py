"""R<nn>.19  every exit of a function whose returned value a rule reads is an exit the rule has read.

Most obligations on 'what the function returns' were written against functions with one exit and read the value by a single index
(``ev.returns[-1]``).  A shortcut placed in front of the computation -- a fast path for a special input, a convenience return for a
flag -- is then an exit nobody looked at: seeds C01-18 (gather fast path in SymmetryOperation.apply), C03-18 (single-atom molecules),
C06-17 (props=False) passed for exactly that reason.  sa/symex.py:Returns records such reads; this rule reports each unread exit whose
value differs from the one the rule examined.  Not reported: exits that return None (the function has no value on that path), and
exits that answer from a memo / stored attribute under a presence test (they are the subject of the cache rules R<nn>.9 and C14).

A rule that deals with several exits itself iterates over ``ev.returns`` or reads with ``ev.returns.pick(i)``.

Tried and withdrawn: extending the rule to every obligation-site function whose exits no rule reads (obligations about events inside the
function), with a table of the 27 functions that have several results by design.  It reported every artificial shortcut of
tools/mutexits.py, but also 7 of the 180 independent refactorings (a path split into two exits, each the specialisation of the one
expression the original returned: UnitCell.monoclinic per unit, Crystal.from_cif_data per presence of the operation loop, parse_value /
Element.from_string with their exits regrouped).  Whether a new exit is a specialisation of the old value or a different computation is
not a structural fact, so that extension is not armed.
"""
from __future__ import annotations

from ..symex import RETURN_AUDIT


def qual_of(chk, rel, fnode):
    """qualified name of a function node of module rel (by position: rewritten copies of a function keep its line)."""
    try:
        mod = chk.repo.module(rel)
    except Exception:      # noqa: BLE001
        return None
    for q, n in mod.funcs.items():
        if n is fnode or (getattr(n, "name", None) == getattr(fnode, "name", "") and getattr(n, "lineno", -1) == getattr(fnode, "lineno", -2)):
            return q
    return None


def rid_of(chk):
    return f"R{chk.pid[1:]}.19"


def _memo_exit(e):
    k = e.value.key() if e.value is not None else ""
    for c, pol in e.guards:
        ck = c.key()
        if pol and (ck.startswith("hasattr(self") or ck.startswith("(in ") and "self." in ck or ck.startswith("(isnot None self.") or
                    ck.startswith("(isnot self.")):
            return True
    return k.startswith("getattr(self, '_")


def run(chk):
    rid = rid_of(chk)
    chk.rule(rid, "every exit of a function whose returned value a rule reads has been read: no shortcut return with another value in front of "
                  "(or beside) the computation the obligations describe", 0)
    if not chk.want(rid):
        return
    seen = set()
    n = 0
    for modname, fname, e, chosen, where in list(RETURN_AUDIT):
        if e.value is None or e.value.key() == "None" or _memo_exit(e):
            continue
        key = (modname, fname, e.value.key())
        if key in seen:
            continue
        seen.add(key)
        n += 1
        rel = "src/chmpy/" + "/".join(modname.split(".")[1:]) + ".py" if modname.startswith("chmpy") else modname
        guards = [("" if pol else "not ") + str(c)[:70] for c, pol in e.guards][-2:]
        chk.ob(rid, rel.replace("src/chmpy/", ""), fname, f"the exit at line {getattr(e.node, 'lineno', '?')} returns what the examined exit returns "
               f"(the obligations on the value of {fname} were evaluated on `{str(chosen.value)[:80]}`)", False, node=e.node,
               fingerprint=f"exit:{fname}:{e.value.key()[:60]}", expected=str(chosen.value)[:120],
               found=f"return {str(e.value)[:140]}" + (f" under {guards}" if guards else "") + f" (read at sa/rules/{where})")
    if not n:
        chk.ob(rid, "-", "-", "no function whose returned value a rule reads by a single index has another exit with a value of its own", True, fingerprint="exits:none")


def census(chk):
    """maintenance: functions evaluated in this run with several distinct value exits, and how their return list was read."""
    from ..symex import ALL_EVS
    out = {}
    for ev in ALL_EVS:
        vals = {}
        for e in list.__iter__(ev.returns):
            if e.value is None or e.value.key() == "None" or _memo_exit(e):
                continue
            vals.setdefault(e.value.key(), e)
        if len(vals) >= 2:
            k = (ev.returns.modname, getattr(ev.func, "name", "?"))
            out.setdefault(k, set()).update(set(ev.returns.touched.split()) or {"untouched"})
            out[k].add(f"n={len(vals)}")
    return out
