"""C09 — shape descriptors do not depend on pose or atom order: error dominance, one origin, equivariance tags, value kinds."""
from __future__ import annotations

import ast

from ..core import AnalysisError
from ..poly import P, _mentions
from ..symex import obj_init, Ev, find_atoms, call_name, seq_items
from .generic import string_value

SD = "shape/shape_descriptors.py"
DX = "interpolate/_density.pyx"
MOL = "core/molecule.py"
CR = "crystal/crystal.py"


def run(chk):
    repo = chk.repo
    sd = repo.module(SD)
    dx = repo.module(DX)
    chk.explanation = ("shape_descriptors.py, the Brent root finders of _density.pyx and the seven molecule / crystal entry points: "
                       "dominance of the 'surface not found' error over the transform, agreement of the origin given to the radial "
                       "kernel and to the property channel, translation-behaviour tags of origin (equivariant) and bounds (invariant), "
                       "value-kind of the argument that sizes the search bounds, sibling equality of the two root finders.")
    chk.rule("R09.1", "a missing surface is an error: the negative-radius test dominates the transform; the root finders return a negative sentinel when there is no sign change; both root finders are the same algorithm", 8)
    chk.rule("R09.2", "one origin per descriptor: the radii kernel and the property channel receive the same origin; the channel samples origin + r * direction", 6)
    chk.rule("R09.3", "entry points: the origin moves with the molecule (equivariant), the search bounds do not depend on position (invariant)", 10)
    chk.rule("R09.4", "the element lookup that sizes the search bounds is given an atomic number, not a loop index", 2)
    chk.rule("R09.5", "the crystal environment handed to a descriptor is complete (= C03 R03.1-R03.3 at the environment queries the "
                      "descriptor entry points call): extent, rounding/reduction direction, coordinate space", 12)
    if chk.want("R09.5"):
        from ..inherit import inherit
        inherit(chk, "R09.5", "c03", ["R03.1", "R03.2", "R03.3"],
                functions={"Crystal." + f for f in ENV_QUERIES} | {"Crystal.slab"} | helper_sites(repo))
    chk.rule("R09.8", "the single-point kernels the root finders call agree with the batch kernels (= C05 R05.3): a density that drops to exactly 0 beyond "
                      "the table gives the weight a spurious sign change that the root finder reports as a surface", 8)
    if chk.want("R09.8"):
        from ..inherit import inherit
        inherit(chk, "R09.8", "c05", ["R05.3"])
    chk.rule("R09.7", "the invariants the descriptor is made of are rotation invariant in structure (= C08 R08.1 degree blocks with weight one, "
                      "R08.4 fixed layout and expansion domain)", 6)
    if chk.want("R09.7"):
        from ..inherit import inherit
        inherit(chk, "R09.7", "c08", ["R08.1", "R08.4"])
    chk.rule("R09.10", "the coefficients the invariants are computed from are exact for band-limited radial functions, so that a rotated pose gives the "
                       "rotated coefficients: quadrature plumbing of the transform (one FFT norm, fft/ifft pairing, weights, phi grid, ntheta >= L + 1) (= C07 R07.7)", 8)
    if chk.want("R09.10"):
        from ..inherit import inherit
        inherit(chk, "R09.10", "c07", ["R07.7"])
    chk.rule("R09.6", "the charge model behind the 'esp' surface property is entry-aligned: M[i,j] is filled from dists[i,j] with the same "
                      "index set on both sides, per-atom parameters are collected in atom order, the solved vector is cut to the atoms", 5)
    if chk.want("R09.6"):
        r09_6(chk, repo)
    if chk.want("R09.1"):
        r09_1(chk, sd, dx)
    if chk.want("R09.2"):
        r09_2(chk, sd, dx)
        weight_roles(chk, "R09.2", sd)
    if chk.want("R09.3") or chk.want("R09.4"):
        r09_34(chk, repo)
    chk.assume("rotation independence (rests on C08 plus discretisation) and convergence of Brent's iteration are not decided")
    chk.assume("the density kernels see positions only through differences from the evaluation point (C05 R05.4)")


ENV_QUERIES = ("molecule_environment", "atomic_surroundings", "atom_group_surroundings", "functional_group_surroundings")


def helper_sites(repo):
    """Crystal helper methods that compute cell ranges (C03 treats them as sites of their own)."""
    cr = repo.module(CR)
    from .c03 import extent_calls, SITES
    out = set()
    for fn in cr.methods("Crystal"):
        if fn.name in SITES:
            continue
        if any(isinstance(n, (ast.Name, ast.Attribute)) and getattr(n, "id", getattr(n, "attr", None)) in ("ceil", "floor") for n in ast.walk(fn)):
            if extent_calls(cr.ev("Crystal." + fn.name)):
                out.add("Crystal." + fn.name)
    return out


DESCRIPTORS = (("stockholder_weight_descriptor", "sphere_stockholder_radii"), ("promolecule_density_descriptor", "sphere_promolecule_radii"))


SENTINEL_KILLERS = ("numpy.clip", ".clip", "numpy.maximum", "numpy.fmax", "abs", "numpy.abs", "numpy.absolute", "numpy.where", "numpy.nan_to_num")


def kernel_site(sd, ev, kern):
    """Where a descriptor obtains its radii: directly from the root-finder kernel, or through a local helper that is handed the kernel.
    -> dict(event, origin, helper, killers) ; killers = operations between the kernel's return and the caller that can hide the -1 sentinel."""
    direct = [e for e in ev.events if e.kind == "call" and call_name(e.value.as_atom() or ()).endswith(kern)]
    if len(direct) == 1:
        return {"event": direct[0], "origin": direct[0].extra["args"][1], "helper": None, "killers": [], "hev": None}
    for e in ev.events:
        if e.kind != "call":
            continue
        a = e.value.as_atom()
        if not a or a[0] != "call":
            continue
        c = a[1].as_atom()
        if not (c and c[0] == "name" and c[1] in sd.funcs):
            continue
        kpos = [i for i, x in enumerate(a[2]) if x.as_atom() and x.as_atom()[0] == "name" and x.as_atom()[1].endswith(kern)]
        if not kpos:
            continue
        h = c[1]
        hev = sd.ev(h)
        hp = hev.param_names
        solver = hp[kpos[0]]
        inner = [x for x in hev.events if x.kind == "call" and x.value.as_atom() and x.value.as_atom()[0] == "call"
                 and x.value.as_atom()[1].key() == solver]
        if len(inner) != 1:
            raise AnalysisError(f"{SD}:{h}: expected one call of the root finder handed in as '{solver}'")
        oa = inner[0].extra["args"][1].as_atom()
        if not (oa and oa[0] == "name" and oa[1] in hp):
            raise AnalysisError(f"{SD}:{h}: the origin given to the root finder is not a parameter of the helper")
        origin = a[2][hp.index(oa[1])]
        killers = []
        for x in hev.events:
            if x.kind == "call" and call_name(x.value.as_atom() or ()) in SENTINEL_KILLERS:
                killers.append(f"line {x.lineno}: {str(x.value)[:90]}")
            if x.kind == "store" and x.target.as_atom() and x.target.as_atom()[0] == "sub" and find_atoms(x.target.as_atom()[2][0], lambda t: t[0] in ("lt", "le")):
                killers.append(f"line {x.lineno}: masked overwrite {str(x.target)[:70]}")
        return {"event": e, "origin": origin, "helper": h, "killers": killers, "hev": hev}
    return None


def _kernel_output(term, kern):
    """kernel(...)  or  kernel(...).reshape(<any shape>): the root finder's result, at most reshaped."""
    a = term.as_atom()
    if a and a[0] == "call" and call_name(a) == ".reshape":
        a = a[1].as_atom()[1].as_atom()
    return bool(a and a[0] == "call" and (call_name(a) or "").endswith(kern))


def r09_1(chk, sd, dx):
    for q, kern in DESCRIPTORS:
        ev = sd.ev(q, opaque={"r", "o"})
        chk.saw(SD, q)
        raises = [e for e in ev.events if e.kind == "raise"]
        neg = None
        for e in raises:
            for c, pol in e.guards:
                ca = c.as_atom()
                if pol and ca and call_name(ca) in ("numpy.any", "any") and find_atoms(c, lambda a: a[0] == "lt" and a[2] == P.const(0) and a[1].key().startswith("$r")):
                    neg = c
        chk.ob("R09.1", SD, q, "any negative radius raises", neg is not None, fingerprint="raise", found=[str(e.value)[:60] for e in raises])
        uses = [e for e in ev.events if e.kind == "call" and (call_name(e.value.as_atom() or ()) in (".analysis", "_compute_property_in_j_channel"))]
        chk.need(len(uses) >= 2, f"{q}: transform / property-channel calls not found")
        for e in uses:
            dominated = neg is not None and any(c.key() == neg.key() and not pol for c, pol in e.guards)
            # the tested radii are the ones transformed: first version of r (the channel call rebinds r)
            chk.ob("R09.1", SD, q, f"{call_name(e.value.as_atom())} runs only after the negative-radius test passed", dominated, node=e.node,
                   fingerprint=f"dominates:{call_name(e.value.as_atom())}", found=[f"{'' if p else 'not '}{c}"[:70] for c, p in e.guards])
        rdef = [v for k, v in ev.defs.items() if k[1] == "r"]
        site = kernel_site(sd, ev, kern)
        if site is not None and site["helper"]:
            chk.saw(SD, site["helper"])
            chk.ob("R09.1", SD, q, "the radii reach the negative-radius test as the root finder returned them (only reshaped: nothing between the two "
                   "may turn the -1 sentinel into an admissible radius)", bool(rdef) and site["helper"] in rdef[0].key() and not site["killers"],
                   node=site["event"].node, fingerprint="sentinel-survives", found=site["killers"][:2] or str(rdef[0])[:100])
        else:
            chk.ob("R09.1", SD, q, "the radii tested are the kernel's output for this grid",
                   bool(rdef) and _kernel_output(rdef[0], kern), found=str(rdef[0])[:120] if rdef else None)
            # nothing between the kernel and the test may rewrite the radii (a clip / maximum / abs turns the -1 sentinel into a radius)
            first_raise = min((ev.events.index(e) for e in raises), default=len(ev.events))
            redefs = [e for i, e in enumerate(ev.events) if i < first_raise and e.kind in ("assign", "store", "aug")
                      and ((e.kind == "assign" and e.name == "r") or (e.kind != "assign" and e.target.key().startswith(("$r[", "$r."))))]
            later = []
            for e in redefs:
                vk = e.value.key() if e.value is not None else ""
                if kern in vk:
                    continue
                kills = e.kind != "assign" or bool(find_atoms(e.value, lambda a: a[0] == "call" and call_name(a) in SENTINEL_KILLERS))
                shape_only = not kills and all(call_name(a) in (".reshape", ".astype", ".ravel", ".flatten", ".copy", "numpy.asarray", "numpy.ascontiguousarray",
                                                              "numpy.array", "numpy.reshape")
                                               for a in find_atoms(e.value, lambda a: a[0] == "call")) and not e.value.is_poly()
                if kills:
                    later.append(e)
                elif not shape_only:
                    raise AnalysisError(f"{SD}:{q}: the radii are rewritten before the negative-radius test in a way that is not recognised: {vk[:100]}")
            # ... nor overwrite the kernel's array in place before it is bound to a name (np.clip(kernel(...), lo, hi, out=<same array>))
            for i, e in enumerate(ev.events):
                if i < first_raise and e.kind == "call" and call_name(e.value.as_atom() or ()) in SENTINEL_KILLERS:
                    out = dict(e.extra.get("kwargs") or ()).get("out")
                    if out is not None and kern in out.key():
                        later.append(e)
            chk.ob("R09.1", SD, q, "the radii reach the negative-radius test as the root finder returned them (only reshaped: nothing between the two "
                   "may turn the -1 sentinel into an admissible radius)", not later, node=later[0].node if later else None,
                   fingerprint="sentinel-survives", found=[f"line {e.lineno}: r = {str(e.value)[:80]}" for e in later][:2])
    # root finders
    texts = {}
    for q, evalname in (("brents_stock", "one_weight"), ("brents_pro", "one_rho")):
        ev = dx.ev(q)
        chk.saw(DX, q)
        first_ret = ev.returns.pick(0)
        sentinel = first_ret.value.const_value()
        okg = any(pol and c.as_atom() and c.as_atom()[0] == "lt" and c.as_atom()[1] == P.const(0) for c, pol in first_ret.guards)
        chk.ob("R09.1", DX, q, "no sign change between the bounds returns a negative sentinel before iterating",
               sentinel is not None and sentinel < 0 and okg and not first_ret.loops, fingerprint=f"{q}:sentinel", found=f"return {first_ret.value}")
        other = [e for e in ev.returns[1:] if e.value.const_value() is not None and e.value.const_value() < 0]
        chk.ob("R09.1", DX, q, "no other exit returns a negative constant", not other, fingerprint=f"{q}:others")
        sub = {("name", ev.param_names[0]): P.name("OBJ")}
        lines = []
        for e in ev.events:
            if e.kind in ("assign", "return", "test", "call", "store"):
                v = e.value.subs(sub).key().replace(f".{evalname}(", ".EVAL(") if e.value is not None else ""
                t = e.target.subs(sub).key().replace(f".{evalname}", ".EVAL") if e.target is not None else ""
                g = "&".join(f"{'' if p else '!'}{c.subs(sub).key().replace(f'.{evalname}(', '.EVAL(')}" for c, p in e.guards)
                lines.append(f"{e.kind}|{t}|{v}|{g}|{len(e.loops)}")
        texts[q] = lines
    a, b = texts["brents_stock"], texts["brents_pro"]
    diff = [(x, y) for x, y in zip(a, b) if x != y]
    chk.ob("R09.1", DX, "brents_stock", "brents_stock and brents_pro are the same algorithm up to the evaluator they call",
           len(a) == len(b) and not diff, fingerprint="siblings", expected="identical event summaries",
           found=f"{len(a)} vs {len(b)} events; first difference: {diff[0] if diff else None}"[:400])
    # radii wrappers: o = origin, d = grid[i], result per direction
    for q, finder in (("sphere_stockholder_radii", "brents_stock"), ("sphere_promolecule_radii", "brents_pro")):
        ev = dx.ev(q)
        chk.saw(DX, q)
        call = [e for e in ev.events if e.kind == "call" and call_name(e.value.as_atom() or ()) == finder]
        st = [e for e in ev.events if e.kind == "store"]

        def cell(e2):
            t = e2.target.as_atom()
            b = t[1].as_atom() if t and t[0] == "sub" else None
            nm = b[1] if b and b[0] in ("obj", "name") else None
            return nm, tuple(i.key() for i in t[2]) if t and t[0] == "sub" else ()
        o_ok = all(any(cell(x) == ("o", (str(k),)) and x.value.key() == f"{ev.param_names[1]}[{k}]" for x in st) for k in range(3))
        d_ok = all(any(cell(x) == ("d", (str(k),)) and x.loops and x.value.key() == f"{ev.param_names[2]}[{x.loops[-1].index}, {k}]" for x in st) for k in range(3))
        a_ok = False
        if call:
            ca = call[0].extra["args"][:3]
            names = [x.as_atom()[1] if x.as_atom() and x.as_atom()[0] in ("obj", "name") else None for x in ca]
            a_ok = names == [ev.param_names[0], "o", "d"]
        out_ok = any(cell(x)[0] in ("rview", "r") and x.loops and x.value.key() == call[0].value.key() and cell(x)[1] == (x.loops[-1].index.key(),) for x in st) if call else False
        a_ok = a_ok and out_ok
        chk.ob("R09.1", DX, q, "every grid direction is searched from the given origin, component by component", o_ok and d_ok and a_ok,
               fingerprint=f"{q}:plumbing", found=f"o {o_ok} d {d_ok} args {a_ok}")
        # ... every direction: the loop and the result array run over the number of rows of the grid
        gname = ev.param_names[2]
        lp_ = call[0].loops[-1] if call and call[0].loops else None
        nrows = f"{gname}.shape[0]"
        alloc = [x.value for x in ev.events if x.kind == "assign" and x.value is not None and ("numpy.empty(" in x.value.key() or "numpy.zeros(" in x.value.key())]
        size_ok = bool(alloc) and all((obj_init(v).as_atom()[2][0].key() == nrows) for v in alloc)
        chk.ob("R09.1", DX, q, "one radius per grid direction: the loop runs over 0 .. grid.shape[0] and the result has that many entries",
               lp_ is not None and lp_.kind == "range" and lp_.lo == P.const(0) and lp_.hi is not None and lp_.hi.key() == nrows and size_ok,
               fingerprint=f"{q}:all-directions", found=f"loop [{lp_.lo if lp_ else None}, {lp_.hi if lp_ else None}), result sizes {[str(obj_init(v).as_atom()[2][0]) for v in alloc]}")


def weight_roles(chk, rid, sd):
    """stockholder_weight_descriptor(sht, n_i, p_i, n_e, p_e, ...): the weight whose 0.5 (isovalue) surface is described is
    interior / (interior + exterior + background) with the interior built from the first (numbers, positions) pair of the signature and
    the exterior from the second -- swapped, the surface solves exterior/(total) = isovalue, which differs for isovalue != 0.5 or a background."""
    q = "stockholder_weight_descriptor"
    ev = sd.ev(q)
    chk.saw(SD, q)
    ps = ev.param_names
    chk.need(len(ps) >= 5, f"{q}: expected (sht, n_i, p_i, n_e, p_e, ...)")
    ni, pi_, ne, pe = ps[1:5]
    calls = [e for e in ev.events if e.kind == "call" and (call_name(e.value.as_atom() or ()) or "").split(".")[-1] in ("from_arrays", "StockholderWeight")
             and "StockholderWeight" in (call_name(e.value.as_atom() or ()) or "")]
    chk.need(calls, f"{q}: construction of the StockholderWeight not found")
    ok, found = True, None
    for e in calls:
        a = e.extra["args"]
        if (call_name(e.value.as_atom()) or "").endswith("from_arrays"):
            good = len(a) >= 4 and [x.key() for x in a[:4]] == [ni, pi_, ne, pe]
        else:
            ka = [x.key() for x in a[:2]]
            good = len(ka) == 2 and ni in ka[0] and pi_ in ka[0] and ne not in ka[0] and pe not in ka[0] \
                and ne in ka[1] and pe in ka[1] and ni not in ka[1] and pi_ not in ka[1]
        if not good:
            ok, found = False, found or str(e.value)[:160]
    chk.ob(rid, SD, q, "the weight is built with the interior atoms (first numbers/positions pair of the signature) as interior and the "
           "surrounding atoms as exterior", ok, node=calls[0].node, fingerprint="weight-roles", expected=f"from_arrays({ni}, {pi_}, {ne}, {pe}, ...)",
           found=found)


def r09_2(chk, sd, dx):
    for q, kern in DESCRIPTORS:
        ev = sd.ev(q, opaque={"o", "r", "s", "pro", "g"})
        site = kernel_site(sd, ev, kern)
        pc = [e for e in ev.events if e.kind == "call" and call_name(e.value.as_atom() or ()) == "_compute_property_in_j_channel"]
        chk.need(site is not None and len(pc) == 1, f"{q}: radii kernel / property channel calls not found")
        ko = site["origin"]
        po = dict(pc[0].extra["kwargs"]).get("origin")
        if po is None and len(pc[0].extra["args"]) > 3:
            po = pc[0].extra["args"][3]
        chk.ob("R09.2", SD, q, "the property channel is sampled around the same origin the radii were measured from",
               po is not None and po.key() == ko.key(), node=pc[0].node, fingerprint="origin",
               expected=f"origin={ko}", found=f"origin={po}" if po is not None else "no origin passed (defaults to the coordinate origin)")
        odef = [v for k, v in ev.defs.items() if k[1] == "o"]
        chk.ob("R09.2", SD, q, "the origin defaults to the mean position of the interior atoms",
               bool(odef) and "kwargs.get('origin', numpy.mean(p_i, axis=0" in odef[0].key(), fingerprint="default-origin", found=str(odef[0])[:120] if odef else None)
        gev = site["hev"] if site["helper"] else ev
        gd = [e for e in gev.events if e.kind == "store" and (e.target.key().startswith("$g[") or e.target.key().startswith("<g@"))]
        from .generic import flat_of, stack_columns
        okg = len(gd) == 3 and all(any(e.target.key().endswith(f"[(slice None None None), {k}]") and flat_of(e.value).key() == f"sht.grid_cartesian[{k}]" for e in gd) for k in range(3))
        if len(gd) == 1 and gd[0].loops and gd[0].loops[-1].kind == "enumerate" and gd[0].loops[-1].lo in (None, P.const(0)) \
                and gd[0].loops[-1].iter is not None and gd[0].loops[-1].iter.key() == "sht.grid_cartesian":
            # for k, comp in enumerate(sht.grid_cartesian): g[:, k] = comp.flatten()  - every component into the column of its own number
            i = gd[0].loops[-1].index
            okg = gd[0].target.key().endswith(f"[(slice None None None), {i.key()}]") and flat_of(gd[0].value).key() == f"sht.grid_cartesian[{i.key()}]"
        if not gd:
            # the direction array built in one go: column_stack / c_ / stack(axis=1) of the flattened components
            gdefs = [v for k, v in gev.defs.items() if k[0] == "local" and k[1] == "g"]
            cols = stack_columns(gdefs[0]) if gdefs else None
            okg = bool(cols) and len(cols) == 3 and all(flat_of(c).key() == f"sht.grid_cartesian[{k}]" for k, c in enumerate(cols))
        chk.ob("R09.2", SD, q, "grid directions are the x, y, z components of the transform's Cartesian grid, in order", okg,
               fingerprint="grid", found=[f"{e.target}={e.value}" for e in gd])
    q = "_compute_property_in_j_channel"
    ev = sd.ev(q)
    chk.saw(SD, q)
    xyz = [e for e in ev.events if e.kind == "assign" and e.name == "xyz"]
    from .generic import flat_of, stack_columns
    ok1 = False
    if xyz:
        # direction columns times the flattened radii as a column:  stack(x, y, z) * r[:, None]
        v0 = xyz[0].value
        for A in v0.atoms():
            cols = stack_columns(P.atom(A))
            if cols and len(cols) == 3 and all(flat_of(c).key() == f"sht.grid_cartesian[{k}]" for k, c in enumerate(cols)):
                scale = v0 / P.atom(A)
                sk = scale.key()
                ok1 = sk in ("r.flatten()[(slice None None None), numpy.newaxis]", "r.ravel()[(slice None None None), numpy.newaxis]",
                             "r.reshape(-1, 1)", "r.reshape((tuple (-1 1)))", "r.flatten()[(slice None None None), None]",
                             "r.ravel()[(slice None None None), None]", "r.flatten().reshape(-1, 1)", "r.ravel().reshape(-1, 1)")
    ok2 = any(e.extra.get("aug") == "Add" and e.extra["delta"].key() == "origin" and any("origin" in c.key() and "None" in c.key() for c, p in e.guards) for e in xyz)
    chk.ob("R09.2", SD, q, "sample points are direction * r, shifted by the origin when one is given", ok1 and ok2,
           found=[str(e.value)[:100] for e in xyz])
    st = {e.target.key(): e.value.key() for e in ev.events if e.kind == "store"}
    okc = any(k.endswith(".real") and v == "r" for k, v in st.items()) and any(k.endswith(".imag") and "property_function(" in v for k, v in st.items())
    chk.ob("R09.2", SD, q, "the radius goes to the real channel and the property to the imaginary channel", okc, found=str(st)[:200])


def translation_tag(term: P, pos_keys, inv_keys=()):
    """'equiv' | 'inv' | None: behaviour of a term when all positions are shifted by one vector."""
    a = term.as_atom()
    k = term.key()
    if term.const_value() is not None:
        return "inv"
    if a is None:
        # polynomial: a difference of two equivariant terms is invariant; sum of inv terms is invariant
        if term.is_poly():
            coef_sum = 0
            kinds = []
            for m, c in term.n.items():
                if len(m) == 1 and m[0][1] == 1:
                    t = translation_tag(P.atom(m[0][0]), pos_keys, inv_keys)
                    kinds.append((t, c))
                elif not m:
                    kinds.append(("inv", c))
                else:
                    ts = [translation_tag(P.atom(x[0]), pos_keys, inv_keys) for x in m]
                    kinds.append(("inv" if all(t == "inv" for t in ts) else None, c))
            if any(t is None for t, _ in kinds):
                return None
            s = sum(c for t, c in kinds if t == "equiv")
            if s == 0:
                return "inv"
            if s == 1:
                return "equiv"
        return None
    if k in pos_keys:
        return "equiv"
    if k in inv_keys:
        return "inv"
    if a[0] == "call":
        cn = call_name(a) or ""
        if cn in ("numpy.mean",) and a[2] and dict(a[3] if len(a) > 3 else ()).get("axis") is not None:
            return translation_tag(a[2][0], pos_keys, inv_keys)
        if cn in ("numpy.array", "numpy.asarray", ".astype") and (a[2] or cn == ".astype"):
            inner = a[2][0] if cn != ".astype" else a[1].as_atom()[1]
            return translation_tag(inner, pos_keys, inv_keys)
        if cn in ("numpy.linalg.norm", "numpy.min", "numpy.max", "abs", "sqrt") and a[2]:
            t = translation_tag(a[2][0], pos_keys, inv_keys)
            return "inv" if t == "inv" else None
        if cn == "numpy.sum" and a[2]:
            # mass-weighted mean: sum(pos * w / sum(w), axis=0)
            arg = a[2][0]
            for pk in pos_keys:
                pa = [x for x in arg.atoms() if P.atom(x).key() == pk]
                if pa:
                    w = arg / P.atom(pa[0])
                    if not any(_mentions(w, x) for x in pa):
                        # weights sum to one?  w = m / sum(m)
                        return "equiv" if "numpy.sum(" in w.key() else None
            return None
        return None
    if a[0] == "attr":
        if a[2] in ("centroid", "center_of_mass") or k.endswith(".positions"):
            return "equiv"
        if a[2] in ("vdw_radius", "vdw", "cov", "mass", "atomic_numbers"):
            return "inv"
        return None
    if a[0] == "sub":
        t = translation_tag(a[1], pos_keys, inv_keys)
        return t
    if a[0] == "tuple":
        ts = {translation_tag(x, pos_keys, inv_keys) for x in a[1]}
        return ts.pop() if len(ts) == 1 else None
    return None


ENTRY = [(MOL, "Molecule.shape_descriptors"), (MOL, "Molecule.atomic_shape_descriptors"),
         (CR, "Crystal.functional_group_shape_descriptors"), (CR, "Crystal.molecule_shape_descriptors"),
         (CR, "Crystal.molecular_shape_descriptors"), (CR, "Crystal.atomic_shape_descriptors"), (CR, "Crystal.atom_group_shape_descriptors")]


def r09_34(chk, repo):
    for rel, q in ENTRY:
        mod = repo.module(rel)
        ev = mod.ev(q, opaque={"in_pos", "in_els", "masses", "neighbour_els", "neighbour_pos", "surrounds", "mol", "m", "inside", "outside", "pos", "els", "n"})
        chk.saw(rel, q)
        calls = [e for e in ev.events if e.kind == "call" and (call_name(e.value.as_atom() or ()) or "").endswith(("stockholder_weight_descriptor", "promolecule_density_descriptor"))]
        chk.need(calls, f"{q}: descriptor call not found")
        e = calls[0]
        kw = dict(e.extra["kwargs"])
        args = e.extra["args"]
        # positions of the interior atoms: third positional argument (sht, n_i, p_i, ...) or starred inside/outside
        pos_keys = set()
        for a in args:
            k = a.key()
            if "position" in k or "cart_pos" in k or k in ("in_pos", "pos"):
                pos_keys.add(k)
        for t in find_atoms(e.value, lambda t: t[0] == "attr" and t[2] == "positions"):
            pos_keys.add(P.atom(t).key())
        for t in find_atoms(e.value, lambda t: t[0] == "sub" and t[2] and string_value(t[2][0]) == "cart_pos"):
            pos_keys.add(P.atom(t).key())
        pos_keys |= {"$in_pos", "$pos"}
        if len(args) > 2:
            pos_keys.add(args[2].key())
        if chk.want("R09.3"):
            org = kw.get("origin")
            if org is not None:
                t = translation_tag(org, pos_keys)
                chk.ob("R09.3", rel, q, "the origin handed to the descriptor moves with the atoms (centroid / weighted mean of positions)",
                       t == "equiv", node=e.node, fingerprint="origin", expected="equivariant under translation", found=f"{str(org)[:120]} tagged {t}")
            else:
                chk.ob("R09.3", rel, q, "no origin is passed: the descriptor's default (mean of the interior positions) moves with the atoms",
                       True, node=e.node, fingerprint="origin-default", nontrivial=False)
            b = kw.get("bounds")
            if b is not None:
                t = translation_tag(b, pos_keys, inv_keys={"ubound"})
                # bounds built from distances to the (equivariant) origin are invariant
                if t is None:
                    it = seq_items(b)
                    ok_items = []
                    for x in it or []:
                        tx = translation_tag(x, pos_keys)
                        ok_items.append(tx)
                    t = "inv" if it and all(x == "inv" for x in ok_items) else None
                chk.ob("R09.3", rel, q, "the search bounds do not change when the system is translated", t == "inv", node=e.node,
                       fingerprint="bounds", expected="invariant under translation", found=f"{str(b)[:140]} tagged {t}")
            else:
                chk.ob("R09.3", rel, q, "no bounds are passed: the descriptor's constant default applies", True, node=e.node,
                       fingerprint="bounds-default", nontrivial=False)
        if chk.want("R09.4"):
            b = kw.get("bounds")
            n_i = args[1].key() if len(args) > 1 else None
            for t in find_atoms(b if b is not None else P.const(0), lambda t: t[0] == "attr" and t[2] in ("vdw_radius", "vdw", "cov", "covalent_radius")):
                owner = t[1].as_atom()
                if not (owner and owner[0] == "sub" and owner[1].key().endswith("Element") and len(owner[2]) == 1):
                    continue
                arg = owner[2][0]
                # resolve an opaque local
                aa = arg.as_atom()
                if aa and aa[0] == "local" and aa in ev.defs:
                    arg = ev.defs[aa]
                    aa = arg.as_atom()
                is_index = bool(aa and aa[0] == "lv")
                is_number = "['element']" in arg.key() or "atomic_number" in arg.key() or (aa is not None and aa[0] == "sub" and "elements" in arg.key())
                if not is_index and not is_number:
                    continue            # unknown provenance: no verdict
                chk.ob("R09.4", rel, q, "the element whose radius sizes the search bounds is looked up by atomic number", is_number and not is_index,
                       node=e.node, fingerprint="element-arg", expected="an atomic number (e.g. elements[n])",
                       found=f"Element[{arg}]" + (" : the loop index over atoms, not an atomic number" if is_index else ""))


# ------------------------------------------------------------------------------------------------ R09.6
def r09_6(chk, repo):
    """Atom-order independence of the EEM charges needs every matrix entry (i, j) to come from the pair (i, j)."""
    EXT = "ext/charges.py"
    mod = repo.module(EXT)
    q = "EEM.calculate_charges"
    ev = mod.ev(q)
    chk.saw(EXT, q)
    molp = ev.param_names[0]
    n = 0
    for e in ev.events:
        if e.kind not in ("store", "aug"):
            continue
        t = e.target.as_atom()
        if not (t and t[0] == "sub" and len(t[2]) == 1):
            continue
        ia = t[2][0].as_atom()
        if not (ia and ia[0] == "call" and call_name(ia) in ("numpy.triu_indices", "numpy.tril_indices", "numpy.diag_indices", "numpy.nonzero", "numpy.where")):
            continue
        n += 1
        rhs = [a for a in find_atoms(e.value, lambda a: a[0] == "sub")]
        idxs = {a[2][0].key() if len(a[2]) == 1 else str([x.key() for x in a[2]]) for a in rhs}
        chk.ob("R09.6", EXT, q, "a pair-indexed store reads its right-hand side at the same index set (entry (i,j) from pair (i,j))",
               idxs <= {t[2][0].key()}, node=e.node, fingerprint=f"aligned:{call_name(ia)}", expected=str(t[2][0]),
               found=sorted(idxs))
        src = {a[1].key() for a in rhs}
        chk.ob("R09.6", EXT, q, "the off-diagonal entries are kappa / distance of that pair", e.value.key() == f"(EEM_KAPPA)/({molp}.distance_matrix[{t[2][0]}])",
               node=e.node, fingerprint=f"value:{call_name(ia)}", found=str(e.value)[:120])
    tri = {call_name(e.target.as_atom()[2][0].as_atom()) for e in ev.events if e.kind == "store" and e.target.as_atom()[0] == "sub"
           and len(e.target.as_atom()[2]) == 1 and e.target.as_atom()[2][0].as_atom() and e.target.as_atom()[2][0].as_atom()[0] == "call"}
    chk.ob("R09.6", EXT, q, "both triangles of the interaction block are filled", {"numpy.triu_indices", "numpy.tril_indices"} <= tri, fingerprint="both",
           found=sorted(tri))
    apps = [e for e in ev.events if e.kind == "call" and e.target is not None and e.target.key().endswith(".append") and e.loops]
    okp = len(apps) == 2 and len({e.loops[-1].k for e in apps}) == 1 and apps[0].loops[-1].iter is not None and \
        apps[0].loops[-1].iter.key() == f"{molp}.elements" and all(f"{molp}.elements[{e.loops[-1].index}].symbol" in e.extra["args"][0].key() for e in apps)
    chk.ob("R09.6", EXT, q, "the per-atom parameters are collected in one loop over the molecule's elements, in atom order", okp, fingerprint="params",
           found=[str(e.extra["args"][0])[:80] for e in apps])
    ret = ev.returns[-1].value
    chk.ob("R09.6", EXT, q, "the charges are the first N entries of the solution", ret.key().endswith(f"[(slice None len({molp}) None)]") and "numpy.linalg.solve" in ret.key(),
           fingerprint="cut", found=str(ret))
    chk.need(n >= 2, f"{q}: pair-indexed stores into the interaction matrix not found")
