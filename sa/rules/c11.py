"""C11 — symmetry-operation codec, equality key, application forms."""
from __future__ import annotations

import ast
from fractions import Fraction

from ..core import AnalysisError
from ..poly import P
from ..symex import obj_init, Ev, find_atoms, call_name, seq_items, transpose
from ..tables import sgmodel as M
from .generic import string_value

SO = "crystal/symmetry_operation.py"
SG = "crystal/space_group.py"
CR = "crystal/crystal.py"


def linear_form(p: P):
    """{atom: coefficient} + constant for a polynomial that is linear in its atoms; None otherwise."""
    if not p.is_poly():
        return None
    out = {}
    const = Fraction(0)
    for m, c in p.n.items():
        if not m:
            const = c
        elif len(m) == 1 and m[0][1] == 1:
            out[m[0][0]] = c
        else:
            return None
    return out, const


def digit_extract(term: P):
    """Recognise floor((X mod m) / w)  or  (X // w) mod r ; return (X, w, radix) or None."""
    a = term.as_atom()
    if not a or a[0] != "bin":
        return None
    if a[1] == "FloorDiv":
        w = a[3].const_value()
        inner = a[2].as_atom()
        if w is not None and inner and inner[0] == "bin" and inner[1] == "Mod":
            m = inner[3].const_value()
            if m is not None and m % w == 0:
                return inner[2], int(w), int(m // w)
        if w is not None:
            return a[2], int(w), None          # most significant digit written without a modulus
    if a[1] == "Mod":
        r = a[3].const_value()
        inner = a[2].as_atom()
        if r is not None and inner and inner[0] == "bin" and inner[1] == "FloorDiv":
            w = inner[3].const_value()
            if w is not None:
                return inner[2], int(w), int(r)
        if r is not None:
            return a[2], 1, int(r)
    return None


def strip_mods(x: P, must_divide: int):
    """X mod m1 mod m2 ... -> X, provided every modulus is a multiple of ``must_divide``."""
    while True:
        a = x.as_atom()
        if a and a[0] == "bin" and a[1] == "Mod":
            m = a[3].const_value()
            if m is not None and m % must_divide == 0:
                x = a[2]
                continue
        return x


def _twelfths(b: P, tr_name: str) -> bool:
    """b is element i of round(12 * t) (as integers), t the translation argument - itself or reduced modulo 1 first (12 (t mod 1) and
    12 t differ by a multiple of 12, which the digit's own reduction removes)."""
    a = b.as_atom()
    # element of the array
    if a and a[0] == "sub" and len(a[2]) == 1:
        a = a[1].as_atom()
    while a and a[0] == "call" and call_name(a) in (".astype",):
        a = a[1].as_atom()[1].as_atom()
    if not (a and a[0] == "call" and call_name(a) in ("round", "numpy.round", "numpy.rint") and a[2]):
        return False
    arg = a[2][0]
    t = arg / 12
    ta = t.as_atom()
    if ta and ta[0] == "bin" and ta[1] == "Mod" and ta[3] == P.const(1):
        ta = ta[2].as_atom()
    while ta and ta[0] == "call" and call_name(ta) in ("numpy.array", "numpy.asarray") and ta[2]:
        ta = ta[2][0].as_atom()
    return bool(ta and ta[0] == "name" and ta[1] == tr_name)


def run(chk):
    repo = chk.repo
    so = repo.module(SO)
    chk.explanation = ("symmetry_operation.py: the integer codec is unrolled (literal loops) into a linear form whose digit "
                       "weights, offsets and radices are compared with an independent exact model; translation digits must be "
                       "reduced modulo their radix because IEEE x % 1 can return exactly 1.0; construction-time wrapping; "
                       "one equality key; the three ways of applying an operation as matrix words; string codec structure.")
    chk.rule("R11.1", "codec weights: rotation element (i,j) has weight 3^(8-3i-j) and offset +-1, translation i has weight 3^9*12^(2-i) and scale 12; encoder, decoder and model agree", 26)
    chk.rule("R11.2", "every translation digit is reduced modulo its radix before packing / printing", 2)
    chk.rule("R11.3", "translations are wrapped at construction; derived operations go through the constructor", 4)
    chk.rule("R11.4", "one key (the integer code) for __eq__, __hash__, __lt__, is_identity; identity constant agrees with the model everywhere", 6)
    chk.rule("R11.5", "from_integer_code seeds the integer memo with its argument; memoised codes are computed from rotation and translation", 3)
    chk.rule("R11.8", "memoised representations are canonical: a memo attribute is only ever set to the encoder's output for the object's own "
                      "rotation and translation (the packed code given to from_integer_code is canonical by the codec bijection R11.1/R11.2)", 2)
    chk.rule("R11.6", "applying to (N,3), to homogeneous (N,4) and in Cartesian form is the same affine map", 5)
    chk.rule("R11.7", "string codec: normalisation before splitting, tokenizer character class, sign attached to the axis token, encoder emits only such tokens", 6)
    for r, f in (("R11.1", r11_1), ("R11.2", r11_2), ("R11.3", r11_3), ("R11.4", r11_4), ("R11.5", r11_5),
                 ("R11.6", r11_6), ("R11.7", r11_7), ("R11.8", r11_8)):
        if chk.want(r):
            f(chk, so)
    if chk.want("R11.7"):
        string_reader_call_sites(chk)
    chk.assume("rotation entries are in {-1,0,1} (documented precondition of the packed form)")
    chk.assume("IEEE-754: x % 1 lies in the closed interval [0, 1] (it returns exactly 1.0 for x = -1e-17)")
    chk.assume("the set of accepted string spellings and the enumeration of all 34,012,224 codes are executions and are not decided")


# ------------------------------------------------------------------------------------------------
def expand_weighted_sums(term: P, consts) -> P:
    """W @ X[ROWS, COLS]  /  numpy.dot(W, X[IDX])  /  numpy.einsum('i,i...->...', W, X[IDX])  with module-level constant vectors W, ROWS, COLS
    (sa/constfold.py)  ->  the explicit sum  W[0] * X[ROWS[0], COLS[0]] + ...   (what the digit loop computes)."""
    def const_of(t):
        a = t.as_atom()
        if a and a[0] == "name" and a[1].split(".")[-1] in consts and isinstance(consts[a[1].split(".")[-1]], list):
            return consts[a[1].split(".")[-1]]
        return None

    def explicit(w, x):
        W = const_of(w)
        xa = x.as_atom()
        if W is None or not (xa and xa[0] == "sub"):
            return None
        idx = [const_of(i) for i in xa[2]]
        if any(i is None or len(i) != len(W) for i in idx):
            return None
        tot = P.const(0)
        for k, wk in enumerate(W):
            tot = tot + P.const(wk) * P.atom(("sub", xa[1], tuple(P.const(i[k]) for i in idx)))
        return tot
    mapping = {}
    for a in find_atoms(term, lambda a: a[0] == "matmul" and len(a[1]) == 2):
        e = explicit(a[1][0], a[1][1]) or explicit(a[1][1], a[1][0])
        if e is not None:
            mapping[a] = e
    for a in find_atoms(term, lambda a: a[0] == "call" and call_name(a) == "numpy.einsum" and len(a[2]) == 3 and string_value(a[2][0]) in
                        ("i,i...->...", "i,i->", "i,i", "i...,i->...", "i,i->...")):
        e = explicit(a[2][1], a[2][2]) or explicit(a[2][2], a[2][1])
        if e is not None:
            mapping[a] = e
    # scalar integer constants of the module (a named radix) are the numbers they stand for
    for a in find_atoms(term, lambda a: a[0] == "name" and isinstance(consts.get(a[1].split(".")[-1]), int)
                        and not isinstance(consts.get(a[1].split(".")[-1]), bool)):
        mapping[a] = P.const(consts[a[1].split(".")[-1]])
    return term.subs(mapping) if mapping else term


def encoder_form(chk, so):
    from ..constfold import module_constants
    ev = so.ev("encode_symm_int")
    chk.saw(SO, "encode_symm_int")
    chk.need(len(ev.returns) >= 1, "encode_symm_int: no return")
    # the packed value is what the last exit returns; an exit in front of it with another value is reported by R11.19 (sa/rules/exits.py)
    ev.returns[-1].value = expand_weighted_sums(ev.returns[-1].value, module_constants(so.tree))
    lf = linear_form(ev.returns.pick(-1).value)
    if lf is None:
        raise AnalysisError("encode_symm_int: the packed value is not a linear form in the digits")
    return ev, lf


def r11_1(chk, so):
    ev, (terms, const) = encoder_form(chk, so)
    rot_name, tr_name = ev.param_names[0], ev.param_names[1]
    rot_digits, tr_digits = {}, {}
    for atom, coef in terms.items():
        # digit atoms: sub(BASE, (i, j)) / sub(BASE, (i,)) possibly wrapped in a Mod
        cur = P.atom(atom)
        de = digit_extract(cur)
        if de is not None and de[1] == 1:
            cur = de[0]
        a = cur.as_atom()
        if not a or a[0] != "sub":
            raise AnalysisError(f"encode_symm_int: unrecognised digit term {P.atom(atom)}")
        idx = tuple(i.const_value() for i in a[2])
        base = a[1]
        if len(idx) == 2:
            rot_digits[(int(idx[0]), int(idx[1]))] = (coef, base)
        elif len(idx) == 1:
            tr_digits[int(idx[0])] = (coef, base)
    chk.need(len(rot_digits) == 9 and len(tr_digits) == 3, "encode_symm_int: expected 9 rotation and 3 translation digits")
    for (i, j), (coef, base) in sorted(rot_digits.items()):
        w = M.R_WEIGHTS[3 * i + j]
        # base = 1 + <integer array of rotation>  -> offset +1 : constant part of base must be 1
        off = base - 1
        ok_off = rot_name in off.key() and off.as_atom() is not None
        chk.ob("R11.1", SO, "encode_symm_int", f"rotation element ({i},{j}) is packed as (value + 1) * 3^{8 - 3 * i - j}",
               coef == w and ok_off, fingerprint=f"enc-rot:{i}{j}", expected=f"weight {w}, offset +1", found=f"weight {coef}, digit {base}")
    for i, (coef, base) in sorted(tr_digits.items()):
        w = M.T_WEIGHTS[i] * M.ROT_RADIX
        b = strip_mods(base, 12)
        scale_ok = _twelfths(b, tr_name)
        chk.ob("R11.1", SO, "encode_symm_int", f"translation {i} is packed as round(12 t) * 3^9 * 12^{2 - i}",
               coef == w and scale_ok, fingerprint=f"enc-tr:{i}", expected=f"weight {w}, scale 12", found=f"weight {coef}, digit {base}")
    chk.ob("R11.1", SO, "encode_symm_int", "no constant offset besides the digit offsets", const == 0, found=str(const))
    # decoder
    dv = so.ev("decode_symm_int")
    chk.saw(SO, "decode_symm_int")
    code = P.name(dv.param_names[0])
    stores = [e for e in dv.events if e.kind == "store"]
    nrot = ntr = 0
    for e in stores:
        t = e.target.as_atom()
        idx = tuple(i.const_value() for i in t[2])
        if len(idx) == 2:
            i, j = int(idx[0]), int(idx[1])
            de = digit_extract(e.value + 1)
            ok = False
            found = str(e.value)
            if de is not None:
                X, w, radix = de
                X = strip_mods(X, w * 3)
                ok = w == M.R_WEIGHTS[3 * i + j] and X.key() == code.key() and (radix == 3 or (radix is None and w * 3 == M.ROT_RADIX
                                                                                               and False))
                if radix is None:
                    # most significant digit without modulus is only right if X was already reduced mod 3^9
                    ok = w == M.R_WEIGHTS[0] and (i, j) == (0, 0) and "19683" in e.value.key()
                found = f"digit of weight {w}, radix {radix} of {X}"
            nrot += 1
            chk.ob("R11.1", SO, "decode_symm_int", f"rotation element ({i},{j}) is digit 3^{8 - 3 * i - j} of the code, minus 1", ok,
                   node=e.node, fingerprint=f"dec-rot:{i}{j}", expected=f"weight {M.R_WEIGHTS[3 * i + j]}, radix 3, offset -1", found=found)
        elif len(idx) == 1:
            i = int(idx[0])
            de = digit_extract(e.value * 12)
            ok = False
            found = str(e.value)
            if de is not None:
                X, w, radix = de
                X = strip_mods(X, 1)
                xa = X.as_atom()
                hi = bool(xa and xa[0] == "bin" and xa[1] == "FloorDiv" and xa[2].key() == code.key()
                          and xa[3] == P.const(M.ROT_RADIX))
                ok = hi and w == M.T_WEIGHTS[i] and radix == 12
                found = f"digit of weight {w}, radix {radix} of {X}"
            ntr += 1
            chk.ob("R11.1", SO, "decode_symm_int", f"translation {i} is digit 12^{2 - i} of code // 3^9, divided by 12", ok,
                   node=e.node, fingerprint=f"dec-tr:{i}", expected=f"weight {M.T_WEIGHTS[i]}, radix 12, scale 1/12", found=found)
    chk.need(nrot == 9 and ntr == 3, f"decode_symm_int: expected 9 + 3 stores, found {nrot} + {ntr}")
    ret = dv.returns[0].value
    it = seq_items(ret)
    chk.ob("R11.1", SO, "decode_symm_int", "returns (rotation, translation) in that order",
           it is not None and len(it) == 2 and it[0].as_atom()[1] == "rotation" and it[1].as_atom()[1] == "translation",
           found=str(ret))
    chk.ob("R11.1", SO, "sgmodel", "the model's identity code is 16484 (3^9 digits 211121112)", M.IDENTITY == 16484, found=M.IDENTITY)


# ------------------------------------------------------------------------------------------------
def r11_2(chk, so):
    ev, (terms, const) = encoder_form(chk, so)
    for atom, coef in terms.items():
        cur = P.atom(atom)
        reduced = False
        de = digit_extract(cur)
        if de is not None and de[1] == 1 and de[2] == 12:
            reduced = True
            cur = de[0]
        a = cur.as_atom()
        if not a or a[0] != "sub" or len(a[2]) != 1:
            continue
        i = int(a[2][0].const_value())
        base = a[1]
        de2 = digit_extract(base)
        if de2 is not None and de2[1] == 1 and de2[2] == 12:
            reduced = True
        chk.ob("R11.2", SO, "encode_symm_int",
               f"translation digit {i} = round(12 t) with t in [0,1] ranges over 0..12 and is reduced % 12 before packing",
               reduced, fingerprint=f"digit-mod:{i}", expected="(round(12 t) % 12) * weight", found=str(P.atom(atom)))
    # string encoder
    sv = so.ev("encode_symm_str")
    chk.saw(SO, "encode_symm_str")
    fr = [e for e in sv.events if e.kind == "assign" and e.value is not None and "limit_denominator" in e.value.key()]
    chk.need(fr, "encode_symm_str: Fraction(...).limit_denominator(...) not found")
    seen = set()
    for e in fr:
        if e.name in seen:
            continue
        # the value finally printed: look at what str() is applied to
        pass
    printed = []
    for e in sv.events:
        if e.kind == "call" and call_name(e.value.as_atom() or ()) == "str" and "limit_denominator" in e.value.key():
            printed.append(e)
    chk.need(printed, "encode_symm_str: printing of the translation fraction not found")
    okall = True
    for e in printed:
        arg = e.extra["args"][0]
        de = digit_extract(arg)
        ok = de is not None and de[1] == 1 and de[2] == 1 and "limit_denominator" in de[0].key()
        okall = okall and ok
    chk.ob("R11.2", SO, "encode_symm_str", "the printed translation is the limited fraction reduced modulo 1 "
           "(limit_denominator can round 1 - 1e-13 up to 1)", okall, fingerprint="str-mod",
           expected="Fraction(t).limit_denominator(12) % 1", found=str(printed[0].extra["args"][0]))


# ------------------------------------------------------------------------------------------------
def is_wrap(term: P, of: P):
    """term is a recognised wrap idiom of ``of``: x % 1, fmod(x + K, 1), x - floor(x)."""
    a = term.as_atom()
    if a and a[0] == "bin" and a[1] == "Mod" and a[3] == P.const(1) and a[2].key() == of.key():
        return True
    if a and a[0] == "call" and call_name(a) in ("numpy.fmod", "numpy.mod", "numpy.remainder") and len(a[2]) == 2 \
            and a[2][1] == P.const(1):
        d = a[2][0] - of
        c = d.const_value()
        return c is not None and c >= 0 and c.denominator == 1
    fl = P.atom(("call", P.name("floor"), (of,)))
    if term == of - fl:
        return True
    return False


def r11_3(chk, so):
    ev = so.ev("SymmetryOperation.__init__")
    chk.saw(SO, "SymmetryOperation.__init__")
    tr = rot = None
    for e in ev.events:
        if e.kind == "store" and e.target.key() == "self.translation":
            tr = e.value
        if e.kind == "store" and e.target.key() == "self.rotation":
            rot = e.value
    tparam = P.name(ev.param_names[2])
    chk.ob("R11.3", SO, "SymmetryOperation.__init__", "the translation is wrapped into the unit interval at construction",
           tr is not None and is_wrap(tr, tparam), expected=f"{tparam} % 1", found=str(tr))
    chk.ob("R11.3", SO, "SymmetryOperation.__init__", "the rotation is stored unchanged", rot is not None and rot.key() == ev.param_names[1],
           found=str(rot))
    R, T = P.atom(("attr", P.name("self"), "rotation")), P.atom(("attr", P.name("self"), "translation"))
    val = None
    for q, exp in (("SymmetryOperation.inverted", (-R, -T)),
                   ("SymmetryOperation.__add__", None), ("SymmetryOperation.__sub__", None)):
        v = so.ev(q)
        chk.saw(SO, q)
        ok = False
        found = None
        for e in v.returns:
            a = e.value.as_atom()
            found = str(e.value)
            if a and a[0] == "call" and a[1].key() in ("SymmetryOperation", "self.__class__", "type(self)") and len(a[2]) == 2:
                if exp is None:
                    val = P.name(v.param_names[1])
                    want = (R, T + val) if q.endswith("__add__") else (R, T - val)
                else:
                    want = exp
                ok = a[2][0] == want[0] and a[2][1] == want[1]
        chk.ob("R11.3", SO, q, f"{q.split('.')[1]} builds its result through the constructor (so the translation is wrapped again)",
               ok, found=found)


# ------------------------------------------------------------------------------------------------
def r11_4(chk, so):
    code_self = P.atom(("attr", P.name("self"), "integer_code"))
    for q, tag in (("SymmetryOperation.__eq__", "eq"), ("SymmetryOperation.__lt__", "lt")):
        ev = so.ev(q)
        chk.saw(SO, q)
        other = P.name(ev.param_names[1])
        code_other = P.atom(("attr", other, "integer_code"))
        a = ev.returns[0].value.as_atom()
        ok = bool(a and a[0] == tag and {a[1].key(), a[2].key()} == {code_self.key(), code_other.key()})
        if tag == "lt" and ok:
            ok = a[1].key() == code_self.key()
        chk.ob("R11.4", SO, q, f"{q.split('.')[1]} compares the integer codes of both operands", ok, found=str(ev.returns[0].value))
    ev = so.ev("SymmetryOperation.__hash__")
    v = ev.returns[0].value
    chk.ob("R11.4", SO, "SymmetryOperation.__hash__", "__hash__ is a function of the integer code only",
           v.key() in (code_self.key(), f"int({code_self})", f"hash({code_self})"), found=str(v))
    ev = so.ev("SymmetryOperation.is_identity")
    a = ev.returns[0].value.as_atom()
    ok = bool(a and a[0] == "eq" and {a[1].key(), a[2].key()} == {code_self.key(), str(M.IDENTITY)})
    chk.ob("R11.4", SO, "SymmetryOperation.is_identity", f"is_identity compares the integer code with the identity code {M.IDENTITY}",
           ok, found=str(ev.returns[0].value))
    ev = so.ev("SymmetryOperation.identity")
    a = ev.returns[0].value.as_atom()
    ok = bool(a and a[0] == "call" and call_name(a) == ".from_integer_code" and a[2][0] == P.const(M.IDENTITY))
    chk.ob("R11.4", SO, "SymmetryOperation.identity", "identity() decodes the model's identity code", ok, found=str(ev.returns[0].value))
    # G10: the literal used as 'identity code' elsewhere equals the model's
    sites = 0
    for rel, quals in ((SG, ("SpaceGroup.apply_all_symops",)), (CR, ("Crystal.symmetry_unique_molecules",)),
                       ("core/molecule.py", ("Molecule.asym_symops",))):
        mod = chk.repo.module(rel)
        for q in quals:
            if q not in mod.funcs:
                continue
            fn = mod.func(q)
            consts = {n.value for n in ast.walk(fn) if isinstance(n, ast.Constant) and isinstance(n.value, int)
                      and not isinstance(n.value, bool) and n.value > 10000}
            for c in sorted(consts):
                sites += 1
                chk.ob("R11.4", rel, q, f"the packed-operation literal {c} used as the identity equals the model's identity code",
                       c == M.IDENTITY, fingerprint=f"identity-literal:{c}", expected=M.IDENTITY, found=c)
    chk.need(sites >= 2, "identity-code literals outside symmetry_operation.py not found")


def string_reader_call_sites(chk):
    """The string reader accepts spaces inside an operation ('-X, 0.5+Y, 0.5-Z'): a caller that hands it one whitespace-delimited token of a
    line (line.split()[k]) has cut the operation at its first blank.  Every call site of from_string_code in the package is read."""
    n = 0
    for rel in chk.repo.all_py():
        try:
            mod = chk.repo.module(rel)
        except Exception:      # noqa: BLE001
            continue
        for qual, fn in mod.funcs.items():
            for node in ast.walk(fn):
                if not (isinstance(node, ast.Call) and isinstance(node.func, ast.Attribute) and node.func.attr == "from_string_code" and node.args):
                    continue
                arg = node.args[0]
                cut = None
                for sub in ast.walk(arg):
                    if isinstance(sub, ast.Subscript) and isinstance(sub.value, ast.Call) and isinstance(sub.value.func, ast.Attribute) \
                            and sub.value.func.attr in ("split", "rsplit") and not isinstance(sub.slice, ast.Slice):
                        sp = sub.value
                        maxsplit = (len(sp.args) >= 2) or any(k.arg == "maxsplit" for k in sp.keywords)
                        on_blank = not sp.args or (isinstance(sp.args[0], ast.Constant) and (sp.args[0].value is None or str(sp.args[0].value).isspace()))
                        if on_blank and not maxsplit:
                            cut = ast.unparse(sub)
                n += 1
                chk.ob("R11.7", rel, qual, "the string reader is handed the whole operation text (blanks inside an operation are part of the accepted "
                       "spellings), not one whitespace-delimited token of a line", cut is None, node=node, fingerprint=f"reader-call:{qual}",
                       expected="the rest of the line after the keyword (line[4:], line.split(None, 1)[1])", found=cut)
    chk.need(n >= 2, f"expected >= 2 call sites of from_string_code in the package, found {n}")


def r11_5(chk, so):
    ev = so.ev("SymmetryOperation.from_integer_code")
    chk.saw(SO, "SymmetryOperation.from_integer_code")
    code = P.name(ev.param_names[1])
    seeded = False
    built = False
    for e in ev.events:
        if e.kind == "call" and call_name(e.value.as_atom() or ()) == "setattr":
            a = e.extra["args"]
            if len(a) == 3 and string_value(a[1]) == "_integer_code" and a[2].key() == code.key():
                seeded = True
        if e.kind == "store" and e.target.key().endswith("._integer_code") and e.value.key() == code.key():
            seeded = True
        if e.kind == "call" and call_name(e.value.as_atom() or ()) == "decode_symm_int" and e.extra["args"][0].key() == code.key():
            built = True
    chk.ob("R11.5", SO, "SymmetryOperation.from_integer_code", "the operation is decoded from the given code", built)
    # ... and that decoded operation is what every exit hands out: an object constructed from the rotation and translation decode_symm_int(code) gives
    dec = f"decode_symm_int({code})"
    okret, badret = bool(ev.returns), None
    for r in ev.returns:
        v = obj_init(r.value) if r.value is not None else None
        a = v.as_atom() if v is not None else None
        good = bool(a and a[0] == "call" and (call_name(a) or "").split(".")[-1] in ("SymmetryOperation", ev.param_names[0]) and len(a[2]) == 2
                    and a[2][0].key() == f"{dec}[0]" and a[2][1].key() == f"{dec}[1]") or \
            bool(a and a[0] == "call" and (call_name(a) or "").split(".")[-1] in ("SymmetryOperation", ev.param_names[0]) and len(a[2]) == 1
                 and a[2][0].as_atom() and a[2][0].as_atom()[0] == "starred" and a[2][0].as_atom()[1].key() == dec)
        if not good:
            okret, badret = False, badret or r
    chk.ob("R11.5", SO, "SymmetryOperation.from_integer_code", "every exit returns the operation constructed from the decoded rotation and translation",
           okret, node=badret.node if badret is not None else None, fingerprint="decoded-returned",
           expected=f"SymmetryOperation({dec}[0], {dec}[1])", found=str(badret.value)[:120] if badret is not None else None)
    seeds = [e for e in ev.events if (e.kind == "call" and call_name(e.value.as_atom() or ()) == "setattr" and len(e.extra["args"]) == 3
                                      and string_value(e.extra["args"][1]) == "_integer_code") or
             (e.kind == "store" and e.target.key().endswith("._integer_code"))]
    chk.ob("R11.5", SO, "SymmetryOperation.from_integer_code", "if the integer memo is seeded here, then with that same code", seeded or not seeds,
           fingerprint="seed-int", found=[str(e.value)[:80] for e in seeds])
    ev = so.ev("SymmetryOperation.integer_code")
    ok = False
    for e in ev.events:
        if e.kind == "call" and call_name(e.value.as_atom() or ()) == "encode_symm_int":
            a = e.extra["args"]
            ok = len(a) == 2 and a[0].key() == "self.rotation" and a[1].key() == "self.translation"
    chk.ob("R11.5", SO, "SymmetryOperation.integer_code", "a missing memo is computed as encode_symm_int(rotation, translation)", ok)
    ev = so.ev("SymmetryOperation.__str__")
    ok = False
    for e in ev.events:
        if e.kind == "call" and call_name(e.value.as_atom() or ()) == "encode_symm_str":
            a = e.extra["args"]
            ok = len(a) == 2 and a[0].key() == "self.rotation" and a[1].key() == "self.translation"
    chk.ob("R11.5", SO, "SymmetryOperation.__str__", "a missing string memo is computed as encode_symm_str(rotation, translation)", ok)


def r11_8(chk, so):
    """Equal operations print identically only if the printed form never depends on how the operation was spelled at construction."""
    from ..memo import instance_memos
    memos = instance_memos(so, "SymmetryOperation")
    chk.need({"_integer_code", "_string_code"} <= set(memos), f"memo attributes of SymmetryOperation not found: {sorted(memos)}")
    enc = {"_integer_code": "encode_symm_int", "_string_code": "encode_symm_str"}
    for fn in so.methods("SymmetryOperation"):
        ev = so.ev(f"SymmetryOperation.{fn.name}")
        for e in ev.events:
            tgt = val = owner = None
            if e.kind == "call" and call_name(e.value.as_atom() or ()) == "setattr" and len(e.extra["args"]) == 3:
                owner, nm, val = e.extra["args"]
                tgt = string_value(nm)
            elif e.kind == "store" and e.target.as_atom() and e.target.as_atom()[0] == "attr":
                owner, tgt, val = e.target.as_atom()[1], e.target.as_atom()[2], e.value
            if tgt not in enc:
                continue
            chk.saw(SO, f"SymmetryOperation.{fn.name}")
            o = owner.key()
            va = val.as_atom()
            canonical = bool(va and va[0] == "call" and call_name(va) == enc[tgt] and len(va[2]) == 2 and
                             va[2][0].key() == f"{o}.rotation" and va[2][1].key() == f"{o}.translation")
            by_code = tgt == "_integer_code" and fn.name == "from_integer_code" and val.key() == ev.param_names[1]
            chk.ob("R11.8", SO, f"SymmetryOperation.{fn.name}", f"{tgt} is set to {enc[tgt]}(rotation, translation) of the same object"
                   + (" (or to the packed code the object was decoded from)" if tgt == "_integer_code" else ""), canonical or by_code,
                   node=e.node, fingerprint=f"seed:{tgt}", expected=f"{enc[tgt]}({o}.rotation, {o}.translation)", found=str(val)[:120])


# ------------------------------------------------------------------------------------------------
def r11_6(chk, so):
    ev = so.ev("SymmetryOperation.apply")
    chk.saw(SO, "SymmetryOperation.apply")
    x = P.name(ev.param_names[1])
    R, T = P.atom(("attr", P.name("self"), "rotation")), P.atom(("attr", P.name("self"), "translation"))
    S = P.atom(("attr", P.name("self"), "seitz_matrix"))
    from ..symex import matmul
    want3 = matmul(x, transpose(R)) + T
    want4 = matmul(x, transpose(S))
    got3 = got4 = None
    all3 = []
    for e in ev.returns:
        four = any(pol and "shape[1]" in c.key() and "4" in c.key() for c, pol in e.guards)
        if four:
            got4 = e.value
        else:
            all3.append(e.value)
    # every path that answers for 3-vectors (a fast path for special rotations included) returns the affine image
    bad3 = [v for v in all3 if v != want3]
    got3 = bad3[0] if bad3 else (all3[-1] if all3 else None)
    chk.ob("R11.6", SO, "SymmetryOperation.apply", "3-vectors: x . R^T + t on every path", bool(all3) and not bad3,
           expected=str(want3), found=str(got3))
    sl3 = "(slice None 3 None)"

    def seitz_of(ev_, objkey=None):
        """(is [[R, t], [0, 1]] of self, description) for the array object built in ev_ (the one named by objkey, or the only one)."""
        blocks, init = {}, None
        for e in ev_.events:
            if e.kind == "assign" and e.name and e.value.as_atom() and e.value.as_atom()[0] == "obj" and (objkey is None or e.value.key() == objkey):
                init = e.value.as_atom()[3]
            if e.kind == "store" and (objkey is None or e.target.as_atom()[1].key() == objkey):
                t = e.target.as_atom()
                blocks[", ".join(str(i) for i in t[2])] = e.value.key()
        # the matrix receives fractions: it must be a float matrix of its own, whatever dtype the rotation happens to have
        dt = dict(init.as_atom()[3]).get("dtype") if init is not None and init.as_atom() and len(init.as_atom()) > 3 and init.as_atom()[3] else None
        fl = dt is None or any(w in dt.key() for w in ("float", "double")) and ".dtype" not in dt.key()
        ok = fl and init is not None and call_name(init.as_atom() or ()) in ("numpy.eye", "numpy.identity") and init.as_atom()[2][0] == P.const(4) \
            and blocks.get(f"{sl3}, {sl3}") == "self.rotation" and blocks.get(f"{sl3}, 3") == "self.translation" and len(blocks) == 2
        return ok, f"{init} {blocks}" + ("" if fl else " (integer rotations give an integer matrix: the translation is truncated)")
    ok4 = got4 is not None and got4 == want4
    if got4 is not None and not ok4:
        # the Seitz matrix assembled on the spot (same construction as the property) instead of read from the property
        ga = got4.as_atom()
        if ga and ga[0] == "matmul" and len(ga[1]) == 2 and ga[1][0].key() == x.key():
            ta = ga[1][1].as_atom()
            if ta and ta[0] == "T" and ta[1].as_atom() and ta[1].as_atom()[0] == "obj":
                ok4 = seitz_of(ev, ta[1].key())[0]
    chk.ob("R11.6", SO, "SymmetryOperation.apply", "homogeneous 4-vectors: x . S^T with the Seitz matrix", ok4,
           expected=str(want4), found=str(got4))
    sv = so.ev("SymmetryOperation.seitz_matrix")
    chk.saw(SO, "SymmetryOperation.seitz_matrix")
    oks, founds = seitz_of(sv)
    chk.ob("R11.6", SO, "SymmetryOperation.seitz_matrix", "S = eye(4) with S[:3,:3] = R and S[:3,3] = t", oks, found=founds)
    # Cartesian form
    cr = chk.repo.module(CR)
    cv = cr.ev("Crystal.cartesian_symmetry_operations")
    chk.saw(CR, "Crystal.cartesian_symmetry_operations")
    app = [e for e in cv.events if e.kind == "call" and e.target is not None and e.target.key().endswith(".append")]
    elt = app[0].extra["args"][0] if len(app) == 1 else None
    if not app and cv.returns:
        # the same list as a comprehension: [(rotation, translation) for symop in ...]
        ca = cv.returns[-1].value.as_atom()
        if ca and ca[0] == "comp" and ca[1] == "ListComp" and len(ca) == 4 and len(ca[3]) == 1 and not ca[3][0][2]:
            elt = ca[2]
    chk.need(elt is not None, "cartesian_symmetry_operations: append not found")
    it = seq_items(elt)
    chk.need(it is not None and len(it) == 2, "cartesian_symmetry_operations: (rotation, translation) tuple not found")
    op = None
    for a in find_atoms(it[0], lambda a: a[0] == "attr" and a[2] == "rotation"):
        op = a[1]
    chk.need(op is not None, "cartesian_symmetry_operations: symop.rotation not found")
    Rr = P.atom(("attr", op, "rotation"))
    Tt = P.atom(("attr", op, "translation"))
    D = P.atom(("attr", P.atom(("attr", P.name("self"), "unit_cell")), "direct"))
    I = P.atom(("attr", P.atom(("attr", P.name("self"), "unit_cell")), "inverse"))
    from ..symex import matmul_list
    want = matmul_list([I, transpose(Rr), D])
    chk.ob("R11.6", CR, "Crystal.cartesian_symmetry_operations",
           "Cartesian rotation (used as x . M) is inverse . R^T . direct", it[0] == want, expected=str(want), found=str(it[0]))
    ta = it[1].as_atom()
    okt = bool(ta and ta[0] == "call" and call_name(ta) == ".to_cartesian" and ta[2][0] == Tt)
    chk.ob("R11.6", CR, "Crystal.cartesian_symmetry_operations", "Cartesian translation is to_cartesian(t)", okt, found=str(it[1]))


# ------------------------------------------------------------------------------------------------
def r11_7(chk, so):
    import re._parser as sre
    import re._constants as C
    dv = so.ev("decode_symm_str")
    chk.saw(SO, "decode_symm_str")
    s = P.name(dv.param_names[0])
    tok = None
    for e in dv.events:
        if e.kind == "assign" and e.name == "tokens":
            tok = e.value
    chain = []
    cur = tok
    while cur is not None:
        a = cur.as_atom()
        if a and a[0] == "call" and a[1].as_atom() and a[1].as_atom()[0] == "attr":
            chain.append((a[1].as_atom()[2], tuple(string_value(x) for x in a[2])))
            cur = a[1].as_atom()[1]
        else:
            break
    chain.reverse()
    names = [c[0] for c in chain]
    ok = cur is not None and cur.key() == s.key() and names and names[-1] == "split" and chain[-1][1] == (",",) \
        and "lower" in names and ("replace", (" ", "")) in chain
    chk.ob("R11.7", SO, "decode_symm_str", "the string is lower-cased and stripped of blanks before splitting on commas", ok,
           found=str(chain))
    node = so.toplevel_assign("SYMM_STR_SYMBOL_REGEX")
    chk.need(isinstance(node, ast.Call) and isinstance(node.args[0], ast.Constant), "SYMM_STR_SYMBOL_REGEX is not a literal")
    pat = node.args[0].value
    tree = list(sre.parse(pat))
    grp = [t for t in tree if t[0] is C.SUBPATTERN]
    chars = set()
    signs = set()
    okshape = False
    if len(grp) == 1:
        seq = list(grp[0][1][3])
        if len(seq) == 2 and seq[0][0] is C.MAX_REPEAT and seq[1][0] is C.MAX_REPEAT and seq[1][1][0] >= 1:
            okshape = True
            for k, v in list(seq[0][1][2])[0][1]:
                if k is C.LITERAL:
                    signs.add(chr(v))
            for k, v in list(seq[1][1][2])[0][1]:
                if k is C.LITERAL:
                    chars.add(chr(v))
                elif k is C.RANGE:
                    chars.update(chr(c) for c in range(v[0], v[1] + 1))
    need = set("xyz0123456789/.")
    chk.ob("R11.7", SO, "SYMM_STR_SYMBOL_REGEX", "a token is optional signs followed by a run of axis letters, digits, '/' and '.'",
           okshape and need <= chars and {"+", "-"} <= signs and not (chars & set("+-, ")), node=node, found=pat)
    # sign of an axis term comes from the token containing the letter
    oksign = True
    nax = 0
    for e in dv.events:
        if e.kind == "store" and "rotation" in e.target.key():
            nax += 1
            t = e.target.as_atom()
            col = t[2][1].const_value()
            letter = "xyz"[int(col)] if col is not None and 0 <= col < 3 else None
            g = [c for c, pol in e.guards if pol and c.as_atom() and c.as_atom()[0] == "in" and string_value(c.as_atom()[1]) in ("x", "y", "z")]
            v = e.value
            va = v.as_atom()
            good = bool(letter and g and string_value(g[-1].as_atom()[1]) == letter and va and va[0] == "ite"
                        and string_value(va[1].as_atom()[1]) == "-" + letter and va[2] == P.const(-1) and va[3] == P.const(1)
                        and va[1].as_atom()[2].key() == g[-1].as_atom()[2].key())
            oksign = oksign and good
    if nax == 1:
        # table-driven form: axis = next(a for a in AXES if a in token); rotation[i, AXES[axis]] = -1 if "-" + axis in token else 1
        e = [x for x in dv.events if x.kind == "store" and "rotation" in x.target.key()][0]
        col = e.target.as_atom()[2][1].as_atom()
        table = col[1].key() if col and col[0] == "sub" and len(col[2]) == 1 else None
        lit = None
        node_t = so.toplevel_assign(table) if table else None
        if isinstance(node_t, ast.Dict):
            try:
                lit = ast.literal_eval(node_t)
            except ValueError:
                lit = None
        ax = col[2][0] if table else None
        axa = ax.as_atom() if ax is not None else None
        picks = bool(axa and call_name(axa) == "next" and axa[2] and axa[2][0].as_atom() and axa[2][0].as_atom()[0] == "comp"
                     and f"(iter {table} ((in {table}[" in axa[2][0].key())
        va = e.value.as_atom()
        sign = bool(va and va[0] == "ite" and va[2] == P.const(-1) and va[3] == P.const(1) and va[1].as_atom() and va[1].as_atom()[0] == "in"
                    and va[1].as_atom()[1].key() == f"(concat ('-' {ax}))" and ax is not None and va[1].as_atom()[2].key() in axa[2][0].key())
        oksign = lit == {"x": 0, "y": 1, "z": 2} and list(lit) == ["x", "y", "z"] and picks and sign
        nax = 3 if oksign else 1
    chk.ob("R11.7", SO, "decode_symm_str", "column k of the rotation row is set from the token containing axis letter k, "
           "negative exactly when that token contains '-<letter>'", oksign and nax == 3, found=f"{nax} axis stores")
    # numeric terms keep their sign: the token reaches Fraction()/float() unstripped, or a helper that strips the sign puts it back on
    # every return path
    tstores = [e for e in dv.events if e.kind in ("store", "aug") and e.target.key().startswith(("<translation@", "translation[", "$translation"))
               and e.target.as_atom() and e.target.as_atom()[0] == "sub"]
    def _alternatives(t: P):
        """leaf alternatives of a term built from conditional expressions (helper bodies expanded into the function arrive like this)"""
        ites = find_atoms(t, lambda a: a[0] == "ite")
        if not ites:
            return [t]
        a = ites[0]
        return _alternatives(t.subs({a: a[2]})) + _alternatives(t.subs({a: a[3]}))

    def _strips(a):
        return a[0] == "call" and call_name(a) in (".lstrip", ".strip", ".replace") and a[2] and "-" in (string_value(a[2][0]) or "")
    for e in tstores:
        # the same discipline when the parser's body is part of this function (inline code, or a new helper expanded into it)
        if find_atoms(e.value, _strips):
            bad = []
            for alt in _alternatives(e.value):
                k = alt.key()
                if find_atoms(alt, _strips) and not (".count('-')" in k or ".startswith('-')" in k):
                    bad.append(str(alt)[:100])
            chk.ob("R11.7", SO, "decode_symm_str", "a numeric term keeps its sign: when the parser strips leading signs from the text, every path "
                   "multiplies the sign back in", not bad, node=e.node, fingerprint="term-sign:inline",
                   expected="sign * value on every path (or an unstripped Fraction(text))", found=bad[:2])
        helpers = [a for a in find_atoms(e.value, lambda a: a[0] == "call" and isinstance(a[1], P) and (a[1].as_atom() or ("",))[0] == "name"
                                         and a[1].as_atom()[1] in so.funcs)]
        for h in helpers:
            hq = h[1].as_atom()[1]
            hv = so.ev(hq)
            chk.saw(SO, hq)
            par = hv.param_names[0]
            stripped = [x for x in hv.events if x.kind == "assign" and x.value is not None and find_atoms(
                x.value, lambda a: a[0] == "call" and call_name(a) in (".lstrip", ".strip", ".replace") and a[2] and "-" in (string_value(a[2][0]) or ""))]
            signvars = {x.name for x in hv.events if x.kind == "assign" and x.value is not None
                        and (".count('-')" in x.value.key() or ".startswith('-')" in x.value.key() or "'-'" in x.value.key())
                        and x not in stripped}
            bad = []
            if stripped:
                for r in hv.returns:
                    if r.value is None:
                        continue
                    # the returned value is evaluated with the stripped text; it must also carry the sign taken before stripping
                    k = r.value.key()
                    if not (".count('-')" in k or ".startswith('-')" in k or any(f"<{sv}@" in k or f"${sv}" in k for sv in signvars)):
                        bad.append(f"line {r.lineno}: return {str(r.value)[:80]}")
            chk.ob("R11.7", SO, hq, "a numeric term keeps its sign: when the parser strips leading signs from the text, every return multiplies the sign back in",
                   not bad, node=so.funcs[hq], fingerprint=f"term-sign:{hq}", expected="sign * value on every path (or an unstripped Fraction(text))", found=bad[:2])
    from ..symex import obj_init
    wrap = any(e.kind == "assign" and e.name == "translation" and obj_init(e.value).as_atom()
               and obj_init(e.value).as_atom()[0] == "bin" and obj_init(e.value).as_atom()[1] == "Mod"
               and obj_init(e.value).as_atom()[3] == P.const(1) for e in dv.events)
    if not wrap:
        # reduced on the way out: return rotation, translation % 1 (every exit)
        def modded(r):
            it_ = seq_items(r.value) if r.value is not None else None
            a_ = obj_init(it_[1]).as_atom() if it_ and len(it_) == 2 else None
            return bool(a_ and a_[0] == "bin" and a_[1] == "Mod" and a_[3] == P.const(1))
        wrap = bool(dv.returns) and all(modded(r) for r in dv.returns)
    chk.ob("R11.7", SO, "decode_symm_str", "the decoded translation is reduced modulo 1", wrap)
    # encoder emits [sign]axis tokens and a fraction first
    ev = so.ev("encode_symm_str")
    syms = None
    for e in ev.events:
        if e.kind == "assign" and e.name == "symbols":
            syms = string_value(e.value)
    fn = getattr(ev, "fn", None) or so.func("encode_symm_str")        # the evaluated tree (helpers new to the rule set expanded)
    lits = {n.value for n in ast.walk(fn) if isinstance(n, ast.Constant) and isinstance(n.value, str) and len(n.value) <= 3}
    # the letter appended for a non-zero rotation[i][j] is "xyz"[j]: the assignment guarded by that entry adds exactly that letter at top level
    rot0 = ev.param_names[0]
    letters = {}
    signs_ok, prefix_ok, twelfths = {}, {}, {}
    for e in ev.events:
        if e.kind != "assign" or e.value is None or not e.guards:
            continue
        c, pol = e.guards[-1]
        ca = c.as_atom()
        if not (ca and ca[0] in ("eq", "ne") and pol == (ca[0] == "ne") and (ca[1] == P.const(0) or ca[2] == P.const(0))):
            continue            # (only the test "entry != 0" decides that a letter is written)
        ent = [a for a in find_atoms(c, lambda a: a[0] == "sub" and a[2] and a[2][0].const_value() is not None and a[1].as_atom()
                                     and a[1].as_atom()[0] == "sub" and a[1].as_atom()[1].key() == rot0)]
        ent += [a for a in find_atoms(c, lambda a: a[0] == "sub" and len(a[2]) == 2 and a[1].key() == rot0 and all(x.const_value() is not None for x in a[2]))]
        if len(ent) != 1:
            continue
        a = ent[0]
        ij = (int(a[1].as_atom()[2][0].const_value()), int(a[2][0].const_value())) if len(a[2]) == 1 else tuple(int(x.const_value()) for x in a[2])
        tops = list(e.value.atoms())
        va = e.value.as_atom()
        if va and va[0] == "concat":
            tops = [x.as_atom() for x in va[1] if x.as_atom()]
        top = {x[1] for x in tops if x[0] == "str" and len(x[1]) == 1 and x[1] in "xyzXYZabc"}
        if top:
            letters[ij] = top
            # the sign written in front of the letter: '-' exactly when that entry is negative
            its = [x for x in va[1]] if va and va[0] == "concat" else []
            sg = its[-2].as_atom() if len(its) >= 2 else None
            ent_key = P.atom(a).key()
            okneg = False
            if sg and sg[0] == "ite" and string_value(sg[2]) == "-" and string_value(sg[3]) == "+":
                cc = sg[1].as_atom()
                okneg = bool(cc and cc[0] == "lt" and cc[2] == P.const(0) and ent_key in cc[1].key()
                             and cc[1].key() in (ent_key, f"int(round({ent_key}))", f"round({ent_key})", f"int({ent_key})"))
            signs_ok[ij] = okneg
    # the fraction in front of a row: nothing for a zero translation, str(t) otherwise (wherever in the function it is put together)
    tr0 = ev.param_names[1]
    for e in ev.events:
        if e.kind != "assign" or e.value is None:
            continue
        for x in find_atoms(e.value, lambda t_: t_[0] == "ite" and t_[1].as_atom() and t_[1].as_atom()[0] == "eq" and tr0 in t_[1].key()):
            cq = x[1].as_atom()
            T = cq[1] if cq[2] == P.const(0) else cq[2] if cq[1] == P.const(0) else None
            if T is None:
                continue
            rows_ = {int(t_[2][0].const_value()) for t_ in find_atoms(T, lambda t_: t_[0] == "sub" and t_[1].key() == tr0 and len(t_[2]) == 1
                                                                      and t_[2][0].const_value() is not None)}
            if len(rows_) != 1:
                continue
            k_ = rows_.pop()
            good = string_value(x[2]) == "" and f"str({T})" in x[3].key()
            prefix_ok[k_] = prefix_ok.get(k_, True) and good
            dens = [t_ for t_ in find_atoms(T, lambda t_: t_[0] == "call" and call_name(t_) == ".limit_denominator" and t_[2])]
            twelfths[k_] = bool(dens) and all(d_[2][0].const_value() is not None and d_[2][0].const_value() >= 12 for d_ in dens)
    # the same encoder written per row with a sign table:  for j in flatnonzero(R[i, :]): v += SIGNS[i, j] + "xyz"[j]   with
    # SIGNS = where(R < 0, "-", "+")  - the non-zero test is the loop's source, letter and sign are looked up with the same (i, j)
    vec_rows = set()
    if not letters:
        for e in ev.events:
            if e.kind != "assign" or e.value is None or not e.loops or e.loops[-1].kind != "iter" or e.loops[-1].iter is None:
                continue
            it_a = e.loops[-1].iter.as_atom()
            if not (it_a and call_name(it_a) == "numpy.flatnonzero" and len(it_a[2]) == 1):
                continue
            src = it_a[2][0].as_atom()
            if not (src and src[0] == "sub" and src[2] and src[2][0].const_value() is not None and
                    (len(src[2]) == 1 or src[2][1].key().startswith("(slice None None None)"))):
                continue
            i_ = int(src[2][0].const_value())
            R_ = src[1]
            if rot0 not in R_.key():
                continue
            J = P.atom(("sub", e.loops[-1].iter, (e.loops[-1].index,)))
            letter = P.atom(("sub", P.atom(("str", "xyz")), (J,)))
            sign_tab = P.atom(("call", P.name("numpy.where"), (P.atom(("lt", R_, P.const(0))), P.atom(("str", "-")), P.atom(("str", "+")))))
            sign = P.atom(("sub", sign_tab, (P.const(i_), J)))
            tops_ = {P.atom(a).key() for a in e.value.atoms()}
            if letter.key() in tops_ and sign.key() in tops_:
                vec_rows.add(i_)
    if vec_rows == {0, 1, 2}:
        letters = {(i, j): {"xyz"[j]} for i in range(3) for j in range(3)}
        signs_ok = {k: True for k in letters}
    okletters = len(letters) == 9 and all(v == {"xyz"[j]} for (i, j), v in letters.items())
    chk.ob("R11.7", SO, "encode_symm_str", "axis symbols are 'xyz' in column order and signs are '+'/'-'",
           okletters and {"+", "-", ","} <= lits,
           found=f"{syms} {sorted(lits)} letters per entry {sorted((k, sorted(v)) for k, v in letters.items())[:4]}")
    chk.ob("R11.7", SO, "encode_symm_str", "the sign written before an axis letter is '-' exactly when that rotation entry is negative", len(signs_ok) == 9
           and all(signs_ok.values()), fingerprint="encoder-sign", expected="'-' if entry < 0 else '+'", found=sorted(k for k, v in signs_ok.items() if not v)[:3])
    chk.ob("R11.7", SO, "encode_symm_str", "a row starts with its translation as a fraction (twelfths representable) exactly when the translation is not zero",
           len(prefix_ok) == 3 and all(prefix_ok.values()) and all(twelfths.get(i) for i in range(3)), fingerprint="encoder-fraction",
           expected="str(t) if t != 0 else '' with t = Fraction(...).limit_denominator(12) % 1", found=f"fraction {prefix_ok}, denominators {twelfths}")
    from .generic import list_appends
    rows_out = None
    from ..symex import obj_init as _oi
    rv_ = _oi(ev.returns[-1].value) if ev.returns else None
    ra_ = rv_.as_atom() if rv_ is not None else None
    if ra_ and ra_[0] == "call" and len(ra_[2]) == 1 and rv_.key().startswith("','.join("):
        arg_ = ra_[2][0]
        its_ = seq_items(arg_)
        rows_out = len(its_) if its_ is not None else len(list_appends(ev, arg_))
    chk.ob("R11.7", SO, "encode_symm_str", "the string is the three rows joined by commas", rows_out == 3, fingerprint="encoder-rows",
           expected="','.join of three rows", found=f"{rows_out} rows")
    # component i of the string is row i of the rotation: every rotation entry consulted while building component i has row index i
    rot = ev.param_names[0]
    roots = {rot, f"numpy.asarray({rot})", f"numpy.array({rot})"}
    signs = {e.value.key() for e in ev.events if e.kind == "assign" and e.value is not None and call_name(e.value.as_atom() or ()) == "numpy.where"
             and any(r in e.value.key() for r in roots)}
    comp = None
    reads = {}

    def index_of(a):
        """(row, col) of a subscript chain on the rotation (or on the sign table derived from it); '*' = whole axis, 'v' = variable."""
        base = a[1]
        idx = list(a[2])
        ba = base.as_atom()
        if ba and ba[0] == "sub" and (ba[1].key() in roots or ba[1].key() in signs):
            idx = list(ba[2]) + idx
            base = ba[1]
        if base.key() not in roots and base.key() not in signs:
            return None
        out = []
        for x in idx[:2]:
            xa = x.as_atom()
            if x.const_value() is not None:
                out.append(int(x.const_value()))
            elif xa and xa[0] == "slice":
                out.append("*")
            else:
                out.append("v")
        return tuple(out)
    for e in ev.events:
        if e.kind == "assign" and e.name == "i" and e.value is not None and e.value.const_value() is not None and not e.loops:
            comp = int(e.value.const_value())
            continue
        if comp is None or e.value is None or (e.kind == "assign" and e.name in ("signs",)):
            continue
        for a in find_atoms(e.value, lambda a: a[0] == "sub"):
            ix = index_of(a)
            if ix and len(ix) == 2:
                reads.setdefault(comp, set()).add(ix)
    chk.need(set(reads) == {0, 1, 2}, f"encode_symm_str: rotation entries consulted per component not recognised: {reads}")
    # sibling agreement with encode_symm_int, which rounds the entries: a rotation that is exact up to 1e-16 must print like the exact one
    int_rounds = any(e.kind == "call" and call_name(e.value.as_atom() or ()) in ("round", "numpy.round", "numpy.rint") for e in so.ev("encode_symm_int").events)
    raw = []
    import re as _re
    for e in ev.events:
        if e.kind != "test" or e.value is None:
            continue
        k = e.value.key()
        stripped = _re.sub(r"(int\()?(numpy\.)?(round|rint)\((numpy\.(asarray|array)\()?%s\)?(\[[^\]]*\])+\)\)?" % _re.escape(rot), "R", k)
        if f"{rot}[" in stripped or f"({rot})[" in stripped:
            raw.append(str(e.value)[:60])
    chk.ob("R11.7", SO, "encode_symm_str", "rotation entries are rounded before they are tested, as encode_symm_int rounds them (equal operations print "
           "identically even with rounding noise in the matrix)", int_rounds and not raw, fingerprint="encoder-rounds",
           expected="c = int(round(rotation[i][j]))", found=raw[:3])
    bad = {i: sorted(map(str, (x for x in r if x[0] != i))) for i, r in reads.items() if any(x[0] != i for x in r)}
    chk.ob("R11.7", SO, "encode_symm_str", "entry (i, j) of the rotation decides the sign of symbol j in component i",
           not bad, fingerprint="encoder-rows", expected="component i reads rotation[i][j] only",
           found=f"component -> entries with another row index: {bad}" if bad else str({i: sorted(map(str, r)) for i, r in reads.items()}))
