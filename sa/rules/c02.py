"""C02 — every tabulated space-group setting is a closed, consistently identified group."""
from __future__ import annotations

import ast
from fractions import Fraction

from ..core import AnalysisError
from ..poly import P
from ..symex import Ev, find_atoms, call_name, seq_items, obj_init
from ..tables import sgmodel as M
from .generic import string_value, dict_items

SG = "crystal/space_group.py"
SO = "crystal/symmetry_operation.py"
TABLE = "crystal/sgdata.json"
FIELDS_EXPECTED = ["number", "short", "schoenflies", "full", "international", "pointgroup", "choice", "centering",
                   "symops", "centrosymmetric"]


def load_table(chk):
    raw = chk.repo.json(TABLE)
    chk.need(isinstance(raw, dict), "sgdata.json is no longer a dictionary keyed by IT number")
    sg = chk.repo.module(SG)
    nt = sg.toplevel_assign("_sgdata")
    chk.need(isinstance(nt, ast.Call) and len(nt.args) == 2, "_sgdata namedtuple definition not found")
    fields = ast.literal_eval(nt.args[1]).split()
    rows = []
    for key, lst in raw.items():
        for r in lst:
            rows.append((key, r))
    return fields, rows


def run(chk):
    repo = chk.repo
    sg = repo.module(SG)
    so = repo.module(SO)
    fields, rows = load_table(chk)
    chk.table(TABLE, len(rows))
    chk.explanation = ("all rows of sgdata.json are decoded with an independent exact model (integers, twelfths mod 12) and "
                       "checked for identity, closure under composition and inversion, flag agreement, lookup-key ordering; "
                       "the SHELX LATT semantics (centring translations, sign => inversion at the origin, coset coverage of "
                       "the reduction) are extracted from the code and turned into table obligations over every row.")
    chk.rule("T02.1", "rows: 10 fields, unique (number, choice), duplicate-free operation codes in range, sorted as the lookup key requires", 530)
    chk.rule("T02.2", "every row contains the identity and is closed under composition and inversion modulo the lattice", 530)
    chk.rule("T02.3", "the centrosymmetric flag holds exactly when some operation has rotation -I", 530)
    chk.rule("T02.4", "rows sharing an identical operation tuple share the IT number", 1)
    chk.rule("T02.5", "LATT centring is sound: the centring translations of the row's LATT number are pure translations of the group", 530)
    chk.rule("R02.1", "lookup by operations: the dictionary key and the query are canonicalised consistently", 2)
    chk.rule("R02.3", "LATT sign is sound: a positive LATT (expansion adds (-R,-t) for every operation) only when inversion at the origin belongs to the group", 1)
    chk.rule("R02.6", "the object's centrosymmetric flag is the table's flag (or 'some operation has rotation -I'), and the LATT expansion adds "
                      "the identity only when it is absent from the whole reduced list, so the expanded list is duplicate-free", 3)
    chk.rule("R02.4", "reduction tests the whole coset {+,-} x ({0} u T) against the kept list and works on a copy", 6)
    chk.rule("R02.5", "constructor selection: default choices exist, unknown choices raise, numbers are range-checked", 26)

    fidx = {f: i for i, f in enumerate(fields)}
    chk.need(all(f in fidx for f in ("number", "choice", "centering", "symops", "centrosymmetric")),
             f"_sgdata fields changed: {fields}")
    decoded = []
    for key, r in rows:
        ok = isinstance(r, list) and len(r) == len(fields)
        if not ok:
            chk.ob("T02.1", TABLE, f"row {key}", "row has one value per _sgdata field", False, fingerprint=f"arity:{key}:{r[:2]}",
                   expected=len(fields), found=len(r) if isinstance(r, list) else type(r).__name__)
            continue
        decoded.append((key, r))
    latt_tr, latt_of = latt_tables(chk, sg, so, set(fidx))

    if chk.want("T02.1"):
        sorted_needed = r02_1(chk, sg, emit=False)
        seen = {}
        for key, r in decoded:
            num, choice, ops = r[fidx["number"]], r[fidx["choice"]], r[fidx["symops"]]
            rid = f"{num}:{choice}"
            ok = str(num) == key and isinstance(ops, list) and all(isinstance(c, int) and 0 <= c < M.CODE_LIMIT for c in ops) \
                and len(set(ops)) == len(ops) and (not sorted_needed or ops == sorted(ops)) and (num, choice) not in seen \
                and isinstance(r[fidx["centrosymmetric"]], bool)
            seen[(num, choice)] = True
            chk.ob("T02.1", TABLE, f"setting {rid}", "well-formed row: number matches its key, unique (number, choice), "
                   "codes unique, in range" + (" and sorted ascending (lookup key is the stored order)" if sorted_needed else ""),
                   ok, fingerprint=f"row:{rid}")
    groups = {}
    for key, r in decoded:
        ops = r[fidx["symops"]]
        rid = f"{r[fidx['number']]}:{r[fidx['choice']]}"
        if not (isinstance(ops, list) and all(isinstance(c, int) and 0 <= c < M.CODE_LIMIT for c in ops)):
            continue
        groups[rid] = (r, [M.decode(c) for c in ops], set(ops))

    if chk.want("T02.2"):
        import numpy as np
        RW = np.array(M.R_WEIGHTS, dtype=np.int64).reshape(3, 3)
        TW = np.array(M.T_WEIGHTS, dtype=np.int64)
        for rid, (r, ops, codes) in groups.items():
            bad = None
            if M.IDENTITY not in codes:
                bad = "identity missing"
            elif not all(M.valid_entries(a[0]) for a in ops):
                bad = "rotation entry outside {-1,0,1}"
            else:
                for a in ops:
                    ia = M.inverse(a)
                    if ia is None or M.encode(*ia) not in codes:
                        bad = f"inverse of {M.encode(*a)} missing"
                        break
            if bad is None:
                # all n^2 compositions at once, in exact integer arithmetic (same model as sgmodel.compose)
                R = np.array([a[0] for a in ops], dtype=np.int64).reshape(-1, 3, 3)
                T = np.array([a[1] for a in ops], dtype=np.int64)
                RR = np.einsum("aij,bjk->abik", R, R)
                TT = (np.einsum("aij,bj->abi", R, T) + T[:, None, :]) % 12
                if np.abs(RR).max() > 1:
                    bad = "a product has a rotation entry outside {-1,0,1}"
                else:
                    prod = ((RR + 1) * RW).sum(axis=(2, 3)) + (TT * TW).sum(axis=2) * M.ROT_RADIX
                    inside = np.isin(prod, np.array(sorted(codes), dtype=np.int64))
                    if not inside.all():
                        ai, bi = np.argwhere(~inside)[0]
                        c = M.compose(ops[ai], ops[bi])
                        bad = f"{M.encode(*ops[ai])} o {M.encode(*ops[bi])} = {M.encode(*c)} not in the row"
            chk.ob("T02.2", TABLE, f"setting {rid}", f"the {len(ops)} operations form a group modulo the lattice", bad is None,
                   fingerprint=f"group:{rid}", found=bad)
    if chk.want("T02.3"):
        for rid, (r, ops, codes) in groups.items():
            has = any(a[0] == M.MINUS_I for a in ops)
            chk.ob("T02.3", TABLE, f"setting {rid}", "centrosymmetric flag <=> an operation with rotation -I exists",
                   bool(r[fidx["centrosymmetric"]]) == has, fingerprint=f"flag:{rid}", expected=has, found=r[fidx["centrosymmetric"]])
    if chk.want("T02.4"):
        by_ops = {}
        for rid, (r, ops, codes) in groups.items():
            by_ops.setdefault(tuple(sorted(codes)), []).append((rid, r[fidx["number"]]))
        n = 0
        for key, lst in by_ops.items():
            if len(lst) > 1:
                n += 1
                chk.ob("T02.4", TABLE, "settings " + ", ".join(x[0] for x in lst), "identical operation sets carry one IT number",
                       len({x[1] for x in lst}) == 1, fingerprint="same-ops:" + ",".join(x[0] for x in lst))
        chk.ob("T02.4", TABLE, "all settings", f"{len(by_ops)} distinct operation sets over {len(groups)} settings; "
               f"{n} sets shared by several settings all agree on the number", True, nontrivial=False)
    if chk.want("T02.5"):
        for rid, (r, ops, codes) in groups.items():
            cen = r[fidx["centering"]]
            latt = latt_of(r, fidx)
            ok = latt is not None and latt in latt_tr
            miss = None
            if ok:
                for tw in latt_tr[latt]:
                    code = M.encode((1, 0, 0, 0, 1, 0, 0, 0, 1), tw)
                    if code not in codes:
                        ok = False
                        miss = tw
            chk.ob("T02.5", TABLE, f"setting {rid}", f"centring '{cen}' (LATT {latt}): its translations are pure translations of the group",
                   ok, fingerprint=f"centring:{rid}", found=f"missing translation {miss}/12" if miss else f"centring {cen!r}: |LATT| not defined")
    if chk.want("R02.1"):
        r02_1(chk, sg, emit=True)
    if chk.want("R02.3"):
        r02_3(chk, sg, so, groups, fidx)
    if chk.want("R02.6"):
        r02_6(chk, sg, so, groups, fidx)
    if chk.want("R02.4"):
        r02_4(chk, so)
    if chk.want("R02.5"):
        r02_5(chk, sg, decoded, fidx)
    chk.rule("R02.7", "an operation set written as text (CIF symmetry loop, SHELX SYMM cards, str()) reads back as the same set, so that the lookup "
                      "finds the same setting: the x,y,z string codec is consistent (= C11 R11.7; entry (i, j) of the rotation decides symbol j of "
                      "component i -- transposed, 3-, 4- and 6-fold operations come back as their inverses and P4_1 as P4_3)", 6)
    if chk.want("R02.7"):
        from ..inherit import inherit
        inherit(chk, "R02.7", "c11", ["R11.7"])
    chk.assume("decode_symm_int implements the packing of the model (decided by C11 R11.1)")


# ------------------------------------------------------------------------------------------------
def latt_tables(chk, sg, so, fields=()):
    node = so.toplevel_assign("LATTICE_TYPE_TRANSLATIONS")
    chk.need(isinstance(node, ast.Dict), "LATTICE_TYPE_TRANSLATIONS is no longer a dict literal")
    out = {}
    ev = Ev([], so.ctx)
    for k, v in zip(node.keys, node.values):
        kk = ast.literal_eval(k)
        vecs = []
        items = seq_items(ev.ev(v)) or ()
        for vec in items:
            comps = seq_items(vec)
            chk.need(comps is not None and len(comps) == 3, f"LATTICE_TYPE_TRANSLATIONS[{kk}]: malformed vector")
            tw = []
            for c in comps:
                cv = c.const_value()
                chk.need(cv is not None and (cv * 12).denominator == 1, f"LATTICE_TYPE_TRANSLATIONS[{kk}]: component {c} is not a multiple of 1/12")
                tw.append(int(cv * 12) % 12)
            vecs.append(tuple(tw))
        out[kk] = vecs
    # centering_to_latt inside SpaceGroup.latt
    lv = sg.ev("SpaceGroup.latt")
    # |LATT| of a setting as the property computes it: the symbolic return value evaluated on the row's fields
    from ..concrete import concrete, NotConcrete
    iv = sg.ev("SpaceGroup.__init__")
    attr_field = {}
    for e in iv.events:
        if e.kind == "store" and e.target.key().startswith("self.") and e.value.as_atom() and e.value.as_atom()[0] == "attr" \
                and ("sgdata" in e.value.as_atom()[1].key() or (e.value.as_atom()[2] in fields and "SG_FROM_NUMBER" in e.value.as_atom()[1].key())):
            attr_field[e.target.key()] = e.value.as_atom()[2]
    mags = {}
    for r in lv.returns:
        v = r.value
        if v.is_poly() and len(v.n) == 1 and list(v.n.values())[0] in (1, -1):
            v = v * list(v.n.values())[0]
        mags[v.key()] = v
    chk.need(len(mags) == 1, f"SpaceGroup.latt: the returns do not share one magnitude: {sorted(mags)}")
    mag = list(mags.values())[0]
    # a lookup table kept at module level (the centring -> LATT dictionary hoisted out of the property) is read like the local one
    for na in find_atoms(mag, lambda t: t[0] == "name" and t[1] in sg.ctx.consts):
        try:
            mag = mag.subs({na: Ev([], sg.ctx).ev(sg.ctx.consts[na[1]])})
        except Exception:      # noqa: BLE001
            pass

    def latt_of(row, fidx):
        env = {a: row[fidx[f]] for a, f in attr_field.items() if f in fidx}
        try:
            return abs(int(concrete(mag, env)))
        except NotConcrete:
            return None
        except Exception as ex:
            raise AnalysisError(f"SpaceGroup.latt: magnitude {str(mag)[:80]} cannot be evaluated on a table row: {ex!r}")
    return out, latt_of


def r02_1(chk, sg, emit=True):
    node = sg.toplevel_assign("SG_FROM_SYMOPS")
    chk.need(isinstance(node, ast.DictComp), "SG_FROM_SYMOPS is no longer a dict comprehension")
    key_src = sg.seg(node.key)
    key_sorted = "sorted" in key_src
    ev = sg.ev("SpaceGroup.from_symmetry_operations")
    chk.saw(SG, "SpaceGroup.from_symmetry_operations")
    look = None
    for e in ev.events:
        if e.kind == "assign" and e.name == "encoded":
            look = e.value
    chk.need(look is not None, "from_symmetry_operations: lookup key not found")
    q_sorted = "sorted(" in look.key()
    if emit:
        chk.ob("R02.1", SG, "SpaceGroup.from_symmetry_operations", "the query key is order-independent (sorted integer codes)",
               q_sorted and ".integer_code" in look.key(), found=str(look))
        chk.ob("R02.1", SG, "SG_FROM_SYMOPS", "the dictionary key is the stored operation list"
               + (" canonicalised by sorting" if key_sorted else " (so T02.1 requires every stored list to be sorted)"),
               "symops" in key_src, found=key_src)
        used = any(e.kind == "test" and "SG_FROM_SYMOPS" in e.value.key() and look.key() in e.value.key() for e in ev.events)
        ret = [e for e in ev.returns if "SpaceGroup(" in e.value.key() or "cls(" in e.value.key()]
        others = [e for e in ev.returns if e.value is not None and e not in ret]       # every exit with a value is such a hit
        okret = bool(ret) and not others and all(".number" in e.value.key() and "choice=" in e.value.key() for e in ret)

        def _stored_fields(e):
            # SpaceGroup(ROW.number, choice=ROW.choice) with ROW the table entry found: both fields as stored, on every path (no value
            # substituted for some groups -- seed C02-26 passed choice="" outside the two-origin-choice groups)
            a = e.value.as_atom()
            if not a or a[0] != "call":
                return False
            kw = dict(a[3]) if len(a) > 3 and a[3] else {}
            num = a[2][0] if a[2] else kw.get("international_tables_number") or kw.get("number")
            ch = a[2][1] if len(a[2]) > 1 else kw.get("choice")
            if num is None or ch is None:
                return False
            na, ca = num.as_atom(), ch.as_atom()
            return bool(na and ca and na[0] == "attr" and ca[0] == "attr" and na[2] == "number" and ca[2] == "choice"
                        and na[1].key() == ca[1].key() and "SG_FROM_SYMOPS" in na[1].key())
        okret = okret and all(_stored_fields(e) for e in ret)
        chk.ob("R02.1", SG, "SpaceGroup.from_symmetry_operations", "a hit returns the setting with the stored number and choice; a miss raises",
               used and okret and any(e.kind == "raise" for e in ev.events), found=str((others or ret)[0].value) if ret else None)
        # every LATT number -7 .. 7 is accepted for the expansion (the codes of LATTICE_TYPE_TRANSLATIONS, either sign); only others are refused
        lp = ev.param_names[2] if len(ev.param_names) > 2 else "expand_latt"
        ex = [e for e in ev.events if e.kind == "call" and (call_name(e.value.as_atom() or ()) or "").endswith("expanded_symmetry_list")]
        bounds = set()
        for e in ex:
            for c, pol in e.guards:
                ca = c.as_atom()
                if pol and ca and ca[0] in ("lt", "le") and lp in c.key():
                    if ca[1].const_value() is not None and ca[2].key() == lp:
                        bounds.add(("lo", int(ca[1].const_value()) + (1 if ca[0] == "lt" else 0)))
                    elif ca[2].const_value() is not None and ca[1].key() == lp:
                        bounds.add(("hi", int(ca[2].const_value()) - (1 if ca[0] == "lt" else 0)))
        tested = any(lp in c.key() and (c.as_atom() or ("",))[0] in ("lt", "le", "and", "or") for e in ev.events if e.kind == "raise" for c, _ in e.guards)
        # ... every one of them: the only other condition on the way to the expansion is "a LATT number was given" (LATT -1 adds no
        # centring and no inversion, but the expansion is also what completes the list by the identity)
        excluded = []
        for e in ex:
            for c, pol in e.guards:
                ca = c.as_atom()
                if ca and ca[0] in ("ne", "eq", "in", "notin") and lp in c.key() and "None" not in c.key():
                    excluded.append(("" if pol else "not ") + str(c)[:60])
        chk.ob("R02.1", SG, "SpaceGroup.from_symmetry_operations", "the expansion is reached for every LATT number -7 .. 7 (a range test, where there is one, "
               "admits exactly those)", bool(ex) and (bounds == {("lo", -7), ("hi", 7)} or (not tested and not bounds)) and not excluded,
               fingerprint="latt-range", expected="-8 < expand_latt < 8", found=excluded or sorted(bounds))
    return q_sorted and not key_sorted


def r02_3(chk, sg, so, groups, fidx):
    # expansion adds x.inverted() for every x when lattice_type > 0
    xv = so.ev("expanded_symmetry_list")
    chk.saw(SO, "expanded_symmetry_list")
    adds_inverted = False
    from .generic import list_appends
    full = [e.value for e in xv.events if e.kind == "assign" and e.name == "full_symops" and e.value.as_atom() and e.value.as_atom()[0] == "obj"]
    for e in (list_appends(xv, full[0]) if full else []):
        # full += [x.inverted() for x in full]   /   full.extend(x.inverted() for x in full)
        comp = e.extra.get("comp")
        if comp and len(comp) == 1 and comp[0][1].key() == full[0].key() and not comp[0][2] and call_name(e.extra["args"][0].as_atom() or ()) == ".inverted":
            adds_inverted = any(pol and c.as_atom() and c.as_atom()[0] == "lt" and c.as_atom()[1] == P.const(0) for c, pol in e.guards)
    if not adds_inverted and full:
        # full = full + [x.inverted() for x in full]: a new list, the old one followed by its inverted copies, bound under lattice_type > 0
        for e in xv.events:
            if e.kind == "assign" and e.name == "full_symops" and e.value is not None and e.value.key() != full[0].key():
                ia = obj_init(e.value).as_atom()
                parts = list(ia[1]) if ia and ia[0] == "concat" else []
                if len(parts) == 2 and parts[0].key() == full[0].key():
                    ca = parts[1].as_atom()
                    if ca and ca[0] == "comp" and ca[1] == "ListComp" and len(ca) == 4 and len(ca[3]) == 1 and not ca[3][0][2] \
                            and ca[3][0][1].key() == full[0].key() and call_name(ca[2].as_atom() or ()) == ".inverted":
                        adds_inverted = any(pol and c.as_atom() and c.as_atom()[0] == "lt" and c.as_atom()[1] == P.const(0) for c, pol in e.guards)
    chk.need(adds_inverted, "expanded_symmetry_list: 'lattice_type > 0 => add inverted copies' not recognised")
    inv = so.ev("SymmetryOperation.inverted")
    chk.need("-self.rotation" in inv.returns[0].value.key() and "-self.translation" in inv.returns[0].value.key(),
             "SymmetryOperation.inverted is no longer (-R, -t)")
    # predicate under which latt is positive
    lv = sg.ev("SpaceGroup.latt")
    chk.saw(SG, "SpaceGroup.latt")
    pos_guards = []
    for e in lv.returns:
        v = e.value
        # positive return: value is centering_to_latt[...] without a minus
        c = None
        if v.is_poly() and len(v.n) == 1:
            c = list(v.n.values())[0]
        if c is None:
            raise AnalysisError("SpaceGroup.latt: return value form not recognised")
        if c > 0:
            pos_guards.append(e.guards)
    chk.need(len(pos_guards) == 1, "SpaceGroup.latt: expected exactly one positive return")
    conds = [(c, pol) for c, pol in pos_guards[0]]
    chk.need(len(conds) == 1, f"SpaceGroup.latt: positive return under {len(conds)} guards (expected one)")
    c, pol = conds[0]
    ca = c.as_atom()
    mode = None
    if ca and ca[0] == "not" and ca[1].key() == "self.centrosymmetric" and not pol:
        mode = "flag"
    elif ca and ca[0] == "attr" and c.key() == "self.centrosymmetric" and pol:
        mode = "flag"
    else:
        # membership of the origin inversion among the operations
        text = c.key()
        positive = pol
        a = ca
        if a and a[0] == "notin":
            positive = not pol
        if a and a[0] in ("in", "notin") and a[2].key() in ("self.symmetry_operations", "self.symops"):
            lhs = a[1].key()
            if lhs in ("chmpy.crystal.symmetry_operation.SymmetryOperation.identity().inverted()",
                       f"chmpy.crystal.symmetry_operation.SymmetryOperation.from_integer_code({M.INVERSION})"):
                mode = "member" if positive else None
        elif a and a[0] == "call" and call_name(a) == "any" and f"(eq {M.INVERSION} " in text and pol:
            mode = "member"
    if mode is None:
        raise AnalysisError(f"SpaceGroup.latt: the condition for a positive LATT is not a recognised form: {'' if pol else 'not '}{c}")
    if mode == "member":
        chk.ob("R02.3", SG, "SpaceGroup.latt", "LATT is positive exactly when the inversion at the origin is one of the operations "
               f"(code {M.INVERSION} in the model)", True, fingerprint="latt-sign")
        return
    bad = []
    for rid, (r, ops, codes) in groups.items():
        if r[fidx["centrosymmetric"]] and M.INVERSION not in codes:
            bad.append(rid)
    chk.ob("R02.3", SG, "SpaceGroup.latt", "LATT takes its sign from the centrosymmetric flag, so every centrosymmetric row must "
           "contain the inversion at the origin (expansion adds (-R,-t))", not bad, fingerprint="latt-sign",
           expected="flag => (-I, 0) in the row, for all rows",
           found=f"{len(bad)} settings have their inversion centre off the origin: {', '.join(bad)}")


def r02_6(chk, sg, so, groups, fidx):
    # (a) where does SpaceGroup.centrosymmetric come from?
    q = "SpaceGroup.__init__"
    iv = sg.ev(q)
    chk.saw(SG, q)
    st = [e for e in iv.events if e.kind == "store" and e.target.key() == "self.centrosymmetric"]
    prop = sg.funcs.get("SpaceGroup.centrosymmetric")
    def flag_on_row(t, rowflag, codes):
        """Truth value of the flag expression on one table row: the table's column, 'some rotation is -I' (= the column, T02), membership
        of the inversion at the origin, and and/or/not/bool of those."""
        a = t.as_atom()
        if a is None:
            cv = t.const_value()
            if cv is not None:
                return bool(cv)
            raise AnalysisError(f"SpaceGroup.centrosymmetric: unrecognised definition {str(t)[:120]}")
        if a[0] == "const":
            return a[1] in ("True", True)
        if a[0] == "attr" and a[2] == "centrosymmetric" and "self" not in a[1].key():
            return bool(rowflag)
        if a[0] in ("and", "or"):
            vals = [flag_on_row(x, rowflag, codes) for x in a[1]]
            return all(vals) if a[0] == "and" else any(vals)
        if a[0] == "not":
            return not flag_on_row(a[1], rowflag, codes)
        if a[0] == "call" and call_name(a) == "bool" and len(a[2]) == 1:
            return flag_on_row(a[2][0], rowflag, codes)
        if a[0] in ("in", "notin") and a[2].key() == "self.symmetry_operations" and ("identity().inverted()" in a[1].key() or str(M.INVERSION) in a[1].key()):
            return (M.INVERSION in codes) == (a[0] == "in")
        if a[0] == "call" and call_name(a) == "any" and "rotation" in t.key() and ("eye(3)" in t.key() or "identity(3)" in t.key()):
            return bool(rowflag)             # some operation has rotation -I: the definition (the table's column agrees, T02)
        raise AnalysisError(f"SpaceGroup.centrosymmetric: unrecognised definition {str(t)[:120]}")

    if st:
        terms, site, node = [e.value for e in st], q, st[0].node
    elif prop is not None:
        pv = sg.ev("SpaceGroup.centrosymmetric")
        chk.saw(SG, "SpaceGroup.centrosymmetric")
        terms, site, node = [pv.returns[-1].value], "SpaceGroup.centrosymmetric", prop
    else:
        raise AnalysisError("SpaceGroup.centrosymmetric is neither stored in __init__ nor a property")
    for t in terms:
        bad = [rid for rid, (row, ops, codes) in groups.items() if flag_on_row(t, row[fidx["centrosymmetric"]], codes) != bool(row[fidx["centrosymmetric"]])]
        chk.ob("R02.6", SG, site, "the flag agrees with the operations of every tabulated setting: true exactly when some operation has rotation -I "
               "(an inversion centre need not be at the origin)", not bad, node=node, fingerprint="flag-source",
               expected="the table's flag, or any(rotation == -I)",
               found=f"{str(t)[:100]}: wrong for {len(bad)} settings whose inversion centre is off the origin ({', '.join(bad[:6])}...)" if bad else str(t)[:100])
    # (b) identity insertion in expanded_symmetry_list
    xv = so.ev("expanded_symmetry_list")
    red = xv.param_names[0]
    ins = [e for e in xv.events if e.kind == "call" and e.target is not None and e.target.key() in (f"<{red}@0>.append", f"{red}.append", f"<{red}@0>.insert", f"{red}.insert")
           or (e.kind == "call" and e.target is not None and e.target.as_atom() and e.target.as_atom()[0] == "attr" and e.target.as_atom()[2] in ("append", "insert")
               and red in e.target.key() and "identity" in str(e.extra.get("args")))]
    ins = [e for e in ins if any("identity" in x.key() for x in e.extra["args"])]
    chk.need(ins, "expanded_symmetry_list: insertion of the identity not found")
    for e in ins:
        okg = False
        for c, pol in e.guards:
            ca = c.as_atom()
            if ca and ca[0] in ("notin", "in") and "identity" in ca[1].key() and red in ca[2].key() and "[" not in ca[2].key():
                okg = (ca[0] == "notin") == pol
        chk.ob("R02.6", SO, "expanded_symmetry_list", "the identity is added only when it is absent from the whole reduced list (membership test), "
               "so no operation appears twice in the expansion", okg, node=e.node, fingerprint="identity-once",
               expected="if identity not in reduced_symops", found=[("" if p else "not ") + str(c)[:80] for c, p in e.guards])
    # the caller's reduced list is completed by the identity at most (idempotent); it must not receive the expansion itself,
    # or a second expansion from the same list starts from a different description
    from ..effects import param_mutations
    muts = param_mutations(chk.repo, so, "expanded_symmetry_list").get(red, [])
    allowed = {f"line {getattr(e.node, 'lineno', '?')}:" for e in ins}
    extra = [m for m in muts if not any(m.startswith(a) for a in allowed)]
    chk.ob("R02.6", SO, "expanded_symmetry_list", "the caller's reduced list is not modified beyond the guarded completion by the identity "
           "(the expansion is built in a list of its own)", not extra, fingerprint="reduced-list-unchanged",
           expected="full_symops = [] (a new list)", found=extra)
    from .generic import list_appends
    full = [e.value for e in xv.events if e.kind == "assign" and e.name == "full_symops" and e.value.as_atom() and e.value.as_atom()[0] == "obj"]
    chk.need(full, "expanded_symmetry_list: the list of the expansion was not found")
    app = [e for e in list_appends(xv, full[0]) if not any("lattice_type" in c.key() for c, _ in e.guards)]
    vals = [str(e.extra["args"][0]) for e in app]
    # contribution 1: the operation itself, once per reduced operation; contribution 2: operation + t for every centring translation t
    # (an inner loop, or one extend over the translations)
    okx = len(app) == 2 and len(app[0].loops) == 1 and not app[0].extra.get("comp")
    if not okx and len(app) == 1 and len(app[0].loops) == 2 and not app[0].extra.get("comp"):
        # one append in a loop over [op] + [op + t for t in translations]: the operation, then one translate per centring translation
        outer, inner = app[0].loops
        ca = inner.iter.as_atom() if inner.iter is not None else None
        parts = list(ca[1]) if ca and ca[0] == "concat" else []
        if len(parts) == 2:
            first = seq_items(parts[0])
            cb = parts[1].as_atom()
            if first and len(first) == 1 and cb and cb[0] == "comp" and cb[1] == "ListComp" and len(cb) == 4 and len(cb[3]) == 1 and not cb[3][0][2] \
                    and "LATTICE_TYPE_TRANSLATIONS" in cb[3][0][1].key():
                tr_ = (cb[2] - first[0]).as_atom()
                okx = bool(tr_ and tr_[0] == "sub" and tr_[1].key() == cb[3][0][1].key()) and "reduced" in first[0].key() \
                    and app[0].extra["args"][0].key().startswith(inner.iter.key() + "[")
        if okx:
            chk.ob("R02.6", SO, "expanded_symmetry_list", "each reduced operation contributes itself and one translate per centring translation", True,
                   fingerprint="expansion")
            return
    if okx:
        op = app[0].extra["args"][0]
        second = app[1]
        inner_iter = second.loops[1].iter if len(second.loops) == 2 and not second.extra.get("comp") else \
            (second.extra["comp"][0][1] if second.extra.get("comp") and len(second.extra["comp"]) == 1 and not second.extra["comp"][0][2]
             and len(second.loops) == 1 else None)
        okx = second.loops[:1] == app[0].loops and inner_iter is not None and "LATTICE_TYPE_TRANSLATIONS" in inner_iter.key()
        if okx:
            tr = second.extra["args"][0] - op
            ta = tr.as_atom()
            okx = bool(ta and ta[0] == "sub" and ta[1].key() == inner_iter.key())
    chk.ob("R02.6", SO, "expanded_symmetry_list", "each reduced operation contributes itself and one translate per centring translation",
           okx, fingerprint="expansion", found=vals)


def r02_4(chk, so):
    q = "reduced_symmetry_list"
    ev = so.ev(q)
    chk.saw(SO, q)
    # kept list, candidate, inversion flag
    kept = work = None
    for e in ev.events:
        if e.kind == "assign" and e.name == "reduced_symops":
            kept = e.value
        if e.kind == "assign" and e.name == "symops_to_process":
            work = e.value
    chk.need(kept is not None and work is not None, f"{q}: kept/work lists not found")
    wi = obj_init(work).as_atom()
    chk.ob("R02.4", SO, q, "the work list is a fresh copy of the caller's list", bool(wi and wi[0] == "call" and
           call_name(wi) in ("list", "copy.copy", "copy.deepcopy") or (wi and wi[0] == "sub")), found=str(obj_init(work)))
    ki = obj_init(kept).as_atom()
    chk.ob("R02.4", SO, q, "the kept list starts with the identity", bool(ki and "identity()" in obj_init(kept).key()),
           found=str(obj_init(kept)))
    cand = None
    for e in ev.events:
        if e.kind == "assign" and e.name == "next_symop":
            cand = e.value
    chk.need(cand is not None, f"{q}: candidate operation not found")
    tests = set()
    for e in ev.events:
        if e.kind != "test":
            continue
        for a in find_atoms(e.value, lambda a: a[0] == "in" and a[2].key() == kept.key()):
            lhs = a[1]
            form = lhs.key().replace(cand.key(), "s")
            # translation variable: an element of the tabulated translations, taken by a loop index (of a for loop or of a generator
            # the loop runs over)
            for l in ev.all_loops:
                if l.kind == "iter" and l.iter is not None and "LATTICE_TYPE_TRANSLATIONS" in l.iter.key():
                    tkey = P.atom(("sub", l.iter, (l.index,))).key()
                    form = form.replace(tkey, "t")
            for ta in find_atoms(lhs, lambda t: t[0] == "sub" and len(t[2]) == 1 and t[2][0].as_atom() and t[2][0].as_atom()[0] == "lv"
                                 and "LATTICE_TYPE_TRANSLATIONS" in t[1].key() and not (t[1].as_atom() and t[1].as_atom()[0] == "comp")):
                form = form.replace(P.atom(ta).key(), "t")
            # guarded by the inversion flag: the membership test is a conjunct of an `and` that also holds `lattice_type > 0`
            # (wherever that conjunction sits in the whole condition)
            guarded = False
            for cj in find_atoms(e.value, lambda t: t[0] == "and"):
                if any(x.key() == P.atom(a).key() for x in cj[1]) and any("lt 0 lattice_type" in x.key() for x in cj[1]):
                    guarded = True
            tests.add((form, guarded))
    want = {("s", False), ("s.inverted()", True), ("s + t", False), ("(s + t).inverted()", True)}
    alt = {("s", False), ("s.inverted()", True), ("t + s", False), ("(t + s).inverted()", True)}
    for w in sorted(want):
        chk.ob("R02.4", SO, q, f"membership of {w[0]} in the kept list is tested" + (" when the lattice has inversion" if w[1] else ""),
               w in tests or (w[0].replace("s + t", "t + s"), w[1]) in tests, fingerprint=f"coset:{w[0]}", found=sorted(tests))
    # appended only if none matched: for-else
    app = [e for e in ev.events if e.kind == "call" and e.target is not None and e.target.key() == f"{kept}.append"]
    chk.ob("R02.4", SO, q, "a candidate is kept only when no coset member is already kept",
           len(app) == 1 and app[0].extra["args"][0].key() == cand.key(), found=str(app[0].value) if app else None)
    # ... and for no other reason is it left out: every condition on the way to the append is a membership test against the kept list (or
    # the lattice's inversion flag in front of one); a filter on the operation itself (its rotation, its translation) drops generators
    # the description needs (B-centred settings tabulated as primitive carry x+1/2,y,z+1/2 as an operation)
    if len(app) == 1:
        other = []
        for c, pol in app[0].guards:
            k = c.key()
            if (c.as_atom() or ("",))[0] == "in" and c.as_atom()[2].key() == kept.key():
                continue
            if k.startswith("(nobreak") or "lt 0 lattice_type" in k or k in ("inversion",):
                continue
            if (c.as_atom() or ("",))[0] in ("and", "or") and all(((x.as_atom() or ("",))[0] == "in" and x.as_atom()[2].key() == kept.key())
                                                                     or "lt 0 lattice_type" in x.key() for x in c.as_atom()[1]):
                continue
            if cand.key() in k:
                other.append(f"{'' if pol else 'not '}{c}"[:100])
        chk.ob("R02.4", SO, q, "an operation is left out of the reduced list only because a member of its coset is already kept (no filter on the "
               "operation itself)", not other, node=app[0].node, fingerprint="only-coset-filter", found=other)


def r02_5(chk, sg, decoded, fidx):
    node = sg.toplevel_assign("SG_DEFAULT_SETTING_CHOICE")
    chk.need(isinstance(node, ast.Dict), "SG_DEFAULT_SETTING_CHOICE is no longer a dict literal")
    defaults = ast.literal_eval(node)
    choices = {}
    for key, r in decoded:
        choices.setdefault(r[fidx["number"]], []).append(r[fidx["choice"]])
    for num, ch in sorted(defaults.items()):
        chk.ob("R02.5", SG, "SG_DEFAULT_SETTING_CHOICE", f"default choice {ch!r} of number {num} exists among its settings {choices.get(num)}",
               ch in choices.get(num, []), fingerprint=f"default:{num}")
    ev = sg.ev("SpaceGroup.__init__")
    chk.saw(SG, "SpaceGroup.__init__")
    raises = [e for e in ev.events if e.kind == "raise"]
    rng = any(any("international_tables_number" in c.key() and pol for c, pol in e.guards) for e in raises)
    chk.ob("R02.5", SG, "SpaceGroup.__init__", "numbers outside 1..230 are rejected", rng)
    npar = ev.param_names[1]
    cpar = ev.param_names[2] if len(ev.param_names) > 2 else "choice"
    # ... and only those: the number is refused exactly when it is below 1 or above 230 (either alone suffices; 1 and 230 are groups)
    exact = False
    for e in raises:
        if not e.guards:
            continue
        c, pol = e.guards[-1]
        ca = c.as_atom()
        parts = list(ca[1]) if ca and ca[0] == "or" else [c]
        if pol and {x.key() for x in parts} == {f"(lt 230 {npar})", f"(lt {npar} 1)"}:
            exact = True
    chk.ob("R02.5", SG, "SpaceGroup.__init__", "a number is refused exactly when it is below 1 or above 230", exact, fingerprint="range-exact",
           expected=f"raise if {npar} < 1 or {npar} > 230", found=[str(e.guards[-1][0])[:100] for e in raises if e.guards][:1])
    # the default choice fills in only when the caller gave none (and the number has one)
    dflt = [e for e in ev.events if e.kind == "assign" and e.value is not None and e.value.key() == f"SG_DEFAULT_SETTING_CHOICE[{npar}]"]
    okd = bool(dflt) and all(any(c.key() == f"(in {npar} SG_DEFAULT_SETTING_CHOICE)" and pol for c, pol in e.guards)
                             and any(c.key() == cpar and not pol for c, pol in e.guards) for e in dflt)
    chk.ob("R02.5", SG, "SpaceGroup.__init__", "the default choice of a number is used only when the caller named no choice (a choice that is given is kept)",
           okd, fingerprint="default-only-when-none", found=[[f"{'' if p else 'not '}{str(c)[:50]}" for c, p in e.guards][-2:] for e in dflt][:1])
    # the setting taken: row 0 when no choice is named, otherwise the candidate whose choice EQUALS the one asked for
    picks = [e for e in ev.events if e.kind == "assign" and e.value is not None and e.value.as_atom() and e.value.as_atom()[0] == "sub"
             and e.value.as_atom()[1].key() == f"SG_FROM_NUMBER[str({npar})]"]
    row0 = [e for e in picks if not e.loops and e.value.as_atom()[2][0].const_value() is not None]
    looped = [e for e in picks if e.loops and any((c.as_atom() or ("",))[0] in ("eq", "ne") for c, _ in e.guards[-1:])]
    ok0 = bool(row0) and all(e.value.as_atom()[2] == (P.const(0),) for e in row0)
    okeq = bool(looped)
    for e in looped:
        c, pol = e.guards[-1]
        ca = c.as_atom()
        okeq = okeq and ca[0] == "eq" and pol and any(x.key() == f"{e.value}.choice" for x in (ca[1], ca[2]))
    # the same search written as next((c for c in candidates if choice == c.choice), None) followed by `if sgdata is None: raise`
    searched = []
    for e in ev.events:
        a_ = e.value.as_atom() if e.kind == "assign" and e.value is not None else None
        if a_ and a_[0] == "call" and call_name(a_) == "next" and len(a_[2]) == 2 and a_[2][1].key() == "None":
            g_ = a_[2][0].as_atom()
            if g_ and g_[0] == "comp" and g_[1] == "GeneratorExp" and len(g_[3]) == 1 and g_[3][0][1].key() == f"SG_FROM_NUMBER[str({npar})]" \
                    and g_[2].key().startswith(f"SG_FROM_NUMBER[str({npar})][") and len(g_[3][0][2]) == 1:
                c_ = g_[3][0][2][0].as_atom()
                if c_ and c_[0] == "eq" and any(x.key() == f"{g_[2]}.choice" for x in (c_[1], c_[2])):
                    searched.append(e)
    if searched and not looped:
        okeq = True
    chk.ob("R02.5", SG, "SpaceGroup.__init__", "without a choice the first setting of the number is taken; with one, the setting whose choice equals it",
           ok0 and okeq, fingerprint="setting-selection", found=f"row-0 picks {[str(e.value)[-12:] for e in row0]}, loop picks under "
           f"{[('' if e.guards[-1][1] else 'not ') + str(e.guards[-1][0])[:30] for e in looped]}")
    fn = getattr(ev, "fn", None) or sg.func("SpaceGroup.__init__")      # the tree that was evaluated (new helpers expanded)
    forelse = [n for n in ast.walk(fn) if isinstance(n, ast.For) and n.orelse and any(isinstance(s, ast.Raise) for s in n.orelse)]
    none_raise = [e for e in raises if any(pol and c.key().startswith("(is ") and "None" in c.key() and "next(" in c.key() for c, pol in e.guards)]
    chk.ob("R02.5", SG, "SpaceGroup.__init__", "an unknown choice raises (for ... else: raise)", bool(forelse) or (bool(searched) and bool(none_raise)))
    # a cache of decoded rows must separate the rows: its key, evaluated on every table row, may coincide only for rows with the same operations
    from .. import memo as MEMO
    from ..concrete import concrete, NotConcrete
    for cname, entries in MEMO.module_caches(sg).items():
        for cq, ckey, ce in entries:
            fields = {a[2] for a in find_atoms(ckey, lambda a: a[0] == "attr" and a[2] in fidx)}
            owners = {a[1].key() for a in find_atoms(ckey, lambda a: a[0] == "attr" and a[2] in fidx)}
            if not fields or len(owners) != 1:
                continue
            owner = next(iter(owners))
            seen, clash = {}, None
            try:
                for rk, r in decoded:
                    val = concrete(ckey, {f"{owner}.{f}": r[fidx[f]] for f in fidx})
                    val = tuple(val) if isinstance(val, list) else val
                    ops_ = tuple(r[fidx["symops"]])
                    if val in seen and seen[val][1] != ops_:
                        clash = (seen[val][0], rk, val)
                        break
                    seen.setdefault(val, (rk, ops_))
            except (NotConcrete, TypeError):
                continue
            chk.ob("R02.5", SG, cq, f"the cache {cname} of table-derived data separates the settings: its key is different for rows with different operations",
                   clash is None, node=ce.node, fingerprint=f"row-cache:{cname}", expected="a key that identifies the row (number and choice, or the operation codes)",
                   found=f"settings {clash[0]} and {clash[1]} share the key {clash[2]!r}" if clash else None)
    ops = [e for e in ev.events if e.kind == "store" and e.target.key() == "self.symmetry_operations"]
    chk.ob("R02.5", SG, "SpaceGroup.__init__", "operations are decoded from the selected row's codes",
           bool(ops) and "from_integer_code" in ops[0].value.key() and ".symops" in ops[0].value.key(),
           found=str(ops[0].value)[:160] if ops else None)
