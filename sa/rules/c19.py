"""C19 — Wulff construction: homogeneity degrees, dual-point plumbing, orientation parity of facet ordering."""
from __future__ import annotations

import ast

from ..core import AnalysisError
from ..poly import P
from ..symex import Ev, find_atoms, call_name, seq_items, obj_init
from .generic import string_value

W = "crystal/wulff.py"


class Deg:
    """Homogeneity degree of a term in the facet energies (None = not homogeneous / unknown)."""

    def __init__(self, base):
        self.base = dict(base)       # key -> degree

    def of(self, t: P):
        if t.const_value() is not None:
            return 0
        a = t.as_atom()
        if a is None:
            # rational function: all monomials of numerator share a degree, same for denominator
            dn = self._poly(t.n)
            dd = self._poly(t.d)
            if dn is None or dd is None:
                return None
            return dn - dd
        k = t.key()
        if k in self.base:
            return self.base[k]
        tag = a[0]
        if tag in ("sub",):
            return self.of(a[1])
        if tag == "T":
            return self.of(a[1])
        if tag == "obj":
            return self.of(a[3])
        if tag == "tuple":
            ds = {self.of(x) for x in a[1]}
            return ds.pop() if len(ds) == 1 else None
        if tag == "attr":
            if a[2] in ("simplices",):
                return 0
            return None
        if tag == "matmul":
            ds = [self.of(x) for x in a[1]]
            return None if None in ds else sum(ds)
        if tag == "call":
            cn = call_name(a) or ""
            if cn in ("numpy.cross", "numpy.dot", "numpy.outer", "numpy.inner", "numpy.vdot"):
                ds = [self.of(x) for x in a[2][:2]]
                return None if None in ds else sum(ds)
            if cn == "numpy.einsum":
                ds = [self.of(x) for x in a[2][1:]]
                return None if None in ds else sum(ds)
            if cn in ("numpy.array", "numpy.asarray", "numpy.rollaxis", "numpy.sum", "abs", "numpy.vstack", "numpy.max", "numpy.min", "numpy.amax", "numpy.abs"):
                return self.of(a[2][0])
            if cn in ("max", "min") and a[2]:
                # a floor/ceiling by a constant (tiny) does not change the degree of the non-constant operand
                ds = [self.of(x) for x in a[2]]
                nz = [d for x, d in zip(a[2], ds) if not (x.const_value() is not None or "finfo" in x.key())]
                return nz[0] if len(set(nz)) == 1 and None not in nz else None
            if cn in (".sum", ".astype", ".copy"):
                return self.of(a[1].as_atom()[1])
            if cn == "sqrt":
                d = self.of(a[2][0])
                return None if d is None else d / 2
            if cn == "numpy.linalg.norm":
                return self.of(a[2][0])
            return None
        if tag == "const":
            return 0
        return None

    def _poly(self, p):
        ds = set()
        for m, c in p.items():
            d = 0
            for at, e in m:
                x = self.of(P.atom(at))
                if x is None:
                    return None
                d += x * e
            ds.add(d)
        return ds.pop() if len(ds) == 1 else (0 if not ds else None)


def _noit(k):
    import re
    return re.sub(r"_it#\d+", "_it", k)


def _grouped_by_sort(xv):
    """The vectorised spelling of 'list simplex j under each of its points': with flat = simplices.ravel() (entry e belongs to simplex
    e // width and names point flat[e]),  np.split(np.argsort(flat) // width, np.cumsum(np.bincount(flat, minlength=n))[:-1])  cuts the
    entries, sorted by point, at the running counts: chunk p is exactly the simplices that contain p."""
    from .generic import flat_of

    def unwrap(t):
        a = t.as_atom()
        while a and a[0] == "call" and call_name(a) in ("numpy.asarray", "numpy.array", "numpy.ascontiguousarray") and a[2]:
            t = a[2][0]
            a = t.as_atom()
        return t

    def flat_src(t):
        f = flat_of(t)
        return unwrap(f) if f.key() != t.key() else None

    for e in xv.events:
        if e.kind != "assign" or e.value is None:
            continue
        a = e.value.as_atom()
        if not (a and a[0] == "comp" and a[1] == "ListComp" and len(a) == 4 and len(a[3]) == 1 and not a[3][0][2]):
            continue
        it = a[3][0][1].as_atom()
        if not (it and it[0] == "call" and call_name(it) in ("numpy.split", "numpy.array_split") and len(it[2]) == 2):
            continue
        elt = a[2].as_atom()
        if not (elt and ((elt[0] == "call" and call_name(elt) in (".tolist", "list")) or elt[0] == "sub")):
            continue
        order, cuts = it[2][0].as_atom(), it[2][1].as_atom()
        if not (order and order[0] == "bin" and order[1] == "FloorDiv"):
            continue
        srt = order[2].as_atom()
        if not (srt and srt[0] == "call" and call_name(srt) == "numpy.argsort" and srt[2]):
            continue
        src = flat_src(srt[2][0])
        if src is None or src.key() != "$simplices":
            continue
        width = order[3]
        if width.key() not in ("3", "$simplices.shape[1]"):
            continue
        if not (cuts and cuts[0] == "sub" and len(cuts[2]) == 1 and cuts[2][0].key() == "(slice None -1 None)"):
            continue
        cs = cuts[1].as_atom()
        if not (cs and cs[0] == "call" and call_name(cs) == "numpy.cumsum" and cs[2]):
            continue
        bc = cs[2][0].as_atom()
        if not (bc and bc[0] == "call" and call_name(bc) == "numpy.bincount" and bc[2]):
            continue
        s2 = flat_src(bc[2][0])
        kw = dict(bc[3]) if len(bc) > 3 and bc[3] else {}
        ml = kw.get("minlength") or (bc[2][2] if len(bc[2]) > 2 else None)
        if s2 is None or s2.key() != src.key() or ml is None or "facet_dual_vectors" not in ml.key() and "facet_normals" not in ml.key() \
                and "facet_energies" not in ml.key():
            continue
        return True
    return False


def _vertex_parts(V: P):
    """V = N * (E / I)[:, newaxis]  with  N = cross(..), E = energies[idx], I = einsum('ij,ij->i', N, normals[idx])
    ->  {normals, scaling, energy, inv}  (terms), or None when the stored vertices are not of that shape."""
    a = V.as_atom()
    if a and a[0] == "obj":
        V = a[3]
    if len(V.n) != 1 or not V.d_is_one() if hasattr(V, "d_is_one") else len(V.n) != 1:
        return None
    (mono, coef), = V.n.items()
    if coef != 1 or len(mono) != 2 or any(e != 1 for _, e in mono) or not (len(V.d) == 1 and V.d.get(()) == 1):
        return None
    cross = [at for at, _ in mono if at[0] == "call" and call_name(at) == "numpy.cross"]
    col = [at for at, _ in mono if at[0] == "sub" and len(at[2]) == 2 and at[2][0].key().startswith("(slice None None None)")
           and at[2][1].key() in ("numpy.newaxis", "None")]
    if len(cross) != 1 or len(col) != 1:
        return None
    sf = col[0][1]
    sa_ = sf.as_atom()
    if sa_ and sa_[0] == "obj":
        sf = sa_[3]
    if len(sf.n) != 1 or len(sf.d) != 1:
        return None
    (mn, cn_), = sf.n.items()
    (md, cd_), = sf.d.items()
    if cn_ != 1 or cd_ != 1 or len(mn) != 1 or len(md) != 1 or mn[0][1] != 1 or md[0][1] != 1:
        return None
    return {"normals": P.atom(cross[0]), "scaling": sf, "energy": P.atom(mn[0][0]), "inv": P.atom(md[0][0])}


def _structural_vertices(chk, w, deg, want1, want2):
    """R19.1 / R19.2 for the vertex formula read off the stored term itself (no local of a particular name needed)."""
    q = "WulffConstruction._extract_wulff_from_dual_mesh"
    ev = w.ev(q)
    st = [e for e in ev.events if e.kind == "store" and e.target.key() == "self.wulff_vertices"]
    if not st:
        raise AnalysisError("_extract_wulff_from_dual_mesh: store to self.wulff_vertices not found")
    muts = [e for e in ev.events if e.kind in ("store", "aug") and e.target.as_atom() and e.target.as_atom()[0] == "sub"
            and (e.target.as_atom()[1].as_atom() or ("",))[0] in ("obj", "local")]
    parts = _vertex_parts(st[-1].value)
    if parts is None:
        raise AnalysisError(f"_extract_wulff_from_dual_mesh: the stored vertices are not N * (e_i / (N . n_i))[:, newaxis]: {str(st[-1].value)[:160]}")
    degs = {k: deg.of(v) for k, v in parts.items()}
    degs["vertices"] = deg.of(st[-1].value)
    if want1:
        chk.ob("R19.1", W, q, "normals of the dual triangles have degree -2", degs["normals"] == -2, found=str(degs))
        chk.ob("R19.1", W, q, "the scaling factor e_i/(N.n_i) has degree +3", degs["scaling"] == 3, found=str(degs))
        chk.ob("R19.1", W, q, "vertices have degree 1 in the energies", degs["vertices"] == 1, fingerprint="vertices-degree", found=str(degs))
        patched = [f"line {e.lineno}: {str(e.target)[:50]} = {str(e.value)[:60]}" for e in muts
                   if e.value is not None and deg.of(e.target.as_atom()[1]) not in (0, None) and deg.of(e.value) != deg.of(e.target.as_atom()[1])]
        chk.ob("R19.1", W, q, "no intermediate that scales with the energies is overwritten with a value of "
               "another degree (an absolute tolerance, a clamp to a constant)", not patched, fingerprint="no-absolute-patch", found=patched[:2])
        chk.ob("R19.1", W, q, "those vertices are what the object exposes", True)
    if want2:
        S = "self.dual_hull.simplices"
        A, B, C = (f"numpy.rollaxis(self.facet_dual_vectors[{S}], 1)[{k}]" for k in range(3))
        chk.ob("R19.2", W, q, "simplices are those of the dual hull", S in parts["normals"].key(), found=str(parts["normals"])[:120])
        chk.ob("R19.2", W, q, "N = (b - a) x (c - a) over the three dual points of each simplex",
               parts["normals"].key() == f"numpy.cross(-{A} + {B}, -{A} + {C})", found=str(parts["normals"])[:200])
        ea, ia = parts["energy"].as_atom(), parts["inv"].as_atom()
        idx = ea[2][0] if ea and ea[0] == "sub" and len(ea[2]) == 1 else None
        ix = idx.as_atom() if idx is not None else None
        ok_i = bool(ix and ix[0] == "sub" and ix[1].key() == S and len(ix[2]) == 2 and ix[2][1].const_value() in (0, 1, 2))
        chk.ob("R19.2", W, q, "the facet i used for scaling is a vertex of that same simplex", ok_i, found=str(idx))
        ok_s = bool(idx is not None and ea[1].key() == "self.facet_energies" and ia and call_name(ia) == "numpy.einsum" and len(ia[2]) == 3
                    and ia[2][0].key() == "'ij,ij->i'" and {ia[2][1].key(), ia[2][2].key()} == {parts["normals"].key(), f"self.facet_normals[{idx}]"})
        chk.ob("R19.2", W, q, "scaling = e_i / (N . n_i) with normal and energy of the same facet i", ok_s,
               found=str({k: str(parts[k])[:120] for k in ("energy", "inv")}))


def obj_init_(v):
    from ..symex import obj_init
    return obj_init(v)


def run(chk):
    repo = chk.repo
    w = repo.module(W)
    chk.explanation = ("crystal/wulff.py: homogeneity degrees in the facet energies are propagated through _populate_duals and "
                       "_extract_wulff_from_dual_mesh (energies 1, normals 0 -> dual vectors -1, dual normals -2, scaling +3, vertices +1); "
                       "each vertex uses the normal and a dual point of the same simplex; facet membership; in-plane basis, "
                       "ascending atan2 ordering and fan triangulation.")
    chk.rule("R19.1", "homogeneity: scaling all energies by s scales every vertex by s (degree 1)", 5)
    chk.rule("R19.2", "dual point n/e; vertex = N e_i/(N.n_i) with i a vertex of the same simplex; every simplex is listed under each of its three dual points", 6)
    chk.rule("R19.4", "facet bookkeeping and scale: one ordered vertex list per facet (position i <-> facet i) on every path; the pruning "
                      "comparison is scale free and squares the threshold with the distance; energies are stored with a dtype of their own", 3)
    chk.rule("R19.3", "orientation: in-plane basis (a, n x a), ascending atan2(v, u), fan triangulation (f0, f_i, f_i+1)", 6)
    chk.rule("R19.5", "symmetry expansion of the input planes keeps, for every direction, the lowest energy seen for THAT direction: a direction's "
                      "entry is replaced under a test on that same direction's entry", 1)
    if chk.want("R19.5") and "expand_symmetry_related_planes" in w.funcs:
        fn_ = w.expanded("expand_symmetry_related_planes", w.funcs["expand_symmetry_related_planes"])
        chk.saw(W, "expand_symmetry_related_planes")
        n5 = 0
        for st_ in ast.walk(fn_):
            if not isinstance(st_, ast.If):
                continue
            stores = [t for b in st_.body if isinstance(b, ast.Assign) for t in b.targets if isinstance(t, ast.Subscript) and isinstance(t.value, ast.Name)]
            for t in stores:
                table, key = t.value.id, ast.unparse(t.slice)
                looked = [ast.unparse(x.slice) for x in ast.walk(st_.test) if isinstance(x, ast.Subscript) and isinstance(x.value, ast.Name) and x.value.id == table]
                member = [ast.unparse(c.left) for c in ast.walk(st_.test) if isinstance(c, ast.Compare) and len(c.ops) == 1 and isinstance(c.ops[0], (ast.In, ast.NotIn))
                          and isinstance(c.comparators[0], ast.Name) and c.comparators[0].id == table]
                if not (looked or member):
                    continue
                n5 += 1
                chk.ob("R19.5", W, "expand_symmetry_related_planes", f"the entry {table}[{key}] is replaced under a test on {table}[{key}] itself (membership and "
                       "stored energy of the same key)", all(k == key for k in looked + member), node=st_, fingerprint=f"same-key:{key}",
                       expected=f"{key} not in {table} or E[{table}[{key}]] > E[i]", found=f"tests {sorted(set(looked + member))}")
        chk.need(n5 >= 1, f"expand_symmetry_related_planes: no guarded replacement of a direction's entry found")
    pv = w.ev("WulffConstruction._populate_duals")
    xv = w.ev("WulffConstruction._extract_wulff_from_dual_mesh", opaque={"simplices", "normals", "facet_indices", "corresponding_facet_normals",
                                                                           "corresponding_facet_energies", "inv_factors", "scaling_factors", "vertices", "a", "b", "c"})
    chk.saw(W, "WulffConstruction._populate_duals")
    chk.saw(W, "WulffConstruction._extract_wulff_from_dual_mesh")
    st = {e.target.key(): e.value for e in pv.events if e.kind == "store"}
    fv, dv = st.get("self.facet_vectors"), st.get("self.facet_dual_vectors")
    chk.need(fv is not None and dv is not None, "_populate_duals: facet_vectors / facet_dual_vectors stores not found")
    defs = {k[1]: v for k, v in xv.defs.items()}
    if chk.want("R19.1"):
        deg = Deg({"self.facet_energies": 1, "self.facet_normals": 0})
        d_fv = deg.of(fv)
        deg.base["self.facet_vectors"] = d_fv
        d_dv = deg.of(dv)
        deg.base["self.facet_dual_vectors"] = d_dv
        chk.ob("R19.1", W, "WulffConstruction._populate_duals", "facet vectors n*e have degree 1", d_fv == 1, found=f"{fv}: {d_fv}")
        chk.ob("R19.1", W, "WulffConstruction._populate_duals", "dual vectors have degree -1", d_dv == -1, found=f"{dv}: {d_dv}")
        order = ["a", "b", "c", "normals", "corresponding_facet_normals", "corresponding_facet_energies", "inv_factors", "scaling_factors", "vertices"]
        degs = {}
        structural = any(defs.get(nm) is None for nm in order)
        if structural:
            _structural_vertices(chk, w, deg, True, False)
            order = []
        for nm in order:
            v = defs.get(nm)
            if v is None:
                raise AnalysisError(f"_extract_wulff_from_dual_mesh: local '{nm}' not found")
            degs[nm] = deg.of(v)
            for k in xv.defs:
                if k[1] == nm:
                    deg.base[P.atom(k).key()] = degs[nm]
        if not structural:
            chk.ob("R19.1", W, "WulffConstruction._extract_wulff_from_dual_mesh", "normals of the dual triangles have degree -2", degs["normals"] == -2,
                   found=str(degs))
            chk.ob("R19.1", W, "WulffConstruction._extract_wulff_from_dual_mesh", "the scaling factor e_i/(N.n_i) has degree +3", degs["scaling_factors"] == 3,
                   found=str(degs))
            chk.ob("R19.1", W, "WulffConstruction._extract_wulff_from_dual_mesh", "vertices have degree 1 in the energies", degs["vertices"] == 1,
                   fingerprint="vertices-degree", found=str(degs))
            # a quantity that scales with the energies is not patched with an absolute number afterwards (a floor of 1e-6 on N.n, which goes like
            # 1/e^2, changes every vertex once the energies are of order 1e3)
            patched = []
            for e in xv.events:
                if e.kind not in ("store", "aug") or e.value is None:
                    continue
                t = e.target.as_atom()
                base = t[1].as_atom() if t and t[0] == "sub" else None
                nm = base[1] if base and base[0] in ("local", "obj") and isinstance(base[1], str) else None
                if nm in degs and degs[nm] not in (0, None):
                    dv_ = deg.of(e.value)
                    if dv_ != degs[nm]:
                        patched.append(f"line {e.lineno}: {nm} (degree {degs[nm]}) [...] = {str(e.value)[:60]} (degree {dv_})")
            chk.ob("R19.1", W, "WulffConstruction._extract_wulff_from_dual_mesh", "no intermediate that scales with the energies is overwritten with a value of "
                   "another degree (an absolute tolerance, a clamp to a constant)", not patched, fingerprint="no-absolute-patch", found=patched[:2])
            sx = {e.target.key(): e.value.key() for e in xv.events if e.kind == "store"}
            chk.ob("R19.1", W, "WulffConstruction._extract_wulff_from_dual_mesh", "those vertices are what the object exposes",
                   sx.get("self.wulff_vertices") == "$vertices", found=sx.get("self.wulff_vertices"))
    if chk.want("R19.2"):
        FN = P.atom(("attr", P.name("self"), "facet_normals"))
        FE = P.atom(("attr", P.name("self"), "facet_energies"))
        FV = P.atom(("attr", P.name("self"), "facet_vectors"))
        nax = P.atom(("sub", FE, (P.atom(("slice",) + (P.atom(("const", None)),) * 3), P.name("numpy.newaxis"))))
        chk.ob("R19.2", W, "WulffConstruction._populate_duals", "facet vector = normal * energy", fv == FN * nax, expected=str(FN * nax), found=str(fv))
        want = FN / nax
        chk.ob("R19.2", W, "WulffConstruction._populate_duals", "dual point of the plane n.x = e is n / e (n e / |n e|^2 is that only for unit normals; the property "
               "quantifies over any set of normals)", dv == want, fingerprint="dual-point", expected=str(want), found=str(dv))
        named = all(defs.get(nm) is not None for nm in ("a", "b", "c", "normals", "corresponding_facet_normals", "corresponding_facet_energies",
                                                         "inv_factors", "scaling_factors", "vertices", "facet_indices", "simplices"))
        if not named:
            _structural_vertices(chk, w, Deg({}), False, True)
        if named:
            sim = defs.get("simplices")
            chk.ob("R19.2", W, "WulffConstruction._extract_wulff_from_dual_mesh", "simplices are those of the dual hull", sim is not None and sim.key() == "self.dual_hull.simplices",
                   found=str(sim))
            abc_ok = all(defs.get(nm) is not None and defs[nm].key() == f"numpy.rollaxis(self.facet_dual_vectors[$simplices], 1)[{k}]" for k, nm in enumerate("abc"))
            n = defs.get("normals")
            cross_ok = n is not None and n.key() in ("numpy.cross(-$a + $b, -$a + $c)",)
            chk.ob("R19.2", W, "WulffConstruction._extract_wulff_from_dual_mesh", "N = (b - a) x (c - a) over the three dual points of each simplex", abc_ok and cross_ok,
                   found=str(n))
            fi = defs.get("facet_indices")
            ok_i = fi is not None and fi.as_atom() and fi.as_atom()[0] == "sub" and fi.as_atom()[1].key() == "$simplices" and len(fi.as_atom()[2]) == 2 \
                and fi.as_atom()[2][1].const_value() in (0, 1, 2)
            chk.ob("R19.2", W, "WulffConstruction._extract_wulff_from_dual_mesh", "the facet i used for scaling is a vertex of that same simplex", bool(ok_i), found=str(fi))
            ok_s = defs["corresponding_facet_normals"].key() == "self.facet_normals[$facet_indices]" and \
                defs["corresponding_facet_energies"].key() == "self.facet_energies[$facet_indices]" and \
                defs["inv_factors"].key() == "numpy.einsum('ij,ij->i', $normals, $corresponding_facet_normals)" and \
                defs["scaling_factors"] == P.atom(("local", "corresponding_facet_energies", 0)) / P.atom(("local", "inv_factors", 0))
            chk.ob("R19.2", W, "WulffConstruction._extract_wulff_from_dual_mesh", "scaling = e_i / (N . n_i) with normal and energy of the same facet i", ok_s,
                   found=str({k: str(defs[k]) for k in ("inv_factors", "scaling_factors")}))
        app = [e for e in xv.events if e.kind == "call" and e.target is not None and e.target.key().endswith(".append") and len(e.loops) == 2]
        okm = False
        if len(app) == 1:
            e = app[0]
            outer, inner = e.loops
            tgt = e.target.as_atom()[1].as_atom()
            okm = outer.kind == "enumerate" and outer.iter.key() == "$simplices" and tgt and tgt[0] == "sub" and \
                tgt[2][0].key() == P.atom(("sub", P.atom(("sub", outer.iter, (outer.index,))), (inner.index,))).key() and \
                e.extra["args"][0].key() == outer.index.key()
        if not app:
            okm = _grouped_by_sort(xv)
        chk.ob("R19.2", W, "WulffConstruction._extract_wulff_from_dual_mesh", "every simplex index is appended to the facet list of each of its dual points", bool(okm))
        # position i of the facet list is dual point (= input facet) i: one list per dual point, stored as built (dropping the empty ones
        # shifts every later facet onto the wrong normal, energy and label)
        fst = [e.value for e in xv.events if e.kind == "store" and e.target.key() == "self.wulff_facets"]
        fdefs = [e.value for e in xv.events if e.kind == "assign" and e.name == "facets"]
        one_per = False
        if fst and fdefs:
            fa = fdefs[0].as_atom()
            if fa and fa[0] == "obj":
                fa = fa[3].as_atom()
            per_point = bool(fa and fa[0] == "comp" and fa[1] == "ListComp" and len(fa[3]) == 1 and fa[3][0][0] in ("range", "iter") and not fa[3][0][2]
                             and any(w_ in fa[3][0][1].key() for w_ in ("facet_dual_vectors", "facet_normals", "facet_energies")))
            one_per = (per_point or not app) and len(fdefs) == 1 and fst[-1].key() == fdefs[0].key()
        elif fst and not fdefs and app and okm:
            # the lists are built directly in the attribute: self.wulff_facets = [[] for _ in <per dual point>], filled in place, stored once
            fa = obj_init(fst[0]).as_atom() if fst[0].as_atom() and fst[0].as_atom()[0] == "obj" else fst[0].as_atom()
            per_point = bool(fa and fa[0] == "comp" and fa[1] == "ListComp" and len(fa[3]) == 1 and fa[3][0][0] in ("range", "iter") and not fa[3][0][2]
                             and any(w_ in fa[3][0][1].key() for w_ in ("facet_dual_vectors", "facet_normals", "facet_energies")))
            one_per = per_point and len(fst) == 1
        elif fst and not fdefs and not app and okm:
            # grouped by a stable sort with one group per dual point (bincount minlength, checked above), stored as they come, none dropped
            fa = fst[-1].as_atom()
            one_per = bool(fa and fa[0] == "comp" and fa[1] == "ListComp" and len(fa[3]) == 1 and not fa[3][0][2] and "numpy.split(" in fa[3][0][1].key())
        chk.ob("R19.2", W, "WulffConstruction._extract_wulff_from_dual_mesh", "the facet lists are stored one per dual point, in the order of the dual "
               "points (position i <-> input facet i)", one_per, fingerprint="facets-per-point", found=[str(v)[:100] for v in fst[-1:]])
    if chk.want("R19.3"):
        pp = w.ev("project_to_plane", opaque={"projected_points", "a_vector", "b_vector"})
        chk.saw(W, "project_to_plane")
        d = {k[1]: v for k, v in pp.defs.items()}
        n = pp.param_names[1]
        chk.ob("R19.3", W, "project_to_plane", "second in-plane axis is normal x first axis (right-handed about the outward normal)",
               d.get("b_vector") is not None and d["b_vector"].key() == f"numpy.cross({n}, $a_vector)", expected=f"numpy.cross({n}, a)", found=str(d.get("b_vector")))
        ret = pp.returns[-1].value.key()
        chk.ob("R19.3", W, "project_to_plane", "coordinates are returned as (u along a, v along n x a)",
               ret == "numpy.column_stack((tuple (numpy.dot($projected_points, $a_vector) numpy.dot($projected_points, $b_vector))))"
               or ret == "numpy.column_stack((tuple ((matmul ($projected_points $a_vector)) (matmul ($projected_points $b_vector)))))", found=ret)
        wv = w.ev("winding_order_ccw")
        chk.saw(W, "winding_order_ccw")
        rk = wv.returns[-1].value.key()
        lam = find_atoms(wv.returns[-1].value, lambda t: t[0] == "lambda")
        okl = False
        if lam:
            body = lam[0][2].as_atom()
            if body and call_name(body) == "arctan2":
                y, x = body[2]

                def row_col(t):
                    """(row term key, column) of  D[i, c]  or  D[i][c]"""
                    ta = t.as_atom()
                    if ta and ta[0] == "sub" and len(ta[2]) == 2 and ta[2][1].const_value() is not None:
                        return (P.atom(("sub", ta[1], (ta[2][0],))).key(), int(ta[2][1].const_value()))
                    if ta and ta[0] == "sub" and len(ta[2]) == 1 and ta[2][0].const_value() is not None and ta[1].as_atom() \
                            and ta[1].as_atom()[0] == "sub" and len(ta[1].as_atom()[2]) == 1:
                        return (ta[1].key(), int(ta[2][0].const_value()))
                    return None
                ry, rx = row_col(y), row_col(x)
                okl = bool(ry and rx and ry[0] == rx[0] and ry[1] == 1 and rx[1] == 0)
        chk.ob("R19.3", W, "winding_order_ccw", "points are sorted by ascending atan2(v, u) about the first point", okl and "reverse" not in rk and "sorted(" in rk,
               found=rk[:200])
        others = [r for r in wv.returns[:-1] if r.value is not None and r.value.key() != rk]
        chk.ob("R19.3", W, "winding_order_ccw", "every return is that sorted order (three points still have two orientations: an early return of the "
               "given order leaves about half of the triangular facets clockwise)", not others, node=others[0].node if others else None,
               fingerprint="winding:all-returns", found=[f"line {r.lineno}: return {str(r.value)[:80]}" for r in others][:2])
        # ... about the first point: the angle of point x is that of points[x] - points[0] (direction row x - 1 of points[1:] - points[0],
        # normalised or not), every other point is sorted, and point 0 leads the result
        pts_ = P.name(wv.param_names[0])
        none_ = P.atom(("const", None))
        rest = P.atom(("sub", pts_, (P.atom(("slice", P.const(1), none_, none_)),)))
        first = P.atom(("sub", pts_, (P.const(0),)))
        okdir = okidx = okall = False
        if lam:
            body = lam[0][2].as_atom()
            if body and call_name(body) == "arctan2":
                rc = row_col(body[2][0])
                ra_ = body[2][0].as_atom()
                # the matrix whose rows are indexed
                mat = ra_[1] if ra_ and ra_[0] == "sub" and len(ra_[2]) == 2 else (ra_[1].as_atom()[1] if ra_ and ra_[0] == "sub" and ra_[1].as_atom() else None)
                rowi = ra_[2][0] if ra_ and ra_[0] == "sub" and len(ra_[2]) == 2 else (ra_[1].as_atom()[2][0] if ra_ and ra_[0] == "sub" and ra_[1].as_atom() else None)
                if mat is not None:
                    diff = rest - first
                    okdir = mat == diff or (len(mat.n) == 1 and len(mat.d) == 1 and (mat * P(mat.d)) == diff) or \
                        (mat.key().startswith(f"({diff})/(numpy.linalg.norm({diff}, axis=1)"))
                    okidx = rowi is not None and rowi.key().startswith("-1 + (larg 0 ")
        srt = [a for a in find_atoms(wv.returns[-1].value, lambda t: t[0] == "call" and call_name(t) == "sorted" and t[2])]
        if srt:
            it_ = srt[0][2][0].key()
            shape0 = f"{pts_}.shape[0]"
            okall = it_ in (f"list(range(1, {shape0}))", f"range(1, {shape0})", f"list(range(1, len({pts_})))", f"range(1, len({pts_}))")
        ra0 = wv.returns[-1].value.as_atom()
        oklead = bool(ra0 and ra0[0] == "concat" and len(ra0[1]) == 2 and ra0[1][0].key() == "(tuple (0))" and call_name(ra0[1][1].as_atom() or ()) == "sorted")
        chk.ob("R19.3", W, "winding_order_ccw", "the angle of point x is that of points[x] - points[0] (row x - 1 of the directions), all points 1 .. N-1 are "
               "sorted and point 0 leads the order", okdir and okidx and okall and oklead, fingerprint="winding:about-first",
               found=f"directions {okdir}, row index {okidx}, sorted range {okall}, leading 0 {oklead}")
        # project_to_plane: the points are projected into the plane before the in-plane axes are taken from them
        pd = {k[1]: v for k, v in pp.defs.items()}
        pts2, nrm = P.name(pp.param_names[0]), P.name(pp.param_names[1])
        proj = pd.get("projected_points")
        want_proj = pts2 - P.atom(("call", P.name("numpy.outer"), (P.atom(("call", P.name("numpy.dot"), (pts2, nrm))), nrm)))
        want_proj2 = pts2 - P.atom(("call", P.name("numpy.outer"), (P.atom(("matmul", (pts2, nrm))), nrm)))
        chk.ob("R19.3", W, "project_to_plane", "the points are projected into the plane: p - (p . n) n", proj is not None and (proj == want_proj or proj == want_proj2),
               fingerprint="projection", expected=str(want_proj), found=str(proj)[:160])
        av = pd.get("a_vector")
        okav = False
        if av is not None and av.is_poly() and len(av.n) == 2 and sorted(av.n.values()) == [-1, 1]:
            rows_ = []
            for mono, c in av.n.items():
                at = mono[0][0] if len(mono) == 1 and mono[0][1] == 1 else None
                if at and at[0] == "sub" and at[1].key() == "$projected_points" and len(at[2]) == 1 and at[2][0].const_value() is not None:
                    rows_.append(int(at[2][0].const_value()))
            okav = len(rows_) == 2 and rows_[0] != rows_[1]
        chk.ob("R19.3", W, "project_to_plane", "the first in-plane axis is the difference of two of the projected points (a vector in the plane)", okav,
               fingerprint="in-plane-axis", expected="projected[i] - projected[j]", found=str(av)[:120])
        tv = w.ev("order_and_triangulate_polygons", opaque={"facet", "N"})
        chk.saw(W, "order_and_triangulate_polygons")
        t = [e for e in tv.events if e.kind == "assign" and e.name == "t"]
        okt = False
        if t:
            a = t[0].value.as_atom()
            if a and call_name(a) == "numpy.column_stack":
                it = seq_items(a[2][0])
                if it and len(it) == 3:
                    okt = it[0].key() == "numpy.repeat($facet[0], -2 + $N)" and it[1].key() == "$facet[(slice 1 -1 + $N None)]" and \
                        it[2].key() == "$facet[(slice 2 $N None)]"
            elif a and call_name(a) in (".reshape", "numpy.array", "numpy.asarray"):
                # the loop spelling: for j in range(1, N - 1): fan.append((facet[0], facet[j], facet[j + 1]))
                from .generic import list_appends
                objs = [x for x in find_atoms(t[0].value, lambda x: x[0] == "obj")]
                for ob_ in objs[:1]:
                    aps = list_appends(tv, P.atom(ob_))
                    if len(aps) == 1 and aps[0].loops and aps[0].loops[-1].kind == "range":
                        lp = aps[0].loops[-1]
                        j = lp.index
                        it = seq_items(aps[0].extra["args"][0])
                        okt = bool(it and len(it) == 3 and lp.lo == P.const(1) and lp.hi.key() == "-1 + $N" and it[0].key() == "$facet[0]"
                                   and it[1].key() == P.atom(("sub", P.atom(("local", "facet", 0)), (j,))).key()
                                   and it[2].key() == P.atom(("sub", P.atom(("local", "facet", 0)), (j + 1,))).key())
        chk.ob("R19.3", W, "order_and_triangulate_polygons", "fan triangulation (f0, f_i, f_i+1), i = 1..N-2", okt, found=str(t[0].value) if t else None)
        ov = w.ev("ordered_facets", opaque={"pts", "idxs", "points_2d", "ccw_order", "facet"})
        chk.saw(W, "ordered_facets")
        od = {k[1]: v for k, v in ov.defs.items()}
        oko = od.get("points_2d") is not None and od["points_2d"].key().startswith("project_to_plane($pts, facet_normals[") and \
            od.get("ccw_order") is not None and od["ccw_order"].key() == "winding_order_ccw($points_2d)"
        chk.ob("R19.3", W, "ordered_facets", "each facet is projected with its own facet normal and ordered by that projection", bool(oko),
               found=str({k: str(v) for k, v in od.items() if k in ("points_2d", "ccw_order")}))
        # the entries of an ordered facet are vertex numbers of the construction: the local winding order indexes the pruned points, the
        # pruning's index list maps those to positions in the facet, the facet to vertex numbers
        apps = []
        todo = [e.extra["args"][0] for e in ov.events if e.kind == "call" and e.target is not None and e.target.key().endswith(".append")]
        while todo:                      # an entry chosen by a conditional (empty facet -> []) is looked at alternative by alternative
            t_ = todo.pop()
            ta_ = t_.as_atom()
            if ta_ and ta_[0] == "ite":
                todo.extend((ta_[2], ta_[3]))
            elif t_.key() != "(tuple ())":
                apps.append(t_)
        okm = len(apps) == 1 and apps[0].as_atom() and apps[0].as_atom()[0] == "comp" and len(apps[0].as_atom()[3]) == 1 \
            and apps[0].as_atom()[3][0][1].key() == "$ccw_order" and not apps[0].as_atom()[3][0][2] \
            and _noit(apps[0].as_atom()[2].key()) == "$facet[$idxs[$ccw_order[_it]]]" \
            and od.get("pts") is not None and od["pts"].key() == "prune_degenerate_points(points[$facet])[0]" \
            and od.get("idxs") is not None and od["idxs"].key() == "prune_degenerate_points(points[$facet])[1]"
        chk.ob("R19.3", W, "ordered_facets", "an ordered facet lists vertex numbers: facet[idxs[x]] for x in the winding order of the pruned points "
               "(the winding order alone indexes the pruned subset, not the facet)", bool(okm), fingerprint="vertex-numbers",
               expected="[facet[idxs[x]] for x in ccw_order]", found=[str(a)[:120] for a in apps])
        fx = w.ev("WulffConstruction._fix_wulff_mesh")
        call = [e for e in fx.events if e.kind == "call" and call_name(e.value.as_atom() or ()) == "order_and_triangulate_polygons"]
        okf = bool(call) and [x.key() for x in call[0].extra["args"]] == ["self.wulff_vertices", "self.wulff_facets", "self.facet_normals"]
        if call and not okf:
            # the same arguments by keyword (parameter names of the callee)
            cal = w.funcs.get("order_and_triangulate_polygons")
            pn = [a.arg for a in cal.args.args] if cal is not None else []
            kw_ = dict(call[0].extra.get("kwargs") or ())
            pos_ = list(call[0].extra["args"])
            got = [pos_[i].key() if i < len(pos_) else (kw_[n].key() if n in kw_ else None) for i, n in enumerate(pn[:3])]
            okf = got == ["self.wulff_vertices", "self.wulff_facets", "self.facet_normals"]
        chk.ob("R19.3", W, "WulffConstruction._fix_wulff_mesh", "ordering uses the construction's vertices, facet lists and facet normals", okf)
    if chk.want("R19.4"):
        # the construction runs its four stages, each once, unconditionally and in order: dual points, their hull, the dual of the hull, the mesh
        iv = w.ev("WulffConstruction.__init__")
        chk.saw(W, "WulffConstruction.__init__")
        stages = ["_populate_duals", "_construct_dual_space_hull", "_extract_wulff_from_dual_mesh", "_fix_wulff_mesh"]
        seen = [e.target.key().split(".")[-1] for e in iv.events if e.kind == "call" and e.target is not None and e.target.key().startswith("self._")
                and e.target.key().split(".")[-1] in stages and not e.guards and not e.loops]
        chk.ob("R19.4", W, "WulffConstruction.__init__", "the constructor runs dual points -> dual hull -> dual of the hull -> mesh repair, each stage once and "
               "unconditionally, in that order", seen == stages, fingerprint="stages", expected=stages, found=seen)
        # pruning compares true pairwise squared distances; the three results of the triangulation go to the attributes they are named after;
        # an empty facet (and only an empty one) stays empty; every fan of triangles is kept together with one facet label per triangle
        pr = w.ev("prune_degenerate_points")
        chk.saw(W, "prune_degenerate_points")
        pp_ = P.name(pr.param_names[0])
        none_ = P.atom(("const", None))
        ds = [obj_init_(e.value) for e in pr.events if e.kind == "assign" and e.name == "dist_sq"]
        col = P.atom(("sub", pp_, (P.atom(("slice", none_, none_, none_)), P.name("numpy.newaxis"))))
        want_d = [P.atom(("call", P.name("numpy.sum"), ((col - pp_) ** 2,), (("axis", P.const(k)),))) for k in (2, -1)]
        chk.ob("R19.4", W, "prune_degenerate_points", "coincident vertices are found by the squared distance of every pair: sum((p_i - p_j)^2) over the coordinates",
               bool(ds) and any(ds[0] == w_ for w_ in want_d), fingerprint="pair-distance", expected=str(want_d[0]), found=str(ds[0])[:160] if ds else None)
        fx = w.ev("WulffConstruction._fix_wulff_mesh")
        chk.saw(W, "WulffConstruction._fix_wulff_mesh")
        got = {}
        for e in fx.events:
            if e.kind == "store" and e.target.key() in ("self.wulff_facets", "self.wulff_triangles", "self.wulff_triangle_indices"):
                for a in find_atoms(e.value, lambda a: a[0] == "sub" and len(a[2]) == 1 and a[2][0].const_value() is not None
                                    and call_name(a[1].as_atom() or ()) == "order_and_triangulate_polygons"):
                    got[e.target.key()] = int(a[2][0].const_value())
                if seq_items(e.value) is None and e.value.as_atom() and e.value.as_atom()[0] == "name":
                    got[e.target.key()] = e.value.key()
        chk.ob("R19.4", W, "WulffConstruction._fix_wulff_mesh", "ordered facets, triangles and triangle labels are results 0, 1, 2 of the triangulation, each "
               "stored under its own name", got == {"self.wulff_facets": 0, "self.wulff_triangles": 1, "self.wulff_triangle_indices": 2}, fingerprint="mesh-results",
               found=str(got))
        of = w.ev("ordered_facets")
        eapp = [e for e in of.events if e.kind == "call" and e.target is not None and e.target.key().endswith(".append") and e.extra.get("args")]
        empties = [e for e in eapp if e.extra["args"][0].key() == "(tuple ())"]
        fulls = [e for e in eapp if e.extra["args"][0].key() != "(tuple ())"]

        def len_zero(c):
            a = c.as_atom()
            return bool(a and a[0] == "eq" and {a[1].key(), a[2].key()} & {"0"} and "len(" in c.key())
        okpol = all(any(len_zero(c) and pol for c, pol in e.guards) for e in empties) and all(any(len_zero(c) and not pol for c, pol in e.guards) for e in fulls) \
            if empties else True
        chk.ob("R19.4", W, "ordered_facets", "a facet without vertices stays empty and every other facet is ordered (the emptiness test is not inverted)",
               okpol and bool(fulls), fingerprint="empty-facet-test", found=[f"{'' if p else 'not '}{str(c)[:50]}" for e in eapp for c, p in e.guards][:4])
        tv4 = w.ev("order_and_triangulate_polygons", opaque={"facet", "N", "t"})
        tapp = [e for e in tv4.events if e.kind == "call" and e.target is not None and e.target.key().endswith(".append") and "triangles" in e.target.key()]
        lab = [e for e in tv4.events if (e.kind == "assign" and e.name == "facet_indices" and e.extra.get("aug") == "Add") or
               (e.kind == "call" and e.target is not None and e.target.key().endswith(".extend") and "facet_indices" in e.target.key())]
        oklab = False
        if len(tapp) == 1 and len(lab) == 1 and tapp[0].loops and lab[0].loops and tapp[0].loops[-1].k == lab[0].loops[-1].k:
            d_ = lab[0].extra.get("delta") if lab[0].kind == "assign" else lab[0].extra["args"][0]
            da = d_.as_atom() if d_ is not None else None
            i_ = tapp[0].loops[-1].index
            oklab = bool(da and da[0] == "repeat" and seq_items(da[1]) is not None and len(seq_items(da[1])) == 1 and i_ is not None
                         and seq_items(da[1])[0].key() == i_.key() and da[2].key() == f"{tapp[0].extra['args'][0]}.shape[0]")
        chk.ob("R19.4", W, "order_and_triangulate_polygons", "every facet's fan is appended together with one label (the facet's number) per triangle of the fan",
               oklab, fingerprint="fan-labels", expected="triangles.append(t); facet_indices += [i] * t.shape[0]",
               found=[str(e.value)[:80] for e in lab][:1])

        r19_4(chk, w)
    chk.assume("that the hull's simplices are the right ones, degeneracies and volume are geometry and are not decided")
    chk.assume("ConvexHull combinatorics are invariant under uniform scaling (library contract); the pruning threshold is a ratio of the shape size (scale free since D40)")


def r19_4(chk, w):
    import ast
    from .generic import append_counts, dtype_inheritance_sites
    # (a) ordered_facets: result[i] belongs to facets[i]
    fn = w.func("ordered_facets")
    chk.saw(W, "ordered_facets")
    loops = [n for n in fn.body if isinstance(n, ast.For)]
    chk.need(len(loops) == 1, "ordered_facets: expected one loop over the facets")
    ret = [n for n in ast.walk(fn) if isinstance(n, ast.Return) and isinstance(n.value, ast.Name)]
    chk.need(ret, "ordered_facets: returned list not found")
    name = ret[0].value.id
    counts = append_counts(loops[0].body, name)
    chk.need(counts is not None, f"ordered_facets: the loop over facets changes '{name}' in a way the path count does not model")
    chk.ob("R19.4", W, "ordered_facets", "every pass of the loop over facets appends exactly one entry (position i of the result is facet i)",
           counts == {1}, node=loops[0], fingerprint="one-per-facet", expected="{1}", found=f"appends per pass over the paths: {sorted(counts)}")
    it = loops[0].iter
    chk.ob("R19.4", W, "ordered_facets", "the loop enumerates the facet lists in order", isinstance(it, ast.Call) and getattr(it.func, "id", None) == "enumerate"
           and isinstance(it.args[0], ast.Name) and it.args[0].id == fn.args.args[1].arg, node=loops[0], fingerprint="enumerate", found=ast.unparse(it))
    # (b) prune_degenerate_points: squared distances are compared with a squared length
    pv = w.ev("prune_degenerate_points")
    chk.saw(W, "prune_degenerate_points")
    pts, thr = pv.param_names[0], pv.param_names[1]
    deg_len = Deg({pts: 1, thr: 0})        # length dimension: the threshold is a ratio
    deg_thr = Deg({pts: 0, thr: 1})        # power of the threshold
    km = [e for e in pv.events if e.kind == "assign" and e.value is not None and find_atoms(e.value, lambda a: a[0] in ("lt", "le"))]
    chk.need(km, "prune_degenerate_points: comparison with the threshold not found")
    n = 0
    for a in find_atoms(km[0].value, lambda a: a[0] in ("lt", "le")):
        if thr not in a[1].key() + a[2].key():
            continue
        tside, dside = (a[1], a[2]) if thr in a[1].key() else (a[2], a[1])
        n += 1
        lt, ld = deg_len.of(tside), deg_len.of(dside)
        chk.ob("R19.4", W, "prune_degenerate_points", "the pruning test is scale free: both sides have the same length dimension with the threshold a pure "
               "ratio (an absolute length threshold breaks 'scaling all energies by s scales the shape by s')", lt is not None and lt == ld,
               node=km[0].node, fingerprint="dimension", expected="distance^2 >= (threshold * size)^2",
               found=f"{str(tside)[:80]}: length degree {lt}  vs  {str(dside)[:40]}: length degree {ld}")
        pt = deg_thr.of(tside)
        # power of the pairwise distance on the other side (the squared-distance matrix counts 2, whatever it is divided by)
        deg_d = Deg({pts: 0, thr: 0})
        for e0 in pv.events:
            if e0.kind == "assign" and e0.name == "dist_sq" and e0.value is not None:
                deg_d.base[e0.value.key()] = 2
        pd = deg_d.of(dside)
        chk.ob("R19.4", W, "prune_degenerate_points", "the threshold enters to the same power as the distance it bounds (squared distance with squared threshold)",
               pt is not None and pd is not None and pt == pd, node=km[0].node, fingerprint="threshold-power", expected=f"threshold^{pd}",
               found=f"threshold^{pt} against a distance to the power {pd}")
    chk.need(n >= 1, "prune_degenerate_points: no comparison involving the threshold")
    # (c) constructor: energies keep a dtype of their own
    q = "WulffConstruction.__init__"
    iv = w.ev(q)
    chk.saw(W, q)
    roots = {"self.facet_normals", "self.facet_energies"} | set(iv.param_names[1:])
    sites = dtype_inheritance_sites(iv, roots)
    st = {e.target.key(): e.value for e in iv.events if e.kind == "store"}
    fe = st.get("self.facet_energies")
    chk.need(fe is not None, f"{q}: facet_energies store not found")
    chk.ob("R19.4", W, q, "the energies are stored as given, in an array whose dtype comes from the energies (not from the normals)",
           not sites and iv.param_names[2] in fe.key() and "facet_normals" not in fe.key(), node=sites[0][0].node if sites else None,
           fingerprint="energies-dtype", expected=f"numpy.array({iv.param_names[2]})", found=sites[0][1] if sites else str(fe))
