"""Cross-cutting helpers shared by several property modules (DESIGN.md section 4)."""
from __future__ import annotations

from ..poly import P
from ..symex import find_atoms, call_name, seq_items

AXIS = {"x": 0, "y": 1, "z": 2, "a": 0, "b": 1, "c": 2, "alpha": 0, "beta": 1, "gamma": 2, "h": 0, "k": 1, "l": 2}


def axis_of(name: str):
    """Ordinal of the axis a name refers to ('x', 'fract_y', 'cell_length_c', 'alpha_deg' ...), or None."""
    n = name.lower()
    if n in AXIS:
        return AXIS[n]
    parts = n.split("_")
    for cand in (parts[-1], parts[0]):
        if cand in AXIS and len(parts) > 1:
            return AXIS[cand]
    if len(parts) >= 2 and parts[-1] in ("deg", "star", "rad") and parts[-2] in AXIS:
        return AXIS[parts[-2]]
    return None


def is_full_slice(p: P) -> bool:
    a = p.as_atom()
    return bool(a and a[0] == "slice" and all(x.key() == "None" for x in a[1:]))


def column_of(term: P):
    """(base, k) if term is base[:, k] or base[k] with constant k; else None."""
    a = term.as_atom()
    if not a or a[0] != "sub":
        return None
    idx = a[2]
    if len(idx) == 2 and is_full_slice(idx[0]):
        c = idx[1].const_value()
        if c is not None:
            return a[1], int(c), "col"
    if len(idx) == 1:
        c = idx[0].const_value()
        if c is not None:
            return a[1], int(c), "item"
    return None


def dict_items(term: P):
    a = term.as_atom()
    if a and a[0] == "obj":
        a = a[3].as_atom()
    if a and a[0] == "dict":
        out = []
        for k, v in a[1]:
            ka = k.as_atom()
            out.append((ka[1] if ka and ka[0] == "str" else None, k, v))
        return out
    return None


def string_value(p: P):
    a = p.as_atom()
    return a[1] if a and a[0] == "str" else None


def calls_in(ev, pred):
    return [e for e in ev.events if e.kind == "call" and pred(e)]


def method_calls_on(ev, obj_key, method):
    out = []
    for e in ev.events:
        if e.kind != "call" or e.target is None:
            continue
        t = e.target.as_atom()
        if t and t[0] == "attr" and t[2] == method and t[1].key() == obj_key:
            out.append(e)
    return out


TRANSPARENT_CALLS = {"numpy.asarray", "numpy.array", ".to_cartesian", ".to_fractional", ".astype", ".copy", "numpy.ascontiguousarray"}


def index_chain(term: P):
    """(root key, [index-array keys]) of a gathered array term: X[a][b] and X[a[b]] both give (X, [a, b]);
    asarray / to_cartesian / astype are transparent (DESIGN.md A.6)."""
    a = term.as_atom()
    if a is None:
        return term.key(), []
    if a[0] == "call" and call_name(a) in TRANSPARENT_CALLS:
        c = a[1].as_atom()
        inner = a[2][0] if a[2] else (c[1] if c and c[0] == "attr" else None)
        if call_name(a).startswith(".") and not a[2] and c and c[0] == "attr":
            inner = c[1]
        if call_name(a) == ".astype" and c and c[0] == "attr":
            inner = c[1]
        if inner is not None:
            return index_chain(inner)
    if a[0] == "obj":
        return index_chain(a[3]) if False else (term.key(), [])
    if a[0] == "sub" and len(a[2]) == 1:
        ia = a[2][0].as_atom()
        if ia is not None and ia[0] in ("slice", "str") or a[2][0].const_value() is not None:
            return term.key(), []
        root, ops = index_chain(a[1])
        iroot, iops = index_chain(a[2][0])
        return root, ops + [iroot] + iops
    return term.key(), []


DTYPE_INHERITING = {"numpy.tile", "numpy.copy", "numpy.empty_like", "numpy.zeros_like", "numpy.ones_like", "numpy.full_like",
                    "numpy.pad", "numpy.repeat", "numpy.array", "numpy.asarray"}


def dtype_inheritance_sites(ev, data_roots):
    """Buffers whose dtype is inherited from caller data and that then receive computed (floating) values.

    data_roots: keys of terms holding caller data (parameters, attributes).  Returns [(event, description)].
    A dtype=... keyword naming a float type, or .astype(float), makes the site safe.
    """
    from ..symex import obj_init
    out = []
    suspects = {}
    for e in ev.events:
        if e.kind not in ("assign", "store") or e.value is None:
            continue
        v = obj_init(e.value)
        a = v.as_atom()
        if not a or a[0] != "call":
            continue
        cn = call_name(a)
        kw = dict(a[3]) if len(a) > 3 else {}
        if cn in ("numpy.empty", "numpy.zeros", "numpy.ones", "numpy.full") and a[2]:
            # np.empty(shape, dtype=x.dtype): the same inheritance, spelt out
            dt = kw.get("dtype") or (a[2][-1] if len(a[2]) > (2 if cn == "numpy.full" else 1) else None)
            if dt is not None and dt.key().endswith(".dtype") and any(dt.key()[:-6] == r or dt.key().startswith(r + "[") or dt.key().startswith(r + ".")
                                                                       for r in data_roots):
                key = e.value.key() if e.kind == "assign" else e.target.key()
                suspects[key] = (e, f"{cn}(..., dtype={dt}) takes the dtype of {dt.key()[:-6]}")
            continue
        if cn not in DTYPE_INHERITING or not a[2]:
            continue
        if "dtype" in kw and any(w in kw["dtype"].key() for w in ("float", "complex", "double")):
            continue
        src = a[2][0]
        rooted = any(src.key() == r or src.key().startswith(r + "[") or src.key().startswith(r + ".") for r in data_roots)
        if not rooted:
            continue
        if cn == "numpy.full_like" and len(a[2]) > 1:
            out.append((e, f"{cn}({src}, {a[2][1]}): the fill value is cast to the dtype of {src}"))
            continue
        if cn in ("numpy.array", "numpy.asarray"):
            continue
        key = e.value.key() if e.kind == "assign" else e.target.key()
        suspects[key] = (e, f"{cn}({src}, ...) inherits the dtype of {src}")
    if suspects:
        for e in ev.events:
            if e.kind in ("store", "aug"):
                t = e.target.as_atom()
                if t and t[0] == "sub" and t[1].key() in suspects:
                    s = suspects.pop(t[1].key())
                    out.append((s[0], s[1] + f" and then receives computed values ({str(e.target)[:60]} = ...)"))
    return out


def append_counts(body, name):
    """Possible numbers of ``name.append(...)`` / ``name += [...]`` executed on one pass through a loop body.

    Returns a set of ints (one per path class), or None when the body has constructs this walk does not model
    (nested loops / try / with that touch ``name``).  ``continue`` ends the pass; ``break``/``return``/``raise`` paths are ignored
    (they do not complete an iteration that is followed by another).
    """
    import ast as _ast

    def touches(node):
        return any(isinstance(n, _ast.Name) and n.id == name for n in _ast.walk(node))

    def is_append(st):
        if isinstance(st, _ast.Expr) and isinstance(st.value, _ast.Call) and isinstance(st.value.func, _ast.Attribute) \
                and st.value.func.attr == "append" and isinstance(st.value.func.value, _ast.Name) and st.value.func.value.id == name:
            return True
        if isinstance(st, _ast.AugAssign) and isinstance(st.target, _ast.Name) and st.target.id == name and isinstance(st.op, _ast.Add) \
                and isinstance(st.value, _ast.List) and len(st.value.elts) == 1:
            return True
        return False

    def walk(stmts, counts):
        """counts: set of running counts of live paths -> (live counts, finished counts)"""
        done = set()
        live = set(counts)
        for st in stmts:
            if not live:
                break
            if is_append(st):
                live = {c + 1 for c in live}
            elif isinstance(st, _ast.If):
                l1, d1 = walk(st.body, live)
                l2, d2 = walk(st.orelse, live)
                if l1 is None or l2 is None:
                    return None, None
                live = l1 | l2
                done |= d1 | d2
            elif isinstance(st, _ast.Continue):
                done |= live
                live = set()
            elif isinstance(st, (_ast.Break, _ast.Return, _ast.Raise)):
                live = set()
            elif isinstance(st, (_ast.For, _ast.While, _ast.Try, _ast.With)):
                if touches(st):
                    return None, None
            elif touches(st) and not isinstance(st, (_ast.Assign, _ast.Expr, _ast.AugAssign, _ast.AnnAssign)):
                return None, None
            elif isinstance(st, (_ast.Expr, _ast.Assign, _ast.AugAssign)) and touches(st):
                # other uses of the list (extend, insert, slicing) change its length in ways this walk does not count
                src = _ast.unparse(st)
                if any(w in src for w in (f"{name}.extend", f"{name}.insert", f"{name}.pop", f"{name} +=", f"{name} =", f"del {name}")):
                    return None, None
        return live, done
    live, done = walk(body, {0})
    if live is None:
        return None
    return live | done


def inline_single_return_hook(mod, skip=()):
    """call_hook that inlines module-level functions of ``mod`` whose body is a single return statement (helpers, thin wrappers).

    Decorators are ignored here (a caching decorator is judged by the cache rule, not by the value analysis)."""
    import ast as _ast
    from ..symex import Ev

    def hook(ev, callee, args, kwargs, node):
        ca = callee.as_atom()
        if not ca or ca[0] != "name":
            return None
        name = ca[1].split(".")[-1]
        if name in skip:
            return None
        fn = mod.funcs.get(name)
        if fn is None or fn is getattr(ev, "func", None):
            return None
        body = [s for s in fn.body if not (isinstance(s, _ast.Expr) and isinstance(s.value, _ast.Constant))]
        if len(body) != 1 or not isinstance(body[0], _ast.Return) or body[0].value is None:
            return None
        params = [a.arg for a in fn.args.args]
        if len(args) > len(params) or fn.args.vararg or fn.args.kwarg:
            return None
        bind = dict(zip(params, args))
        for k, v in (kwargs or ()):
            if k not in params or k in bind:
                return None
            bind[k] = v
        if set(bind) != set(params):
            # defaults
            defaults = fn.args.defaults
            for p, d in zip(params[len(params) - len(defaults):], defaults):
                if p not in bind:
                    bind[p] = Ev([_ast.Return(value=d)], mod.ctx).run().returns[0].value
            if set(bind) != set(params):
                return None
        sub = Ev([body[0]], mod.ctx, params=bind, call_hook=hook)
        sub.run()
        return sub.returns[0].value
    return hook


def returns_mutable(repo, mod, term, depth=0):
    """True: the term is a fresh-or-shared mutable container (ndarray, list, dict); False: immutable; None: unknown."""
    from ..symex import obj_init
    a = term.as_atom()
    if term.const_value() is not None:
        return False
    if a is None:
        return None
    tag = a[0]
    if tag in ("str", "fstr", "const", "tuple"):
        if tag == "tuple":
            sub = [returns_mutable(repo, mod, x, depth) for x in a[1]]
            return True if any(s for s in sub) else (False if all(s is False for s in sub) else None)
        return False
    if tag == "obj":
        return True
    if tag in ("comp", "dict", "list", "set"):
        return True
    if tag == "ite":
        sub = [returns_mutable(repo, mod, a[2], depth), returns_mutable(repo, mod, a[3], depth)]
        return True if any(s for s in sub) else (False if all(s is False for s in sub) else None)
    if tag == "call":
        cn = call_name(a) or ""
        if cn in ("int", "float", "str", "bool", "len", "tuple", "frozenset", "complex", "round", "abs", "hash"):
            return False
        if cn.startswith("numpy.") and cn not in ("numpy.float64", "numpy.float32", "numpy.int32", "numpy.int64", "numpy.isclose"):
            return True
        if cn in ("list", "dict", "set", "sorted", ".copy", ".astype", ".reshape", "collections.defaultdict", "collections.OrderedDict"):
            return True
        if depth > 3:
            return None
        # dispatch through a module-level registry  X[key](...)
        callee = a[1].as_atom()
        targets = []
        if callee and callee[0] == "sub" and callee[1].as_atom() and callee[1].as_atom()[0] == "name":
            node = mod.toplevel_assign(callee[1].as_atom()[1].split(".")[-1])
            import ast as _ast
            if isinstance(node, _ast.Dict):
                targets = [v.id for v in node.values if isinstance(v, _ast.Name)]
        elif callee and callee[0] == "name":
            targets = [callee[1]]
        res = []
        for t in targets:
            short = t.split(".")[-1]
            if "." not in t and short in mod.funcs and short not in mod.ctx.alias:
                fev = mod.ev(short)
                res += [returns_mutable(repo, mod, r.value, depth + 1) for r in fev.returns if r.value is not None]
                continue
            full = t if t.startswith("chmpy.") else mod.ctx.alias.get(short, t)
            hit = repo.resolve_symbol(full) if hasattr(repo, "resolve_symbol") else None
            if hit:
                m2, q2 = hit
                try:
                    fev = m2.ev(q2)
                except Exception:
                    res.append(None)
                    continue
                res += [returns_mutable(repo, m2, r.value, depth + 1) for r in fev.returns if r.value is not None]
            else:
                res.append(None)
        if res:
            return True if any(r for r in res) else (False if all(r is False for r in res) else None)
    return None


def specialise(term, cond_key, truth):
    """Rewrite ``term`` under the assumption that the condition with key ``cond_key`` has value ``truth``:
    ite atoms on that condition (or its negation) collapse to a branch, and comparisons of two constants fold."""
    from ..symex import find_atoms as _fa
    from ..poly import P as _P

    def value_of(c):
        k = c.key()
        if k == cond_key:
            return truth
        if k in ("True", "False"):
            return k == "True"
        a = c.as_atom()
        if a and a[0] in ("eq", "ne") and len(a) == 3 and a[1].as_atom() and a[2].as_atom() and a[1].as_atom()[0] == "str" and a[2].as_atom()[0] == "str":
            return (a[1].as_atom()[1] == a[2].as_atom()[1]) == (a[0] == "eq")
        if a and a[0] == "not":
            v = value_of(a[1])
            return None if v is None else (not v)
        if a and a[0] in ("eq", "ne", "lt", "le", "is", "isnot") and len(a) == 3:
            x, y = a[1].const_value(), a[2].const_value()
            if x is not None and y is not None:
                return {"eq": x == y, "ne": x != y, "lt": x < y, "le": x <= y, "is": x == y, "isnot": x != y}[a[0]]
        return None
    cur = term
    for _ in range(8):
        mapping = {}
        for a in _fa(cur, lambda a: a[0] == "ite"):
            v = value_of(a[1])
            if v is not None:
                mapping[a] = a[2] if v else a[3]
        if not mapping:
            return cur
        cur = cur.subs(mapping)
    return cur


def fancy_aug_sites(ev, roots=None):
    """In-place accumulation through an integer-array index, ``a[idx] += v``: numpy applies it once per *distinct* index,
    so contributions to a repeated index are lost (np.add.at is the accumulating form).  Returns [(event, description)].

    An index counts as an array when it is neither a loop variable, a constant, a slice nor a scalar call like int()."""
    out = []
    for e in ev.events:
        if e.kind != "aug":
            continue
        t = e.target.as_atom()
        if not (t and t[0] == "sub" and len(t[2]) == 1):
            continue
        if roots is not None and t[1].key() not in roots:
            continue
        idx = t[2][0]
        ia = idx.as_atom()
        if idx.const_value() is not None:
            continue
        if ia and ia[0] in ("slice", "lv", "const", "str"):
            continue
        if ia is None:
            # arithmetic on loop variables / scalars
            if all(a[0] in ("lv", "name", "const") for a in idx.atoms()):
                continue
        if ia and ia[0] == "sub" and ia[2] and all(x.as_atom() and x.as_atom()[0] == "lv" for x in ia[2]):
            continue                      # element of an index list inside a loop: a scalar
        if ia and ia[0] == "name":
            continue
        out.append((e, f"{e.target} {e.op or '+'}= ... with an array index: repeated indices are applied once, not accumulated"))
    return out


def flat_of(term: P) -> P:
    """x.flatten() / x.ravel() / x.reshape(-1) / numpy.ravel(x)  ->  x   (one spelling for 'all entries of x in order')."""
    a = term.as_atom()
    if a and a[0] == "call":
        cn = call_name(a)
        if cn in (".flatten", ".ravel") and not a[2]:
            return a[1].as_atom()[1]
        if cn == ".reshape" and len(a[2]) == 1 and a[2][0].key() == "-1":
            return a[1].as_atom()[1]
        if cn in ("numpy.ravel",) and len(a[2]) == 1:
            return a[2][0]
    return term


# properties that return a tuple of fixed length (SHT.grid_cartesian is spherical_to_cartesian_mgrid's (x, y, z); SHT.grid is (theta, phi))
FIXED_TUPLES = {"sht.grid_cartesian": 3, "self.grid_cartesian": 3, "sht.grid": 2, "self.grid": 2}


def comp_items(seq: P):
    """[f(c) for c in T] over a fixed-length tuple property T  ->  [f(T[0]), f(T[1]), ...]; None otherwise."""
    a = seq.as_atom()
    if not (a and a[0] == "comp" and a[1] in ("ListComp", "GeneratorExp") and len(a) == 4 and len(a[3]) == 1):
        return None
    kind, it, conds = a[3][0]
    n = FIXED_TUPLES.get(it.key())
    if kind != "iter" or conds or n is None:
        return None
    idx = {x for x in _walk_atoms(a[2]) if x[0] == "lv" and x[1] == "_it"}
    if len(idx) != 1:
        return None
    from ..symex import Ev
    out = []
    for k in range(n):
        out.append(a[2].subs({next(iter(idx)): P.const(k)}))
    return out


def _walk_atoms(term: P):
    seen = []

    def rec(x):
        if isinstance(x, P):
            for at in x.atoms():
                seen.append(at)
                rec(at)
        elif isinstance(x, tuple):
            for y in x:
                rec(y)
    rec(term)
    return seen


def _cols(seq: P):
    from ..symex import seq_items
    it = seq_items(seq)
    return it if it is not None else comp_items(seq)


def stack_columns(term: P):
    """The column terms of an (N, k) array written as np.c_[a, b, c] / np.column_stack((a, b, c)) / np.stack((a, b, c), axis=1 or -1) /
    np.array([a, b, c]).T / np.vstack((a, b, c)).T, through dtype conversions; None if the term is not such a construction."""
    from ..symex import seq_items
    a = term.as_atom()
    while a and a[0] == "call" and call_name(a) in (".astype", "numpy.asarray", "numpy.ascontiguousarray", "numpy.array") and \
            (call_name(a) != "numpy.array" or not seq_items(a[2][0])):
        term = a[1].as_atom()[1] if call_name(a).startswith(".") else a[2][0]
        a = term.as_atom()
    if not a:
        return None
    if a[0] == "sub" and a[1].key() == "numpy.c_":
        return list(a[2])
    if a[0] == "call":
        cn = call_name(a)
        kw = dict(a[3]) if len(a) > 3 and a[3] else {}
        if cn == "numpy.column_stack" and len(a[2]) == 1:
            return _cols(a[2][0])
        if cn == "numpy.stack" and len(a[2]) >= 1 and (kw.get("axis") or (a[2][1] if len(a[2]) > 1 else P.const(0))).key() in ("1", "-1"):
            return _cols(a[2][0])
    if a[0] == "T":
        inner = a[1].as_atom()
        if inner and inner[0] == "call" and call_name(inner) in ("numpy.array", "numpy.vstack", "numpy.stack") and inner[2]:
            return _cols(inner[2][0])
    return None


def list_appends(ev, sink: P):
    """Everything appended to the list object ``sink`` in evaluation order, as 'call' events with ``extra['args'] = [item]``:
    ``sink.append(x)``; ``sink.extend(other)`` / ``sink += other`` where ``other`` is a list built in this function (its literal initial
    items, then its own appends, each at the place it happens); ``sink.extend([a, b])``.  A list that only collects lines on behalf of
    another one (a helper's result, inlined) is the same accumulation as appending to the outer list directly."""
    from ..symex import Event, obj_init
    feeders, order = {sink.key()}, []
    changed = True
    while changed:
        changed = False
        for e in ev.events:
            src = None
            if e.kind == "call" and e.target is not None and e.target.key().endswith(".extend") and e.target.key()[:-7] in feeders and e.extra.get("args"):
                src = e.extra["args"][0]
            elif e.kind == "aug" and e.op in ("Add", "+") and e.target is not None and e.target.key() in feeders:
                src = e.value
            if src is not None and src.as_atom() and src.as_atom()[0] == "obj" and src.key() not in feeders:
                feeders.add(src.key())
                changed = True
    out, born = [], set()
    for e in ev.events:
        if e.kind == "assign" and e.value is not None and e.value.key() in feeders and e.value.key() != sink.key():
            a = e.value.as_atom()
            # first binding of the object: its literal initial items
            if a and a[0] == "obj" and e.value.key() not in born:
                born.add(e.value.key())
                for it in seq_items(obj_init(e.value)) or ():
                    out.append(Event("call", e.node, e.guards, e.loops, target=P.atom(("attr", e.value, "append")), value=None,
                                     extra={"args": [it], "kwargs": [], "initial": True}))
        elif e.kind == "call" and e.target is not None and e.target.key().endswith(".append") and e.target.key()[:-7] in feeders:
            out.append(e)
        elif e.kind == "call" and e.target is not None and e.target.key().endswith(".extend") and e.target.key()[:-7] in feeders and e.extra.get("args"):
            for it in seq_items(e.extra["args"][0]) or ():
                out.append(Event("call", e.node, e.guards, e.loops, target=e.target, value=None, extra={"args": [it], "kwargs": []}))
            ca = e.extra["args"][0].as_atom()
            if ca and ca[0] == "comp" and ca[1] in ("ListComp", "GeneratorExp") and len(ca) == 4:
                # sink.extend(ELT for x in xs): one append of ELT per element of xs ('comp' = the generators, an implicit inner loop)
                out.append(Event("call", e.node, e.guards, e.loops, target=e.target, value=None, extra={"args": [ca[2]], "kwargs": [], "comp": ca[3]}))
        elif e.kind == "assign" and e.extra.get("aug") == "Add" and e.extra.get("old") is not None and e.extra["old"].key() in feeders \
                and e.extra.get("delta") is not None:
            da = e.extra["delta"].as_atom()
            if da and da[0] == "comp" and da[1] in ("ListComp", "GeneratorExp") and len(da) == 4:
                out.append(Event("call", e.node, e.guards, e.loops, target=None, value=None, extra={"args": [da[2]], "kwargs": [], "comp": da[3]}))
    return out


def asarray_of_params_hook(params):
    """call_hook: np.asarray(p) / np.asanyarray(p) of a parameter, without dtype, is the parameter itself for the purposes of layout
    and dtype rules (same length, same values, same dtype)."""
    def hook(ev, callee, args, kwargs, node):
        ca = callee.as_atom()
        if ca and ca[0] == "name" and ca[1] in ("numpy.asarray", "numpy.asanyarray") and len(args) == 1 and not kwargs:
            aa = args[0].as_atom()
            if aa and aa[0] == "name" and aa[1] in params:
                return args[0]
        return None
    return hook


def computed_return(ev):
    """The value a getter computes, reading past a memo in front of it: returns that only hand back an attribute the path has just tested
    to be there (`if hasattr(self, "_v"): return self._v`) are not the definition; whether such a memo is kept valid is the cache rule's
    business (R<nn>.9).  -> the remaining return event (the last one when several remain)."""
    rest = []
    for r in ev.returns:
        if r.value is None:
            continue
        a = r.value.as_atom()
        attr = None
        if a and a[0] == "attr" and a[1].key() == "self":
            attr = a[2]
        elif a and a[0] == "call" and call_name(a) == "getattr" and len(a[2]) >= 2 and a[2][0].key() == "self" and string_value(a[2][1]):
            attr = string_value(a[2][1])
        if attr is not None and attr.startswith("_") and any(pol and attr in c.key() and ("hasattr(self" in c.key() or "None" in c.key()) for c, pol in r.guards) \
                and any(e.kind == "store" and e.target.key() == f"self.{attr}" or
                        (e.kind == "call" and call_name(e.value.as_atom() or ()) == "setattr" and len(e.extra["args"]) == 3 and string_value(e.extra["args"][1]) == attr)
                        for e in ev.events):
            continue
        rest.append(r)
    if len(rest) > 1:
        # the value read is the last one: exits in front of it with another value are reported by R<nn>.19 (sa/rules/exits.py)
        from ..symex import RETURN_AUDIT
        for r in rest[:-1]:
            if r.value.key() != rest[-1].value.key():
                RETURN_AUDIT.append((ev.returns.modname, getattr(ev.returns.owner, "name", "?"), r, rest[-1], "generic.py:computed_return"))
    return rest[-1] if rest else (ev.returns.pick(-1) if ev.returns else None)
