"""Cross-cutting helpers shared by several property modules (DESIGN.md section 4)."""
from __future__ import annotations

from ..poly import P
from ..symex import find_atoms, call_name, seq_items

AXIS = {"x": 0, "y": 1, "z": 2, "a": 0, "b": 1, "c": 2, "alpha": 0, "beta": 1, "gamma": 2, "h": 0, "k": 1, "l": 2}


def axis_of(name: str):
    """Ordinal of the axis a name refers to ('x', 'fract_y', 'cell_length_c', 'alpha_deg' ...), or None."""
    n = name.lower()
    if n in AXIS:
        return AXIS[n]
    parts = n.split("_")
    for cand in (parts[-1], parts[0]):
        if cand in AXIS and len(parts) > 1:
            return AXIS[cand]
    if len(parts) >= 2 and parts[-1] in ("deg", "star", "rad") and parts[-2] in AXIS:
        return AXIS[parts[-2]]
    return None


def is_full_slice(p: P) -> bool:
    a = p.as_atom()
    return bool(a and a[0] == "slice" and all(x.key() == "None" for x in a[1:]))


def column_of(term: P):
    """(base, k) if term is base[:, k] or base[k] with constant k; else None."""
    a = term.as_atom()
    if not a or a[0] != "sub":
        return None
    idx = a[2]
    if len(idx) == 2 and is_full_slice(idx[0]):
        c = idx[1].const_value()
        if c is not None:
            return a[1], int(c), "col"
    if len(idx) == 1:
        c = idx[0].const_value()
        if c is not None:
            return a[1], int(c), "item"
    return None


def dict_items(term: P):
    a = term.as_atom()
    if a and a[0] == "obj":
        a = a[3].as_atom()
    if a and a[0] == "dict":
        out = []
        for k, v in a[1]:
            ka = k.as_atom()
            out.append((ka[1] if ka and ka[0] == "str" else None, k, v))
        return out
    return None


def string_value(p: P):
    a = p.as_atom()
    return a[1] if a and a[0] == "str" else None


def calls_in(ev, pred):
    return [e for e in ev.events if e.kind == "call" and pred(e)]


def method_calls_on(ev, obj_key, method):
    out = []
    for e in ev.events:
        if e.kind != "call" or e.target is None:
            continue
        t = e.target.as_atom()
        if t and t[0] == "attr" and t[2] == method and t[1].key() == obj_key:
            out.append(e)
    return out


TRANSPARENT_CALLS = {"numpy.asarray", "numpy.array", ".to_cartesian", ".to_fractional", ".astype", ".copy", "numpy.ascontiguousarray"}


def index_chain(term: P):
    """(root key, [index-array keys]) of a gathered array term: X[a][b] and X[a[b]] both give (X, [a, b]);
    asarray / to_cartesian / astype are transparent (DESIGN.md A.6)."""
    a = term.as_atom()
    if a is None:
        return term.key(), []
    if a[0] == "call" and call_name(a) in TRANSPARENT_CALLS:
        c = a[1].as_atom()
        inner = a[2][0] if a[2] else (c[1] if c and c[0] == "attr" else None)
        if call_name(a).startswith(".") and not a[2] and c and c[0] == "attr":
            inner = c[1]
        if call_name(a) == ".astype" and c and c[0] == "attr":
            inner = c[1]
        if inner is not None:
            return index_chain(inner)
    if a[0] == "obj":
        return index_chain(a[3]) if False else (term.key(), [])
    if a[0] == "sub" and len(a[2]) == 1:
        ia = a[2][0].as_atom()
        if ia is not None and ia[0] in ("slice", "str") or a[2][0].const_value() is not None:
            return term.key(), []
        root, ops = index_chain(a[1])
        iroot, iops = index_chain(a[2][0])
        return root, ops + [iroot] + iops
    return term.key(), []
