"""C03 — periodic neighbourhood queries are complete (crystal/crystal.py)."""
from __future__ import annotations

import ast

from ..core import AnalysisError
from ..poly import P, _mentions
from ..symex import Ev, find_atoms, call_name, seq_items, obj_init
from ..tags import length_kind, space_of
from .generic import string_value, dict_items

CR = "crystal/crystal.py"
UC = "crystal/unit_cell.py"

SITES = ["atoms_in_radius", "atomic_surroundings", "atom_group_surroundings", "molecule_environment",
         "functional_group_surroundings", "molecular_shell", "symmetry_unique_dimers"]
SLAB_SITES = SITES[:5]
MOLECULE_CENTRED = ("atom_group_surroundings", "molecule_environment", "functional_group_surroundings")


def uc_resolver(chk):
    """Classify a call/attribute on a UnitCell through its definition in unit_cell.py."""
    uc = chk.repo.module(UC)

    def resolve(owner, name, args):
        fn = uc.funcs.get(f"UnitCell.{name}")
        if fn is None:
            return None
        ev = Ev(fn, uc.ctx).run()
        kinds = set()
        for e in ev.returns:
            v = e.value
            k = length_kind(v, None)
            if k is None:
                # tuple / array of per-axis values
                it = seq_items(v)
                if it:
                    ks = {length_kind(x, None) for x in it}
                    k = ks.pop() if len(ks) == 1 else None
            kinds.add(k)
        return kinds.pop() if len(kinds) == 1 else None
    return resolve


def uc_inline_hook(repo):
    """call_hook: ``self.unit_cell.m(args)`` with UnitCell.m a single-return method is replaced by that return expression
    (self -> self.unit_cell), so that a helper on the cell is classified by what it computes, not by its name."""
    uc = repo.module(UC)

    def hook(ev, callee, args, kwargs, node):
        ca = callee.as_atom()
        if not (ca and ca[0] == "attr" and ca[1].key() in ("self.unit_cell", "self.uc")):
            return None
        fn = uc.funcs.get(f"UnitCell.{ca[2]}")
        if fn is None:
            return None
        body = [st for st in fn.body if not (isinstance(st, ast.Expr) and isinstance(st.value, ast.Constant))]
        if len(body) != 1 or not isinstance(body[0], ast.Return) or body[0].value is None:
            return None
        params = [a.arg for a in fn.args.args]
        if len(args) + 1 > len(params) or kwargs:
            return None
        bind = {params[0]: ca[1]}
        bind.update(dict(zip(params[1:], args)))
        if set(bind) != set(params):
            return None
        sub = Ev([body[0]], uc.ctx, params=bind)
        sub.run()
        return sub.returns[0].value
    return hook


def split_extent(arg: P, params):
    """arg = p + s*E with E the part proportional to a radius parameter -> (E, p, radius_atom) or None."""
    num = arg.n
    den = P(arg.d)
    for pname in params:
        ratom = ("name", pname)
        rpart, rest = {}, {}
        for m, c in num.items():
            if any(a == ratom for a, _ in m):
                rpart[m] = c
            else:
                rest[m] = c
        if rpart:
            return P(rpart) / den, P(rest) / den, ratom
    return None


def run(chk):
    repo = chk.repo
    cr = repo.module(CR)
    chk.explanation = ("crystal.py: for every site that turns a radius into a range of cells, the argument of ceil/floor is "
                       "split into centre position and extent; the extent's length factor is classified direct/reciprocal "
                       "(through the UnitCell accessors), rounding direction, accumulation seeds and slab inclusiveness, "
                       "coordinate-space tags of the operands, block alignment of slab(), and exclusion of the centre's own atoms.")
    chk.rule("R03.1", "the fractional half-extent of a Cartesian ball of radius r along axis i is r * |a*_i| (not r / |a_i|)", 7)
    chk.rule("R03.2", "cell range: upper bound ceil(p + e), lower bound floor(p - e), accumulated with max/min from -inf/+inf, slab inclusive", 12)
    chk.rule("R03.3", "coordinate spaces: ceil/floor see fractional centres; KD-trees are built on and queried with Cartesian points", 7)
    chk.rule("R03.4", "slab alignment: position block i and cell block i share one slice; other columns are tiled cell-major", 6)
    chk.rule("R03.5", "the centre's own atoms are excluded by a distance threshold and all reported arrays share the keep index", 8)
    resolver = uc_resolver(chk)
    hook = uc_inline_hook(repo)
    evs = {q: cr.ev("Crystal." + q, call_hook=hook) for q in SITES}
    for q in SITES:
        chk.saw(CR, "Crystal." + q)
    if chk.want("R03.1") or chk.want("R03.2") or chk.want("R03.3"):
        # helper methods that turn (centres, radius) into a cell range are sites of their own
        helpers = {}
        expanded = {h for q in SITES for h in getattr(evs[q], "inlined_helpers", [])}
        for fn in cr.methods("Crystal"):
            if fn.name in expanded:
                continue            # a helper new to the rule set: its body is part of every site that calls it
            if fn.name in SITES or not any(isinstance(n, (ast.Name, ast.Attribute)) and getattr(n, "id", getattr(n, "attr", None)) in ("ceil", "floor")
                                          for n in ast.walk(fn)):
                continue
            hev = cr.ev("Crystal." + fn.name, call_hook=hook)
            if extent_calls(hev):
                helpers[fn.name] = hev
        for h, hev in helpers.items():
            chk.saw(CR, "Crystal." + h)
            extent_rules(chk, cr, h, hev, resolver, helper=True)
        for q in SITES:
            if extent_calls(evs[q]):
                extent_rules(chk, cr, q, evs[q], resolver)
            else:
                delegation_rules(chk, cr, q, evs[q], helpers, resolver)
        # vacuity guard per site (obligation totals change legitimately when the range computation is shared)
        for rid in ("R03.1", "R03.2", "R03.3"):
            if chk.want(rid):
                for q in SITES:
                    if rid == "R03.2" and q not in SLAB_SITES:
                        continue
                    chk.need(any(o.rule == rid and o.function == "Crystal." + q for o in chk.obs),
                             f"{rid}: site Crystal.{q} produced no obligation")
    if chk.want("R03.2") or chk.want("R03.4"):
        slab_rules(chk, cr)
    if chk.want("R03.5"):
        exclusion_rules(chk, cr, evs)
    chk.rule("R03.6", "memo discipline of class Crystal (= C14 R14.2): every state-changing method drops every memoised quantity, including any newly introduced cache", 2)
    if chk.want("R03.6"):
        from .c14 import crystal_memo_rule
        crystal_memo_rule(chk, "R03.6")
    chk.rule("R03.7", "the unit-cell atoms the neighbourhood queries draw from are the distinct sites of the cell: wrap before merge, periodic and distance-based coincidence, aligned per-atom columns, occupancy-conserving merge (= C01 R01.2, R01.3, R01.4)", 4)
    if chk.want("R03.7"):
        from ..inherit import inherit
        inherit(chk, "R03.7", "c01", ["R01.2", "R01.3", "R01.4"])
    chk.rule("R03.8", "the coordinate conversions the queries use are the cell's: to_cartesian / to_fractional are right-multiplications by the direct / "
                      "inverse matrix for every cell, however it was specified (= C12 R12.5) -- a shortcut for orthogonal cells is wrong for rotated lattice vectors", 4)
    if chk.want("R03.8"):
        from ..inherit import inherit
        inherit(chk, "R03.8", "c12", ["R12.5"])
    chk.rule("R03.10", "the molecules that serve as centres of molecule_environments are lattice translates of their atoms: the recentring translation is "
                       "to_cartesian(wrap(fc) - fc) of the exact fractional centre (= C04 R04.3) -- a rounded centre moves the molecule off its sites and "
                       "the own-atom exclusion no longer finds them", 2)
    if chk.want("R03.10"):
        from ..inherit import inherit
        inherit(chk, "R03.10", "c04", ["R04.3"])
    chk.assume("KD-tree ball queries, tolerance edge cases and tightness of ceil are not decided")
    chk.assume("a Cartesian ball of radius r spans |delta frac_i| <= r * |column i of the inverse matrix| (exact geometry)")


def extent_calls(ev):
    """[(ceil|floor, atom, (extent, centre, radius atom), event)] : rounding of (position +- radius-proportional extent)."""
    params = [p for p in ev.param_names if p != "self"]
    rparams = [p for p in params if "radius" in p or p in ("r", "cutoff")] or params
    found = []
    seen = set()
    for e in ev.events:
        if e.value is None:
            continue
        for a in find_atoms(e.value, lambda a: a[0] == "call" and call_name(a) in ("ceil", "floor") and len(a[2]) == 1):
            if a in seen:
                continue
            seen.add(a)
            sp = split_extent(a[2][0], rparams)
            if sp is None:
                continue
            found.append((call_name(a), a, sp, e))
    return found


def reducer_of(p: P):
    """centre = X.max(axis=0) / numpy.max(X, axis=0) / X.min(...) -> (X, 'max'|'min', axis) ; otherwise (p, None, None)."""
    a = p.as_atom()
    if a and a[0] == "call":
        cn = call_name(a)
        kw = dict(a[3]) if len(a) > 3 else {}
        if cn in (".max", ".min", ".amax", ".amin"):
            base = a[1].as_atom()[1]
            ax = kw.get("axis") or (a[2][0] if a[2] else None)
            return base, "max" if "max" in cn else "min", (ax.const_value() if ax is not None else None)
        if cn in ("numpy.max", "numpy.min", "numpy.amax", "numpy.amin") and a[2]:
            ax = kw.get("axis") or (a[2][1] if len(a[2]) > 1 else None)
            return a[2][0], "max" if "max" in cn else "min", (ax.const_value() if ax is not None else None)
    return p, None, None


def delegation_rules(chk, cr, q, ev, helpers, resolver):
    """API function q leaves the cell range to a helper method that is itself checked as a site."""
    calls = [e for e in ev.events if e.kind == "call" and e.target is not None and e.target.as_atom() and e.target.as_atom()[0] == "attr"
             and e.target.as_atom()[1].key() == "self" and e.target.as_atom()[2] in helpers]
    if not calls:
        raise AnalysisError(f"{CR}:Crystal.{q}: no ceil/floor of (position +- radius-extent) found at an enumerated site")
    params = [p for p in ev.param_names if p != "self"]
    rparams = [p for p in params if "radius" in p or p in ("r", "cutoff")] or params
    for e in calls:
        h = e.target.as_atom()[2]
        hev = helpers[h]
        hp = [p for p in hev.param_names if p != "self"]
        args = dict(zip(hp, e.extra["args"]))
        args.update({k: v for k, v in e.extra["kwargs"]})
        hr = [p for p in hp if "radius" in p or p in ("r", "cutoff")]
        chk.need(hr, f"Crystal.{h}: no radius parameter")
        r = args.get(hr[0])
        if chk.want("R03.1"):
            chk.ob("R03.1", CR, "Crystal." + q, f"the caller's radius reaches {h}() unchanged (the extent is decided there)",
                   r is not None and r.as_atom() is not None and r.as_atom()[0] == "name" and r.as_atom()[1] in rparams, node=e.node,
                   fingerprint=f"delegate-radius:{h}", found=str(r))
        centre = [v for k, v in args.items() if k not in hr]
        if chk.want("R03.3"):
            for c in centre[:1]:
                sp = space_of(c)
                chk.ob("R03.3", CR, "Crystal." + q, f"{h}() receives fractional centres", sp != "cart", node=e.node,
                       fingerprint=f"delegate-space:{h}", expected="fractional coordinates", found=f"{c} tagged {sp}", nontrivial=sp is not None)
        if chk.want("R03.2") and q in SLAB_SITES:
            slab_calls = [x for x in ev.events if x.kind == "call" and call_name(x.value.as_atom() or ()) == ".slab"]
            chk.need(slab_calls, f"Crystal.{q}: call to slab not found")
            b = dict(slab_calls[0].extra["kwargs"]).get("bounds") or (slab_calls[0].extra["args"][0] if slab_calls[0].extra["args"] else None)
            chk.ob("R03.2", CR, "Crystal." + q, f"slab is asked for exactly the bounds {h}() returns", b is not None and b.key() == e.value.key(),
                   node=slab_calls[0].node, fingerprint="slab-bounds", found=str(b)[:120])


def extent_rules(chk, cr, q, ev, resolver, helper=False):
    found = extent_calls(ev)
    if not found:
        raise AnalysisError(f"{CR}:Crystal.{q}: no ceil/floor of (position +- radius-extent) found at an enumerated site")
    for kind, a, (E, p, ratom), e in found:
        K = E / P.atom(ratom)
        sign = None
        # K = c * X  or  c / X  with X a single atom
        verdict = None
        detail = str(K)
        if K.is_poly() and len(K.n) == 1:
            (m, c), = K.n.items()
            if len(m) == 1 and m[0][1] == 1:
                sign = 1 if c > 0 else -1
                k = length_kind(P.atom(m[0][0]), resolver)
                verdict = {"recip": "ok", "direct": "mult-direct", "wrong-axis": "wrong-axis"}.get(k)
        elif len(K.n) == 1 and () in K.n and len(K.d) == 1:
            (m, c), = K.d.items()
            cn = K.n[()]
            if len(m) == 1 and m[0][1] == 1:
                sign = 1 if (cn / c) > 0 else -1
                k = length_kind(P.atom(m[0][0]), resolver)
                verdict = {"direct": "div-direct", "recip": "div-recip", "wrong-axis": "wrong-axis"}.get(k)
        if verdict is None:
            raise AnalysisError(f"{CR}:Crystal.{q}: unclassified extent idiom {E} (extend sa/tags.py consciously)")
        if chk.want("R03.1"):
            chk.ob("R03.1", CR, "Crystal." + q, f"{kind}(): the half-extent is radius x reciprocal length",
                   verdict == "ok", node=e.node, fingerprint=f"extent:{kind}",
                   expected="k * radius * |a*_i|  (column norms of the inverse cell matrix)",
                   found={"div-direct": f"{E}: radius divided by the direct cell lengths (too small for oblique cells)",
                          "mult-direct": f"{E}: radius times direct lengths", "div-recip": f"{E}: radius divided by reciprocal lengths",
                          "wrong-axis": f"{E}: norms taken along the wrong axis of the cell matrix", "ok": str(E)}[verdict])
        if chk.want("R03.2"):
            want = 1 if kind == "ceil" else -1
            chk.ob("R03.2", CR, "Crystal." + q, f"{kind}() rounds position {'+' if want > 0 else '-'} extent",
                   sign == want, node=e.node, fingerprint=f"round:{kind}", expected=f"{kind}(p {'+' if want > 0 else '-'} e)",
                   found=str(a[2][0]))
        if chk.want("R03.3"):
            sp = space_of(p)
            chk.ob("R03.3", CR, "Crystal." + q, f"{kind}(): the centre position is fractional", sp != "cart", node=e.node,
                   fingerprint=f"space:{kind}", expected="fractional coordinates", found=f"{p} tagged {sp}", nontrivial=sp is not None)
    if chk.want("R03.2") and q in MOLECULE_CENTRED:
        # a centre that is a set of atoms: "within the radius of the nearest atom of the molecule" needs the range to be taken over
        # every atom's position, not over one representative point of the molecule
        for kind, a, (E, p, ratom), e in found:
            reps = find_atoms(p, lambda t: t[0] == "attr" and t[2] in ("center_of_mass", "centroid", "centre_of_mass"))
            atoms_ = find_atoms(p, lambda t: t[0] == "attr" and t[2] == "positions") or "positions" in p.key()
            chk.ob("R03.2", CR, "Crystal." + q, f"{kind}(): the range is taken over the positions of all atoms of the centre", bool(atoms_) and not reps,
                   node=e.node, fingerprint=f"all-atoms:{kind}", expected="every atom position of the molecule / group",
                   found=f"{p}"[:140])
    if chk.want("R03.2"):
        # ceil and floor use the same centre and the same extent
        ce = [(E, reducer_of(p)) for k, a, (E, p, r), e in found if k == "ceil"]
        fl = [(E, reducer_of(p)) for k, a, (E, p, r), e in found if k == "floor"]
        chk.ob("R03.2", CR, "Crystal." + q, "upper and lower bounds use the same centre and the same extent",
               bool(ce) and bool(fl) and {(E.key(), p[0].key()) for E, p in ce} == {((-E).key(), p[0].key()) for E, p in fl},
               fingerprint="pair", found=f"ceil {[(str(E), str(p[0])) for E, p in ce]} floor {[(str(E), str(p[0])) for E, p in fl]}")
        red = [("ceil", p) for _, p in ce if p[1]] + [("floor", p) for _, p in fl if p[1]]
        if red:
            okr = all((k == "ceil" and p[1] == "max" or k == "floor" and p[1] == "min") and p[2] == 0 for k, p in red) and \
                len(red) == len(ce) + len(fl)
            chk.ob("R03.2", CR, "Crystal." + q, "the upper bound rounds up the largest coordinate over the centre's atoms, the lower bound rounds "
                   "down the smallest (reduction over atoms, axis 0)", okr, fingerprint="reduce",
                   expected="ceil(max(axis=0) + e), floor(min(axis=0) - e)", found=str([(k, p[1], p[2]) for k, p in red]))
        # accumulation: maximum with ceil seeded -inf; minimum with floor seeded +inf
        for e in ev.events:
            if e.kind != "assign" or e.value is None:
                continue
            a = e.value.as_atom()
            if a and a[0] == "call" and call_name(a) in ("numpy.maximum", "numpy.minimum") and len(a[2]) == 2:
                mx = call_name(a) == "numpy.maximum"
                inner = [x for x in a[2] if find_atoms(x, lambda t: t[0] == "call" and call_name(t) in ("ceil", "floor"))]
                lc = [x for x in a[2] if x.as_atom() and x.as_atom()[0] == "lc"]
                if inner and not lc and e.loops and any(x.as_atom() and x.as_atom()[0] in ("obj", "call") and "inf" in x.key() for x in a[2]):
                    # the running bound is re-seeded in every iteration: only the last atom's cells survive
                    chk.ob("R03.2", CR, "Crystal." + q, f"{'upper' if mx else 'lower'} bounds are accumulated with "
                           f"{'maximum over ceil from -inf' if mx else 'minimum over floor from +inf'}", False, node=e.node,
                           fingerprint=f"accumulate:{'max' if mx else 'min'}", expected="the seed is set once, before the loop over the atoms",
                           found=f"{call_name(a)} of a bound that is re-seeded inside the loop: {str(e.value)[:100]}")
                    continue
                if not inner or not lc:
                    continue
                kinds = {call_name(t) for t in find_atoms(inner[0], lambda t: t[0] == "call" and call_name(t) in ("ceil", "floor"))}
                seed = lc[0].as_atom()[3]
                seed_ok = ("-inf" in seed.key()) if mx else ("inf" in seed.key() and "-inf" not in seed.key())
                chk.ob("R03.2", CR, "Crystal." + q, f"{'upper' if mx else 'lower'} bounds are accumulated with "
                       f"{'maximum over ceil from -inf' if mx else 'minimum over floor from +inf'}",
                       kinds == ({"ceil"} if mx else {"floor"}) and seed_ok, node=e.node,
                       fingerprint=f"accumulate:{'max' if mx else 'min'}", found=f"{call_name(a)} of {sorted(kinds)} seeded {seed}")
        # slab bounds: (lower from floor, upper from ceil), no shrinking
        if helper:
            # on every return path: a shortcut that returns fixed cells is only right for centres inside the reference cell
            ok = bool(ev.returns)
            descs = []
            for r in ev.returns:
                it = seq_items(r.value) if r.value is not None else None
                if it and len(it) == 2:
                    lo_k, hi_k = bound_kind(it[0], ev), bound_kind(it[1], ev)
                    ok = ok and lo_k == "floor" and hi_k == "ceil"
                    descs.append(f"line {r.lineno}: lower from {lo_k}, upper from {hi_k}")
                else:
                    ok = False
                    descs.append(f"line {r.lineno}: {str(r.value)[:60]}")
            chk.ob("R03.2", CR, "Crystal." + q, "the helper returns (lower = floor-derived, upper = ceil-derived) cells on every path", ok,
                   fingerprint="slab-bounds", found="; ".join(descs)[:300])
        elif q in SLAB_SITES:
            slab_calls = [e for e in ev.events if e.kind == "call" and call_name(e.value.as_atom() or ()) == ".slab"]
            chk.need(slab_calls, f"Crystal.{q}: call to slab not found")
            for e in slab_calls[:1]:
                b = dict(e.extra["kwargs"]).get("bounds") or (e.extra["args"][0] if e.extra["args"] else None)
                it = seq_items(b) if b is not None else None
                ok = False
                desc = None
                if it and len(it) == 2:
                    lo_k, hi_k = bound_kind(it[0], ev), bound_kind(it[1], ev)
                    ok = lo_k == "floor" and hi_k == "ceil"
                    desc = f"lower from {lo_k}, upper from {hi_k}"
                chk.ob("R03.2", CR, "Crystal." + q, "slab is asked for (lower = floor-derived, upper = ceil-derived) cells", ok,
                       node=e.node, fingerprint="slab-bounds", found=desc)
                if it and len(it) == 2:
                    lo_off, hi_off = bound_offsets(it[0]), bound_offsets(it[1])
                    chk.ob("R03.2", CR, "Crystal." + q, "the rounded bounds are not shrunk before they are handed to slab (lower = floor - k, upper = ceil + k, k >= 0)",
                           all(c is not None and c <= 0 for c in lo_off) and all(c is not None and c >= 0 for c in hi_off), node=e.node,
                           fingerprint="slab-bounds-margin", found=f"lower offsets {lo_off}, upper offsets {hi_off}")
    if chk.want("R03.2"):
        # cells enumerated directly with arange(lower, upper): the upper end is exclusive, so it has to be at least ceil + 1
        for e in ev.events:
            if e.kind != "call" or call_name(e.value.as_atom() or ()) != "numpy.arange" or len(e.extra.get("args", ())) != 2:
                continue
            lo, hi = e.extra["args"]
            kinds = (bound_kind(lo, ev), bound_kind(hi, ev))
            if not (kinds[0] in ("floor", "ceil") and kinds[1] in ("floor", "ceil")):
                continue
            if kinds != ("floor", "ceil"):
                chk.ob("R03.2", CR, "Crystal." + q, "arange runs from the lower (floor-derived) to the upper (ceil-derived) cell", False, node=e.node,
                       fingerprint=f"arange-order:{str(lo)[:30]}", expected="arange(lower, upper)", found=f"arange({kinds[0]}-derived, {kinds[1]}-derived)")
                continue
            lo_off, hi_off = bound_offsets(lo), bound_offsets(hi)
            chk.ob("R03.2", CR, "Crystal." + q, "arange(lower, upper) covers every cell [h, h + 1) that meets [p - e, p + e]: lower = floor - k, upper = ceil + k "
                   "with k >= 0 (cells floor(p - e) .. ceil(p + e) - 1)", all(c is not None and c <= 0 for c in lo_off) and all(c is not None and c >= 0 for c in hi_off),
                   node=e.node, fingerprint=f"arange-margin:{str(lo)[:30]}", found=f"lower offsets {lo_off}, upper offsets {hi_off}")
        # the cell range is computed around the very points the balls are centred on: a centre listed outside the cell (x = -0.2, 3.4)
        # wrapped for the range but not for the query looks for neighbours where no cells were laid out
        def strip_idx(t):
            a = t.as_atom()
            while a:
                if a[0] == "sub" and len(a[2]) == 1 and a[2][0].as_atom() and a[2][0].as_atom()[0] == "lv":
                    t = a[1]
                elif a[0] == "call" and call_name(a) in ("numpy.asarray", "numpy.array", "numpy.atleast_2d", "numpy.max", "numpy.min", "numpy.amax",
                                                         "numpy.amin") and a[2]:
                    t = a[2][0]          # a copy / the extreme coordinates over the same set of points
                else:
                    break
                a = t.as_atom()
            return t

        def point_id(t, frac):
            """('frac' | 'cart', array) the point comes from, read through to_fractional / to_cartesian and loop indexing"""
            t = strip_idx(t)
            a = t.as_atom()
            if a and a[0] == "call" and call_name(a) in (".to_fractional", ".to_cartesian") and a[2]:
                return ("cart" if call_name(a) == ".to_fractional" else "frac"), strip_idx(a[2][0])
            if a and a[0] == "call" and call_name(a) in (".max", ".min") and not a[2]:
                return point_id(a[1].as_atom()[1], frac)
            return ("frac" if frac else "cart"), t
        balls = [e.extra["args"][0] for e in ev.events if e.kind == "call" and call_name(e.value.as_atom() or ()) == ".query_ball_point"
                 and e.extra.get("args") and "KDTree" in e.target.key()]
        centres = {point_id(pp, True) for kind, a, (E, pp, ratom), e in found if kind == "ceil"}
        if balls and centres:
            ok_same = True
            desc = []
            for b in balls:
                bid = point_id(b, False)
                hit = False
                for cid in centres:
                    if cid[0] != bid[0]:
                        continue
                    # the same array, or a selection of its rows (a functional group of the molecule the range was taken over)
                    if cid[1].key() == bid[1].key() or (bid[1].as_atom() and bid[1].as_atom()[0] == "sub" and bid[1].as_atom()[1].key() == cid[1].key()):
                        hit = True
                if not hit:
                    ok_same = False
                    desc.append(f"balls around {bid[0]}:{str(bid[1])[:60]}, cells around {[c[0] + ':' + str(c[1])[:60] for c in centres]}")
            chk.ob("R03.2", CR, "Crystal." + q, "the cell range is taken around the same points the balls are centred on (no wrapping / shifting of the "
                   "centres for one and not the other)", ok_same, fingerprint="same-centres", found=desc[:2] or None)
    if chk.want("R03.3"):
        # KD-tree built on Cartesian positions and queried with Cartesian points
        for e in ev.events:
            if e.kind != "call":
                continue
            cn = call_name(e.value.as_atom() or ())
            if cn in ("scipy.spatial.cKDTree", "scipy.spatial.KDTree") and e.extra["args"]:
                sp = space_of(e.extra["args"][0])
                chk.ob("R03.3", CR, "Crystal." + q, "the KD-tree is built on Cartesian positions", sp != "frac", node=e.node,
                       fingerprint="tree-build", found=f"{str(e.extra['args'][0])[-60:]} tagged {sp}", nontrivial=sp is not None)
            if cn in (".query_ball_point", ".query") and e.extra["args"] and "KDTree" in e.target.key():
                sp = space_of(e.extra["args"][0])
                chk.ob("R03.3", CR, "Crystal." + q, "the KD-tree is queried with Cartesian points", sp != "frac", node=e.node,
                       fingerprint=f"tree-query:{cn}", found=f"{str(e.extra['args'][0])[-60:]} tagged {sp}", nontrivial=sp is not None)
                if cn == ".query_ball_point" and len(e.extra["args"]) > 1:
                    r = e.extra["args"][1]
                    chk.ob("R03.3", CR, "Crystal." + q, "the ball query uses the caller's radius unchanged",
                           r.as_atom() is not None and r.as_atom()[0] == "name", node=e.node, fingerprint="ball-radius", found=str(r))


def bound_offsets(term: P):
    """constants added to the rounded bound(s) in a term: for each additive part  <atom built on ceil / floor / a loop accumulator> + c
    the number c (a list, one per tuple item; None where the term is not of that shape)."""
    items = seq_items(term)
    out = []
    for t in (items if items is not None else [term]):
        c = None
        if t.is_poly():
            cores = [at for mono in t.n for at, _ in mono if "ceil(" in P.atom(at).key() or "floor(" in P.atom(at).key() or P.atom(at).key().startswith("(after ")
                     or "(after " in P.atom(at).key()]
            if len(cores) == 1 and (t - P.atom(cores[0])).const_value() is not None:
                c = (t - P.atom(cores[0])).const_value()
                core = cores[0]
                # (X + c)[k] / (X + c).astype(int): the constant sits inside the indexed / converted term
                while core is not None:
                    inner = None
                    if core[0] == "sub" and len(core[2]) == 1 and core[2][0].const_value() is not None:
                        inner = core[1]
                    elif core[0] == "call" and call_name(core) == ".astype" and core[1].as_atom():
                        inner = core[1].as_atom()[1]
                    if inner is None or inner.as_atom() is not None and inner.as_atom()[0] not in ("sub", "call"):
                        break
                    if inner.as_atom() is None:
                        more = bound_offsets(inner)
                        if len(more) == 1 and more[0] is not None:
                            c += more[0]
                        else:
                            c = None
                        break
                    core = inner.as_atom()
        out.append(c)
    return out


def bound_kind(term: P, ev):
    """'ceil' / 'floor' provenance of a tuple of hkl bounds (through .astype(int)[k], +-k, after-loop accumulators)."""
    kinds = set()
    for a in find_atoms(term, lambda a: a[0] == "call" and call_name(a) in ("ceil", "floor")):
        kinds.add(call_name(a))
    for a in find_atoms(term, lambda a: a[0] == "after"):
        name, k = a[1], a[2]
        for e in ev.events:
            if e.kind == "assign" and e.name == name and e.loops and e.loops[-1].k == k:
                for t in find_atoms(e.value, lambda t: t[0] == "call" and call_name(t) in ("ceil", "floor")):
                    kinds.add(call_name(t))
    return kinds.pop() if len(kinds) == 1 else (None if not kinds else "mixed")


def slab_rules(chk, cr):
    q = "Crystal.slab"
    ev = cr.ev(q)
    chk.saw(CR, q)
    if chk.want("R03.2"):
        ar = {}
        for e in ev.events:
            if e.kind == "assign" and e.name in ("h", "k", "l") and not e.loops:
                a = e.value.as_atom()
                if a and call_name(a) == "numpy.arange" and len(a[2]) == 2:
                    ar[e.name] = (a[2][0], a[2][1])
        b = P.name(ev.param_names[1])
        if len(ar) != 3:
            # whatever the three ranges are called (a helper's locals are renamed when it is inlined): three aranges, axis by axis
            allr = []
            for e in ev.events:
                a = e.value.as_atom() if e.kind == "assign" and e.value is not None and not e.loops else None
                if a and call_name(a) == "numpy.arange" and len(a[2]) == 2 and "[0]" in a[2][0].key():
                    allr.append((a[2][0], a[2][1]))
            if len(allr) == 3:
                ar = dict(zip(("h", "k", "l"), allr))
        ok = len(ar) == 3
        for ax, name in enumerate(("h", "k", "l")):
            if name in ar:
                lo, hi = ar[name]
                want_lo = P.atom(("sub", P.atom(("sub", b, (P.const(0),))), (P.const(ax),)))
                want_hi = P.atom(("sub", P.atom(("sub", b, (P.const(1),))), (P.const(ax),))) + 1
                ok = ok and lo == want_lo and hi == want_hi
        chk.ob("R03.2", CR, q, "slab enumerates cells min .. max inclusive on every axis (arange(min, max + 1))", ok,
               found={k: (str(v[0]), str(v[1])) for k, v in ar.items()})
        cp = [e for e in ev.events if e.kind == "call" and call_name(e.value.as_atom() or ()) == "chmpy.util.num.cartesian_product"]
        chk.ob("R03.2", CR, q, "cells are the Cartesian product of the three axis ranges (each cell once)",
               len(cp) == 1 and len(cp[0].extra["args"]) == 3)
    if chk.want("R03.4"):
        stores = [e for e in ev.events if e.kind == "store" and e.loops]
        bcast = None
        if len(stores) < 2:
            bcast = slab_broadcast(chk, cr, q)
        chk.need(len(stores) >= 2 or bcast, f"{q}: block stores not found")
    if chk.want("R03.4") and bcast:
        nuc = None
    elif chk.want("R03.4"):
        slices = {}
        for e in stores:
            t = e.target.as_atom()
            s = t[2][0].as_atom()
            root = t[1].as_atom()
            if s and s[0] == "slice":
                slices[root[1] if root and root[0] == "obj" else t[1].key()] = (s[1], s[2], e)
        i = stores[0].loops[-1].index
        n = None
        vals = {}
        for name, (lo, hi, e) in slices.items():
            vals[name] = e.value
        ok = len(slices) == 2 and len({(str(lo), str(hi)) for lo, hi, _ in slices.values()}) == 1
        lo, hi, _ = list(slices.values())[0]
        nuc = (hi - lo)
        okform = lo == i * nuc and "len(" in nuc.key()
        chk.ob("R03.4", CR, q, "position block and cell block of cell i use the same slice [i*n : (i+1)*n]", ok and okform,
               found={k: (str(v[0]), str(v[1])) for k, v in slices.items()})
        cell = P.atom(("sub", stores[0].loops[-1].iter, (i,))) if stores[0].loops[-1].kind == "enumerate" else None
        pos_ok = cell_ok = False
        for name, v in vals.items():
            if "frac_pos" in v.key() and cell is not None and v == P.atom(("sub", find_uc_atoms(ev), (P.atom(("str", "frac_pos")),))) + cell:
                pos_ok = True
            if cell is not None and v.key() == cell.key():
                cell_ok = True
        chk.ob("R03.4", CR, q, "block i holds the unit-cell positions shifted by cell i, and that same cell", pos_ok and cell_ok,
               found={k: str(v)[-80:] for k, v in vals.items()})
    if chk.want("R03.4"):
        # other columns tiled ncells times
        comp = [e for e in ev.events if e.kind == "assign" and e.name == "slab_dict"]
        okt = False
        if comp:
            c = obj_init(comp[0].value).as_atom()
            if c and c[0] == "comp":
                val = c[3].as_atom()
                okt = bool(val and call_name(val) == "numpy.tile" and val[2][1].key().startswith("len("))
        chk.ob("R03.4", CR, q, "every other per-atom column is tiled once per cell (cell-major, like the blocks)", okt)
        final = {}
        for e in ev.events:
            if e.kind == "store" and not e.loops:
                t = e.target.as_atom()
                k = string_value(t[2][0]) if t and t[0] == "sub" else None
                if k:
                    final[k] = e.value
        chk.ob("R03.4", CR, q, "cart_pos is to_cartesian of the very array stored as frac_pos",
               "frac_pos" in final and "cart_pos" in final and final["cart_pos"].key() == f"self.to_cartesian({final['frac_pos']})",
               found={k: str(v) for k, v in final.items() if k.endswith("pos")})
        chk.ob("R03.4", CR, q, "n_uc and n_cells report the block size and the number of blocks",
               final.get("n_uc") is not None and (final["n_uc"].key() == nuc.key() if nuc is not None else
                                                  (final["n_uc"].key().startswith("len(") and "['frac_pos']" in final["n_uc"].key()))
               and "len(" in final.get("n_cells", P.const(0)).key(),
               found={k: str(v) for k, v in final.items() if k.startswith("n_")})
        # atoms_in_radius: uc_atom = tile(arange(n_uc), n_cells)[idxs]
        av = cr.ev("Crystal.atoms_in_radius")
        ok = False
        for e in av.events:
            if e.kind == "store" and "uc_atom" in e.target.key():
                a = e.value.as_atom()
                if a and a[0] == "sub":
                    t = a[1].as_atom()
                    ok = bool(t and call_name(t) == "numpy.tile" and "['n_uc']" in t[2][0].key() and "numpy.arange" in t[2][0].key()
                              and "['n_cells']" in t[2][1].key())
                elif a and a[0] == "bin" and a[1] == "Mod" and "['n_uc']" in a[3].key():
                    # cell-major blocks of n_uc rows: the unit-cell atom of slab row i is i mod n_uc; the rows are the ball-query indices
                    ok = "query_ball_point(" in a[2].key()
        chk.ob("R03.4", CR, "Crystal.atoms_in_radius", "uc_atom = tile(arange(n_uc), n_cells) indexed like the other columns", ok)


def slab_broadcast(chk, cr, q):
    """Vectorised slab: both columns are filled cell-major by broadcasting, either through (ncells, n_uc, 3) views of the flat buffers
    or by reshaping the broadcast sum; np.repeat(cells, n_uc, axis=0) is the cell column.  Returns True when this layout was recognised
    (its obligations are emitted), False when the function has neither layout."""
    ev = cr.ev(q, opaque={"cells", "uc_pos", "ncells", "n_uc", "pos", "slab_cells"})
    NA = ("numpy.newaxis", "None")
    SL = "(slice None None None)"

    def is_b(term, base, axis):
        a = term.as_atom()
        if not (a and a[0] == "sub" and a[1].key() == base and len(a[2]) == 3):
            return False
        ks = [i.key() for i in a[2]]
        return ks[axis] in NA and all(k == SL for j, k in enumerate(ks) if j != axis)

    def is_sum(term):
        """uc_pos[None, :, :] + cells[:, None, :]   (site index on axis 1, cell index on axis 0 = cell-major)"""
        if not term.is_poly() or len(term.n) != 2:
            return None
        parts = [P.atom(m[0][0]) for m, c in term.n.items() if len(m) == 1 and m[0][1] == 1 and c == 1]
        if len(parts) != 2:
            return None
        if (is_b(parts[0], "$uc_pos", 0) and is_b(parts[1], "$cells", 1)) or (is_b(parts[1], "$uc_pos", 0) and is_b(parts[0], "$cells", 1)):
            return "cell-major"
        if (is_b(parts[0], "$uc_pos", 1) and is_b(parts[1], "$cells", 0)) or (is_b(parts[1], "$uc_pos", 1) and is_b(parts[0], "$cells", 0)):
            return "site-major"
        return None

    def strip(term):
        a = term.as_atom()
        while a and a[0] == "call" and call_name(a) in (".astype", "numpy.ascontiguousarray", "numpy.asarray") and isinstance(a[1], P) and a[1].as_atom() \
                and a[1].as_atom()[0] == "attr":
            term = a[1].as_atom()[1]
            a = term.as_atom()
        return term

    def view_of(term, buf):
        a = term.as_atom()
        if a and a[0] == "obj":
            a = a[3].as_atom()
        if a and a[0] == "call" and call_name(a) == ".reshape" and a[1].as_atom()[1].key() == buf:
            dims = [x.key() for x in (seq_items(a[2][0]) if len(a[2]) == 1 and seq_items(a[2][0]) else a[2])]
            return dims == ["$ncells", "$n_uc", "3"]
        return False
    pos_kind = cell_kind = None
    # form A: views of the flat buffers filled in one go
    for e in ev.events:
        if e.kind == "call" and call_name(e.value.as_atom() or ()) == "numpy.add":
            kw = dict(e.value.as_atom()[3]) if len(e.value.as_atom()) > 3 and e.value.as_atom()[3] else {}
            if "out" in kw and view_of(kw["out"], "$pos") and len(e.extra["args"]) == 2:
                pos_kind = is_sum(e.extra["args"][0] + e.extra["args"][1])
        if e.kind == "store" and e.target.as_atom() and e.target.as_atom()[0] == "sub" and [i.key() for i in e.target.as_atom()[2]] in (["'...'"], ["Ellipsis"], ["(const Ellipsis)"]):
            base = e.target.as_atom()[1]
            if view_of(base, "$pos"):
                pos_kind = is_sum(e.value)
            elif view_of(base, "$slab_cells"):
                cell_kind = "cell-major" if is_b(e.value, "$cells", 1) else "site-major" if is_b(e.value, "$cells", 0) else None
    # form B: the flat arrays are the reshaped broadcast sum / np.repeat of the cells
    defs = {k[1]: v for k, v in ev.defs.items() if k[0] == "local" and k[1] in ("pos", "slab_cells")}
    if pos_kind is None and "pos" in defs:
        t = strip(defs["pos"])
        a = t.as_atom()
        if a and a[0] == "call" and call_name(a) == ".reshape":
            dims = [x.key() for x in (seq_items(a[2][0]) if len(a[2]) == 1 and seq_items(a[2][0]) else a[2])]
            if dims in (["$n_uc*$ncells", "3"], ["$ncells*$n_uc", "3"], ["-1", "3"]):
                pos_kind = is_sum(a[1].as_atom()[1])
    if cell_kind is None and "slab_cells" in defs:
        t = strip(defs["slab_cells"])
        a = t.as_atom()
        if a and a[0] == "call" and call_name(a) == "numpy.repeat" and len(a[2]) >= 2 and a[2][0].key() == "$cells" and a[2][1].key() == "$n_uc":
            kw = dict(a[3]) if len(a) > 3 and a[3] else {}
            cell_kind = "cell-major" if kw.get("axis") is not None and kw["axis"].key() == "0" else None
        elif a and a[0] == "call" and call_name(a) == "numpy.tile" and a[2] and a[2][0].key() == "$cells":
            cell_kind = "site-major"
    if pos_kind is None and cell_kind is None:
        return False
    chk.ob("R03.4", CR, q, "position block and cell block of cell i use the same slice [i*n : (i+1)*n]", pos_kind == "cell-major" and cell_kind == "cell-major",
           found=f"positions {pos_kind}, cells {cell_kind} (broadcast over (ncells, n_uc, 3))")
    chk.ob("R03.4", CR, q, "block i holds the unit-cell positions shifted by cell i, and that same cell", pos_kind == "cell-major" and cell_kind == "cell-major",
           found=f"positions {pos_kind}, cells {cell_kind}")
    ucp = [v for k, v in ev.defs.items() if k[0] == "local" and k[1] == "uc_pos"]
    chk.ob("R03.4", CR, q, "the broadcast adds the unit-cell fractional positions (not another column) to the cell offsets",
           bool(ucp) and ucp[0].key().endswith("['frac_pos']"), fingerprint="broadcast-source", found=str(ucp[0])[:80] if ucp else None)
    return True


def find_uc_atoms(ev):
    for e in ev.events:
        if e.kind == "assign" and e.name == "uc_atoms":
            return e.value
    return P.name("uc_atoms")


def shell_inclusion(chk, cr, evs):
    """molecular_shell: a translated molecule is a neighbour exactly when its distance to the central molecule is below the radius AND above
    the small threshold that takes the central molecule itself out (both conditions, on the molecule that is appended)."""
    q = "molecular_shell"
    ev = evs.get(q)
    if ev is None:
        return
    radius = ev.param_names[2] if len(ev.param_names) > 2 else "radius"
    app = [e for e in ev.events if e.kind == "call" and e.target is not None and e.target.key().endswith(".append") and e.loops and e.extra.get("args")]
    chk.need(app, f"Crystal.{q}: neighbour append not found")
    for e in app:
        mol = e.extra["args"][0].key()
        below = above = False
        for c, pol in e.guards:
            ca = c.as_atom()
            if not (ca and ca[0] in ("lt", "le") and pol):
                continue
            l, r = ca[1], ca[2]
            if r.key() == radius and ".distance_to(" in l.key() and mol in l.key():
                below = True
            if l.const_value() is not None and 0 < l.const_value() <= 0.1 and ".distance_to(" in r.key() and mol in r.key():
                above = True
        chk.ob("R03.5", CR, "Crystal." + q, "a translated molecule is kept exactly when its distance to the central molecule is below the radius and above "
               "the self-exclusion threshold (both conditions hold on the way to the append)", below and above, node=e.node, fingerprint="shell-inclusion",
               expected="dist < radius and dist > 1e-2", found=[f"{'' if p else 'not '}{str(c)[:40]}...{str(c)[-30:]}" for c, p in e.guards][-2:])


def exclusion_rules(chk, cr, evs):
    shell_inclusion(chk, cr, evs)
    # atomic_surroundings: keep = where(d > eps) and every neighbour array is indexed by keep
    q = "atomic_surroundings"
    ev = evs[q]
    keep = None
    for e in ev.events:
        if e.kind == "assign" and e.name == "keep":
            keep = e.value
    chk.need(keep is not None, f"Crystal.{q}: keep index not found")
    cmp_ = find_atoms(keep, lambda a: a[0] in ("lt", "le"))
    ok = False
    if cmp_:
        c = cmp_[0]
        thr = c[1].const_value()
        ok = thr is not None and 0 < thr <= 0.1 and "numpy.linalg.norm" in c[2].key()
    chk.ob("R03.5", CR, "Crystal." + q, "neighbours are those farther than a small threshold from the centre (the centre itself is dropped)",
           ok, found=str(keep)[-120:])
    app = [e for e in ev.events if e.kind == "call" and e.target is not None and e.target.key().endswith(".append") and e.loops]
    chk.need(app, f"Crystal.{q}: result append not found")
    d = dict_items(app[-1].extra["args"][0])
    nb = dict(((k, v) for k, _, v in d)).get("neighbours") if d else None
    items = dict_items(nb) if nb is not None else None
    n_ok = 0
    if items:
        for k, _, v in items:
            a = v.as_atom()
            good = bool(a and a[0] == "sub" and len(a[2]) == 1 and a[2][0].key() == keep.key())
            n_ok += good
            chk.ob("R03.5", CR, "Crystal." + q, f"neighbour array '{k}' is filtered by the same keep index", good,
                   fingerprint=f"keep:{k}", found=str(v)[-100:])
    chk.need(items and len(items) >= 4, f"Crystal.{q}: neighbours dictionary not recognised")
    # element/position/asym arrays are taken with the same ball-query index
    src = {}
    for e in ev.events:
        if e.kind == "assign" and e.name in ("positions", "elements", "asym") and e.loops:
            a = e.value.as_atom()
            if a and a[0] == "sub":
                src[e.name] = a[2][0].key()
    ok_one = len(src) == 3 and len(set(src.values())) == 1 and "query_ball_point" in list(src.values())[0]
    if not ok_one and items:
        # without locals of their own: the reported columns themselves are COLUMN[ball index][keep] with one ball index for all of them
        balls_ = {}
        for k, _, v in items:
            if k == "distance":
                continue
            a = v.as_atom()
            inner = a[1].as_atom() if a and a[0] == "sub" and len(a[2]) == 1 else None
            if inner and inner[0] == "sub" and len(inner[2]) == 1 and "query_ball_point" in inner[2][0].key():
                balls_[k] = inner[2][0].key()
        named = [k for k, _, v in items if k != "distance"]
        ok_one = len(named) >= 3 and set(balls_) == set(named) and len(set(balls_.values())) == 1
    chk.ob("R03.5", CR, "Crystal." + q, "positions, elements and parent indices are gathered with one ball-query index", ok_one, found=list(src))
    # the distance that decides what is kept, and that is reported, is |position - centre| of those very positions and of the point the
    # ball was queried around (row-wise norm): a sum instead of the difference, or another axis, reports wrong distances and keeps the centre
    balls = [e for e in ev.events if e.kind == "call" and call_name(e.value.as_atom() or ()) == ".query_ball_point" and e.loops and e.extra.get("args")]
    posv = [e.value for e in ev.events if e.kind == "assign" and e.name == "positions" and e.loops]
    okd = False
    dterm = cmp_[0][2] if cmp_ else None
    if balls and posv and dterm is not None:
        na = dterm.as_atom()
        kw = dict(na[3]) if na and len(na) > 3 and na[3] else {}
        okd = bool(na and call_name(na) == "numpy.linalg.norm" and len(na[2]) == 1 and kw.get("axis") is not None and kw["axis"] == P.const(1)
                   and na[2][0] == posv[-1] - balls[-1].extra["args"][0])
    chk.ob("R03.5", CR, "Crystal." + q, "the distance compared with the threshold is the row-wise norm of (gathered positions - the centre the ball was "
           "queried around)", okd, fingerprint="distance-formula", expected="numpy.linalg.norm(positions - centre, axis=1)", found=str(dterm)[:160])
    dist_item = dict((k, v) for k, _, v in items).get("distance") if items else None
    chk.ob("R03.5", CR, "Crystal." + q, "the reported distances are those same distances", dist_item is not None and dterm is not None
           and dist_item.as_atom() and dist_item.as_atom()[0] == "sub" and dist_item.as_atom()[1].key() == dterm.key(), fingerprint="distance-reported",
           found=str(dist_item)[:120])
    # molecule-type environments: keep[idxs] = True ; nearest within threshold -> keep[this] = False ; returned arrays [keep]
    for q in ("atom_group_surroundings", "molecule_environment", "functional_group_surroundings"):
        ev = evs[q]
        set_true = set_false = False
        thr_ok = False
        true_ev = false_ev = None
        for idx_e, e in enumerate(ev.events):
            if e.kind == "store" and e.target.as_atom() and e.target.as_atom()[0] == "sub" and e.target.as_atom()[1].as_atom() \
                    and e.target.as_atom()[1].as_atom()[0] == "obj" and e.target.as_atom()[1].as_atom()[1] == "keep":
                if e.value.key() == "True" and "query_ball_point" in e.target.key():
                    set_true = True
                    true_ev = (idx_e, e)
                if e.value.key() == "False":
                    set_false = True
                    false_ev = (idx_e, e)
            # the centre's own sites: nearest site of each centre atom, when closer than the threshold
            if e.kind == "call" and e.target is not None and e.target.key().endswith(".append") and ".query(" in str(e.extra.get("args", [""])[0]):
                for c, pol in e.guards:
                    ca = c.as_atom()
                    if pol and ca and ca[0] == "lt" and ".query(" in ca[1].key():
                        thr_ok = True
        if not thr_ok and false_ev is not None:
            # the batched spelling: d, nn = tree.query(all positions); keep[nn[d < threshold]] = False
            ix = false_ev[1].target.as_atom()[2][0].as_atom()
            if ix and ix[0] == "sub" and len(ix[2]) == 1:
                sel, m_ = ix[1].as_atom(), ix[2][0].as_atom()
                if sel and sel[0] == "sub" and sel[2] and sel[2][0] == P.const(1) and ".query(" in sel[1].key() and m_ and m_[0] == "lt" \
                        and m_[1].key() == P.atom(("sub", sel[1], (P.const(0),))).key():
                    thr_ok = True
        chk.ob("R03.5", CR, "Crystal." + q, "atoms inside the ball are marked, and the sites coinciding with the centre's own atoms (nearest site within "
               "the threshold) are unmarked", set_true and set_false and thr_ok, fingerprint="mark")
        # the exclusion must be final: applied after every ball has been marked (outside the loop over the centre's atoms), or
        # unconditionally at the end of every pass -- a guarded exclusion inside the loop is undone by a later ball
        final = False
        if true_ev and false_ev:
            te, fe = true_ev[1], false_ev[1]
            inner = te.loops[-1].k if te.loops else None
            outside = inner is not None and all(l.k != inner for l in fe.loops)
            own_guards = [c for c, pol in fe.guards if c.key() not in {g.key() for g, _ in te.guards}]
            final = (outside and false_ev[0] > true_ev[0]) or (not outside and not own_guards and false_ev[0] > true_ev[0])
        chk.ob("R03.5", CR, "Crystal." + q, "the exclusion of the centre's own atoms is final: it is applied after all balls are marked (a later ball cannot "
               "switch an own atom back on, whatever the order of the centre's atoms)", final, node=false_ev[1].node if false_ev else None,
               fingerprint="exclusion-final", expected="keep[own] = False after the loop over the centre's atoms",
               found=("inside the loop under " + str([str(c)[:50] for c, p in false_ev[1].guards][-1:])) if false_ev and not final else None)
        # order: the False store comes after the True store inside the same loop body so own atoms stay excluded
        rets = ev.returns if q != "functional_group_surroundings" else [e for e in ev.events if e.kind == "call" and e.target is not None and e.target.key().endswith(".append") and "keep" in e.value.key()]
        okk = bool(rets)
        badret = None
        for e in rets:          # every exit (a shortcut for special centres included) hands out the masked arrays
            v = e.value if e.kind == "return" else e.extra["args"][0]
            subs = [a for a in find_atoms(v, lambda a: a[0] == "sub" and len(a[2]) == 1 and a[2][0].as_atom()
                                          and a[2][0].as_atom()[0] == "obj" and a[2][0].as_atom()[1] == "keep")]
            roots = {a[1].key()[-22:] for a in subs}
            if not (len(subs) >= 2 and any("['element']" in r for r in roots) and any("['cart_pos']" in r for r in roots)):
                okk = False
                badret = badret or e
        chk.ob("R03.5", CR, "Crystal." + q, "reported elements and positions are both filtered by the keep mask on every exit", okk,
               fingerprint="filter", node=badret.node if badret is not None else None,
               found=str(badret.value)[:160] if badret is not None and badret.kind == "return" else None)
