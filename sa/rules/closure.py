"""Thorough tier: dependency closure (rule id R<nn>.20).

A property's code path runs through code that other properties own (neighbourhood queries sit on the orbit generator of
C01 and the cell geometry of C12, descriptors on the transform of C07, ...).  The quick tier inherits the few clauses that
seeded changes showed to matter; the thorough tier re-evaluates *every* rule of the properties listed here on the same
tree and re-emits their obligations under R<nn>.20, so that a change which breaks a dependency is reported by every
property resting on it.  Obligations that are open known findings of the owning property are left to that property's own
check (they are not new information here).
"""
import importlib

from ..report import Check, load_known

DEPENDS = {
    "C01": ["C11", "C12"], "C02": ["C11"], "C03": ["C01", "C12"], "C04": ["C01", "C11", "C12"], "C05": [], "C06": ["C05"],
    "C07": [], "C08": ["C07"], "C09": ["C03", "C05", "C07", "C08"], "C10": ["C01", "C02", "C11", "C12", "C15"],
    "C11": [], "C12": [], "C13": ["C01", "C02", "C04", "C12"], "C14": ["C01", "C04"], "C15": [], "C16": ["C17"],
    "C17": [], "C18": [], "C19": [], "C20": [],
}


def run(chk):
    deps = DEPENDS.get(chk.pid, [])
    rid = f"R{chk.pid[1:]}.20"
    if not deps:
        return
    chk.rule(rid, "dependency closure (thorough tier): every rule of the properties whose code this property's path runs through holds on this tree ("
                  + ", ".join(deps) + ")", 10)
    if not chk.want(rid):
        return
    known = {(k["property"], k["rule"], k["module"], k["function"], k["fingerprint"]) for k in load_known() if k.get("status") == "open"}
    for dep in deps:
        mod = importlib.import_module(f"sa.rules.{dep.lower()}")
        sub = Check(dep, "quick", chk.repo.root, None)
        sub.repo = chk.repo
        mod.run(sub)
        from . import cachescope
        cachescope.run(sub)
        for o in sub.obs:
            if not o.ok and (dep, o.rule, o.module, o.function, o.fingerprint) in known:
                continue
            chk.ob(rid, o.module, o.function, f"[{dep} {o.rule}] {o.what}", o.ok, line=o.line, fingerprint=f"{dep}:{o.rule}:{o.fingerprint}",
                   expected=o.expected, found=o.found, nontrivial=o.nontrivial)
        for f in sub.analysed["functions"]:
            if f not in chk.analysed["functions"]:
                chk.analysed["functions"].append(f)
