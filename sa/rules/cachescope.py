"""Per-property scope of the generic cache rule (sa/memo.py: cache_scope), rule id R<nn>.9.

Every property quantifies over histories ("for any crystal / molecule / seed"), so a cache that outlives a change of
what its value was computed from breaks it while every single-call test still passes.  The rule inventories module-level
caches, decorator caches and instance memos on the modules and classes the property's code path runs through.
"""
from ..memo import cache_scope

MOL_ALLOW = {
    "_partial_charges": "EEM charges are a function of elements and interatomic distances, which the in-place rigid motions preserve",
    "_bond_graph": "connectivity is a function of elements and interatomic distances, which the in-place rigid motions preserve",
}
MOL = ("core/molecule.py", "Molecule", MOL_ALLOW)
SG = ("crystal/space_group.py", "SpaceGroup")
SO = ("crystal/symmetry_operation.py", "SymmetryOperation")
UC = ("crystal/unit_cell.py", "UnitCell")
AU = ("crystal/asymmetric_unit.py", "AsymmetricUnit")
CRM = "crystal/crystal.py"

SCOPES = {
    "C01": ([CRM, SG[0], AU[0]], [SG, AU]),
    "C02": ([SG[0], SO[0]], [SG, SO]),
    "C03": ([CRM, UC[0]], [UC]),
    "C04": ([CRM, "core/molecule.py"], [MOL]),
    "C05": (["interpolate/density.py"], [("interpolate/density.py", "PromoleculeDensity"), ("interpolate/density.py", "StockholderWeight")]),
    "C06": (["surface.py", "mc/_mc.py", "core/molecule.py", "interpolate/density.py"], [MOL]),
    "C07": (["shape/sht.py", "shape/assoc_legendre.py"], [("shape/sht.py", "SHT")]),
    "C08": (["shape/shape_descriptors.py", "shape/sht.py"], [("shape/sht.py", "SHT")]),
    "C09": (["shape/shape_descriptors.py", "core/molecule.py", "ext/charges.py"], [MOL]),
    "C10": (["fmt/cif.py", "fmt/shelx.py", "fmt/vasp.py", UC[0], SG[0]], [UC, SG, AU]),
    "C11": ([SO[0]], [SO]),
    "C12": ([UC[0]], [UC]),
    "C13": ([CRM, UC[0]], [UC]),
    "C14": ([CRM, AU[0], UC[0]], [AU, UC]),
    "C15": (["fmt/cif.py"], [("fmt/cif.py", "Cif")]),
    "C16": (["fmt/sdf.py", "fmt/xyz_file.py", "core/molecule.py"], [MOL]),
    "C17": (["core/element.py"], [("core/element.py", "Element")]),
    "C18": (["core/dimer.py", "core/molecule.py", "util/num.py"], [("core/dimer.py", "Dimer")]),
    "C19": (["crystal/wulff.py"], [("crystal/wulff.py", "WulffConstruction")]),
    "C20": (["sampling/__init__.py", "sampling/_sobol.pyx", "sampling/_lds.pyx"], []),
}


# properties whose code path runs through memoising methods of class Crystal without having a rule of their own for it
# (C01, C03, C04, C10, C13 inherit C14's R14.2 under their own rule ids; C14 owns it)
CRYSTAL_ON_PATH = {"C06": "Crystal.hirshfeld_surfaces / promolecule_density_isosurfaces", "C09": "crystal environments of the descriptor entry points",
                   "C11": "Crystal.cartesian_symmetry_operations", "C05": "Crystal stockholder weight isosurfaces"}


def declare(chk):
    mods, classes = SCOPES[chk.pid]
    rid = f"R{chk.pid[1:]}.9"
    chk.rule(rid, "no stale or under-keyed cache on the property's code path: module-level and decorator caches are keyed by everything "
                  "their value depends on; every instance memo is dropped by every method that changes what it reads", len(mods) + len(classes) + 1)
    return rid


def ctor_aliasing(chk):
    """R<nn>.12: constructing an object does not modify the caller's arrays."""
    from ..effects import stored_param_aliases, inplace_attr_writes, ctor_closure
    rid = f"R{chk.pid[1:]}.12"
    _, classes = SCOPES[chk.pid]
    if not classes:
        return
    chk.rule(rid, "construction leaves the caller's data alone: no constructor (or helper it calls) operates in place on an attribute that is "
                  "a view of a constructor argument (np.asarray / the argument itself do not copy)", len(classes))
    if not chk.want(rid):
        return
    for c in classes:
        rel, cls = c[0], c[1]
        mod = chk.repo.module(rel)
        al = stored_param_aliases(mod, cls)
        during = ctor_closure(mod, cls)
        hits = [(m, a, how, node) for m, a, how, node in inplace_attr_writes(mod, cls, set(al)) if m in during]
        chk.ob(rid, rel, f"{cls}.__init__", f"no attribute bound to a view of a constructor argument ({sorted(al) or 'none'}) is modified in place during construction",
               not hits, node=hits[0][3] if hits else None, fingerprint=f"ctor-aliasing:{cls}",
               expected="an own copy (np.array(x) / x.copy()) before any in-place operation",
               found=[f"{cls}.{m}: {how}; self.{a} is a view of the argument '{al[a][0]}'" for m, a, how, _ in hits][:3])


def owned_buffers(chk):
    """R<nn>.13: a buffer that methods fill in place is only ever bound to a fresh allocation."""
    from ..effects import inplace_buffer_rebinding
    rid = f"R{chk.pid[1:]}.13"
    _, classes = SCOPES[chk.pid]
    if not classes:
        return
    chk.rule(rid, "buffers filled in place are owned: an attribute that a method passes as out= / result= is only ever bound to a fresh allocation "
                  "(bound to a view of other data - a cached table, an argument - the next in-place fill overwrites that data)", len(classes))
    if not chk.want(rid):
        return
    for c in classes:
        rel, cls = c[0], c[1]
        mod = chk.repo.module(rel)
        buffers, off = inplace_buffer_rebinding(mod, cls)
        chk.ob(rid, rel, cls, f"in-place buffers {sorted(buffers) or 'none'} are bound to fresh allocations only", not off,
               node=off[0][2] if off else None, fingerprint=f"owned-buffers:{cls}", expected="self.<buffer> = np.empty(...) once",
               found=[f"{cls}.{m}: self.{a} = {v} (filled in place by {buffers[a]})" for m, a, _, v in off][:3])
        from ..effects import stale_buffer_flags
        stale = stale_buffer_flags(mod, cls)
        chk.ob(rid, rel, cls, "a work buffer that is refilled only when a remembered key changes is not overwritten behind that key's back "
               "(every other method that fills the buffer resets the key)", not stale, node=stale[0][4] if stale else None,
               fingerprint=f"buffer-validity:{cls}", expected="reset the key wherever the buffer is written, or refill unconditionally",
               found=[f"{cls}.{o} writes self.{B} without resetting self.{K} (which {cls}.{m} trusts)" for K, B, m, o, _ in stale][:3])


def run(chk):
    ctor_aliasing(chk)
    owned_buffers(chk)
    rid = declare(chk)
    if chk.want(rid):
        mods, classes = SCOPES[chk.pid]
        cache_scope(chk, rid, mods, classes)
        if chk.pid in CRYSTAL_ON_PATH:
            from .c14 import crystal_memo_rule
            crystal_memo_rule(chk, rid)
